//! Dynamic view types and values + token encoding + generator + transition tags.
//!
//!   ty  ::= t | ts | tw | ta | u | h <tag> <n> aty^n ty | p <n> ty^n | o ty | e <n> ty^n | v ty | a | k
//!         | r <n> ty     (t = String, ts = &'static str, tw = Cow<'static, str>, ta = Arc<str>; r = [T; n])
//!         | sv ty        (StaticVec<T>; value = <n> val^n; only at top level or as the one child of a top-level element)
//!         | x aty ty     (attribute spreading: `view.add_any_attr(attr)`; value = attribute value, then the view's value)
//!   aty ::= base | base~<f><c><k>      base ::= s:<name> | os:<name> | b:<name> | c | oc | tc | y | oy | py | opy
//!           <f> = Rust type of the string value: g String, r &'static str, w Cow<'static, str>, a Arc<str>, o Oco<'static, str>
//!           <c> = conversion applied before the item is added: n none, c into_cloneable(), x into_cloneable_owned()
//!           <k> = Rust type of a style property NAME (py / opy): g, r, a
//!           (the model has ONE string type and no conversions: the suffix is read over by the Lean driver)
//!   val(t*) = <hex> | <hexbuf>:<start>:<len>  (bytes start..start+len of the buffer; equal buffers are ONE
//!             interned allocation in the harness, so such values are slices of one buffer)   val(r n ty) = val^n
//!   val(u) = u           val(p ..) = the component values in order
//!   val(o ty) = n | s val val(e ..) = <i> val  val(v ty) = <n> val^n   val(a) = ty val
//!   val(k) = <n> key^n    (decimal keys; the item view is `<li>k{key}</li>`)
//!   val(h ..) = the attribute values in order, then the child value
//!   attribute values: s, c, y: <hex>; os, oc, oy: n | s <hex>; b: 0|1; tc: <hex name> 0|1;
//!                     py: <hex name> <hex value>; opy: <hex name> (n | s <hex>)
use hx_common::{hex, unhex_str, Rng};
use std::collections::BTreeSet;

#[derive(Clone, Debug, PartialEq, Eq)]
pub enum AKind {
    Str(String),
    OStr(String),
    Bool(String),
    Cls,
    OCls,
    TCls,
    Sty,
    /// `Style<Option<_>>`: a whole-value style that can be absent
    OSty,
    PSty,
    OPSty,
}

/// the Rust type a string value is given as
#[derive(Clone, Copy, Debug, PartialEq, Eq)]
pub enum Form {
    String,
    Str,
    Cow,
    Arc,
    Oco,
}

/// conversion applied to the attribute item before it is added to the element
#[derive(Clone, Copy, Debug, PartialEq, Eq)]
pub enum Conv {
    None,
    Cloneable,
    Owned,
}

#[derive(Clone, Debug, PartialEq, Eq)]
pub struct ATy {
    pub kind: AKind,
    pub form: Form,
    pub conv: Conv,
    /// type of the property name of `py` / `opy`
    pub kform: Form,
}

impl Form {
    pub fn letter(self) -> char {
        match self {
            Form::String => 'g',
            Form::Str => 'r',
            Form::Cow => 'w',
            Form::Arc => 'a',
            Form::Oco => 'o',
        }
    }
    pub fn of(c: char) -> Option<Form> {
        Some(match c {
            'g' => Form::String,
            'r' => Form::Str,
            'w' => Form::Cow,
            'a' => Form::Arc,
            'o' => Form::Oco,
            _ => return None,
        })
    }
}

impl Conv {
    pub fn letter(self) -> char {
        match self {
            Conv::None => 'n',
            Conv::Cloneable => 'c',
            Conv::Owned => 'x',
        }
    }
    pub fn of(c: char) -> Option<Conv> {
        Some(match c {
            'n' => Conv::None,
            'c' => Conv::Cloneable,
            'x' => Conv::Owned,
            _ => return None,
        })
    }
}

#[derive(Clone, Copy, Debug, PartialEq, Eq)]
pub enum TextKind {
    /// `&'static str`
    Str,
    /// `Cow<'static, str>`
    Cow,
    /// `Arc<str>`
    Arc,
}

#[derive(Clone, Debug, PartialEq, Eq)]
pub enum TyD {
    Text,
    /// a text child of another string type
    TextK(TextKind),
    /// `[T; n]`; values are `ValD::Tuple`
    Arr(usize, Box<TyD>),
    Unit,
    Elem(String, Vec<ATy>, Box<TyD>),
    Tuple(Vec<TyD>),
    Opt(Box<TyD>),
    Either(Vec<TyD>),
    Vec(Box<TyD>),
    Any,
    Keyed,
    /// `inner.add_any_attr(attr)`: the attribute is spread over the top-level elements of `inner`
    Spread(ATy, Box<TyD>),
    /// `StaticVec<T>` (no marker node; values are `ValD::Vec`)
    SVec(Box<TyD>),
}

#[derive(Clone, Debug, PartialEq, Eq)]
pub enum AVal {
    Str(String),
    OStr(Option<String>),
    Bool(bool),
    Cls(String),
    OCls(Option<String>),
    TCls(String, bool),
    Sty(String),
    OSty(Option<String>),
    PSty(String, String),
    OPSty(String, Option<String>),
}

#[derive(Clone, Debug, PartialEq, Eq)]
pub enum ValD {
    Text(String),
    /// the text `buf[start..start + len]` (byte offsets on char boundaries)
    Slice { buf: String, start: usize, len: usize },
    Unit,
    Elem(Vec<AVal>, Box<ValD>),
    Tuple(Vec<ValD>),
    Opt(Option<Box<ValD>>),
    Either(usize, Box<ValD>),
    Vec(Vec<ValD>),
    Any(TyD, Box<ValD>),
    Keyed(Vec<u32>),
    Spread(AVal, Box<ValD>),
}

pub struct Toks<'a> {
    v: Vec<&'a str>,
    i: usize,
}

impl<'a> Toks<'a> {
    pub fn new(v: Vec<&'a str>) -> Self {
        Toks { v, i: 0 }
    }
    pub fn next(&mut self) -> Option<&'a str> {
        let t = self.v.get(self.i).copied();
        if t.is_some() {
            self.i += 1;
        }
        t
    }
    pub fn done(&self) -> bool {
        self.i == self.v.len()
    }
}

impl ATy {
    pub fn plain(kind: AKind) -> ATy {
        ATy { kind, form: Form::String, conv: Conv::None, kform: Form::String }
    }
    pub fn is_plain(&self) -> bool {
        self.form == Form::String && self.conv == Conv::None && self.kform == Form::String
    }
    pub fn token(&self) -> String {
        let base = match &self.kind {
            AKind::Str(n) => format!("s:{n}"),
            AKind::OStr(n) => format!("os:{n}"),
            AKind::Bool(n) => format!("b:{n}"),
            AKind::Cls => "c".into(),
            AKind::OCls => "oc".into(),
            AKind::TCls => "tc".into(),
            AKind::Sty => "y".into(),
            AKind::OSty => "oy".into(),
            AKind::PSty => "py".into(),
            AKind::OPSty => "opy".into(),
        };
        if self.is_plain() {
            base
        } else {
            format!("{base}~{}{}{}", self.form.letter(), self.conv.letter(), self.kform.letter())
        }
    }
    pub fn parse(s: &str) -> Option<ATy> {
        let (base, suffix) = match s.split_once('~') {
            Some((b, x)) => (b, Some(x)),
            None => (s, None),
        };
        let kind = match base.split(':').collect::<Vec<_>>().as_slice() {
            ["c"] => AKind::Cls,
            ["oc"] => AKind::OCls,
            ["tc"] => AKind::TCls,
            ["y"] => AKind::Sty,
            ["oy"] => AKind::OSty,
            ["py"] => AKind::PSty,
            ["opy"] => AKind::OPSty,
            ["s", n] => AKind::Str(n.to_string()),
            ["os", n] => AKind::OStr(n.to_string()),
            ["b", n] => AKind::Bool(n.to_string()),
            _ => return None,
        };
        let mut t = ATy::plain(kind);
        if let Some(x) = suffix {
            let cs: Vec<char> = x.chars().collect();
            let [f, c, k] = cs.as_slice() else { return None };
            t.form = Form::of(*f)?;
            t.conv = Conv::of(*c)?;
            t.kform = Form::of(*k)?;
        }
        Some(t)
    }
}

impl TyD {
    pub fn tokens(&self, out: &mut Vec<String>) {
        match self {
            TyD::Text => out.push("t".into()),
            TyD::TextK(TextKind::Str) => out.push("ts".into()),
            TyD::TextK(TextKind::Cow) => out.push("tw".into()),
            TyD::TextK(TextKind::Arc) => out.push("ta".into()),
            TyD::Arr(n, t) => {
                out.push("r".into());
                out.push(n.to_string());
                t.tokens(out);
            }
            TyD::Unit => out.push("u".into()),
            TyD::Any => out.push("a".into()),
            TyD::Keyed => out.push("k".into()),
            TyD::SVec(t) => {
                out.push("sv".into());
                t.tokens(out);
            }
            TyD::Spread(a, t) => {
                out.push("x".into());
                out.push(a.token());
                t.tokens(out);
            }
            TyD::Elem(tag, ats, c) => {
                out.push("h".into());
                out.push(tag.clone());
                out.push(ats.len().to_string());
                for a in ats {
                    out.push(a.token());
                }
                c.tokens(out);
            }
            TyD::Tuple(ts) => {
                out.push("p".into());
                out.push(ts.len().to_string());
                ts.iter().for_each(|t| t.tokens(out));
            }
            TyD::Either(ts) => {
                out.push("e".into());
                out.push(ts.len().to_string());
                ts.iter().for_each(|t| t.tokens(out));
            }
            TyD::Opt(t) => {
                out.push("o".into());
                t.tokens(out);
            }
            TyD::Vec(t) => {
                out.push("v".into());
                t.tokens(out);
            }
        }
    }
    pub fn show(&self) -> String {
        let mut v = vec![];
        self.tokens(&mut v);
        v.join(" ")
    }
    pub fn parse(t: &mut Toks) -> Option<TyD> {
        Some(match t.next()? {
            "t" => TyD::Text,
            "ts" => TyD::TextK(TextKind::Str),
            "tw" => TyD::TextK(TextKind::Cow),
            "ta" => TyD::TextK(TextKind::Arc),
            "r" => {
                let n: usize = t.next()?.parse().ok()?;
                TyD::Arr(n, Box::new(TyD::parse(t)?))
            }
            "u" => TyD::Unit,
            "a" => TyD::Any,
            "k" => TyD::Keyed,
            "sv" => TyD::SVec(Box::new(TyD::parse(t)?)),
            "x" => {
                let a = ATy::parse(t.next()?)?;
                TyD::Spread(a, Box::new(TyD::parse(t)?))
            }
            "h" => {
                let tag = t.next()?.to_string();
                let n: usize = t.next()?.parse().ok()?;
                let mut ats = vec![];
                for _ in 0..n {
                    ats.push(ATy::parse(t.next()?)?);
                }
                TyD::Elem(tag, ats, Box::new(TyD::parse(t)?))
            }
            "p" | "e" => {
                let which = t.v[t.i - 1];
                let n: usize = t.next()?.parse().ok()?;
                let mut ts = vec![];
                for _ in 0..n {
                    ts.push(TyD::parse(t)?);
                }
                if which == "p" {
                    TyD::Tuple(ts)
                } else {
                    TyD::Either(ts)
                }
            }
            "o" => TyD::Opt(Box::new(TyD::parse(t)?)),
            "v" => TyD::Vec(Box::new(TyD::parse(t)?)),
            _ => return None,
        })
    }
    pub fn depth(&self) -> usize {
        match self {
            TyD::Text | TyD::TextK(_) | TyD::Unit | TyD::Any | TyD::Keyed => 1,
            TyD::Arr(_, t) => 1 + t.depth(),
            TyD::Spread(_, t) => t.depth(),
            TyD::Elem(_, _, c) => 1 + c.depth(),
            TyD::Tuple(ts) | TyD::Either(ts) => 1 + ts.iter().map(|t| t.depth()).max().unwrap_or(0),
            TyD::Opt(t) | TyD::Vec(t) | TyD::SVec(t) => 1 + t.depth(),
        }
    }
    /// contains an `Arc<str>` text (its `Owned` type differs from `String`'s, so it is kept out of
    /// `AnyView` contents, where the Lean model compares types with one text type)
    pub fn has_arc(&self) -> bool {
        match self {
            TyD::TextK(TextKind::Arc) => true,
            TyD::Text | TyD::TextK(_) | TyD::Unit | TyD::Any | TyD::Keyed => false,
            TyD::Arr(_, t) | TyD::Opt(t) | TyD::Vec(t) | TyD::Spread(_, t) | TyD::SVec(t) => t.has_arc(),
            TyD::Elem(_, _, c) => c.has_arc(),
            TyD::Tuple(ts) | TyD::Either(ts) => ts.iter().any(|t| t.has_arc()),
        }
    }
    pub fn has_keyed(&self) -> bool {
        match self {
            TyD::Keyed => true,
            TyD::Text | TyD::TextK(_) | TyD::Unit | TyD::Any => false,
            TyD::Arr(_, t) | TyD::Spread(_, t) => t.has_keyed(),
            TyD::Elem(_, _, c) => c.has_keyed(),
            TyD::Tuple(ts) | TyD::Either(ts) => ts.iter().any(|t| t.has_keyed()),
            TyD::Opt(t) | TyD::Vec(t) | TyD::SVec(t) => t.has_keyed(),
        }
    }
    /// contains an attribute item whose type-erased (`into_cloneable_owned`) Rust type is not the one
    /// of the plain `String` form: `Oco` values (`CloneableOwned = Oco`, not `Arc<str>`), and
    /// `style:(name, value)` items with another name / value type (their `CloneableOwned` keeps both
    /// types).  As the contents of an `AnyView` such a view has another `TypeId` than its `String`
    /// twin, which the model, with its one string type, cannot tell apart: kept out of `AnyView`
    pub fn has_oco(&self) -> bool {
        let a_oco = |a: &ATy| {
            a.form == Form::Oco
                || (matches!(a.kind, AKind::PSty | AKind::OPSty) && (a.form != Form::String || a.kform != Form::String))
        };
        match self {
            TyD::Text | TyD::TextK(_) | TyD::Unit | TyD::Any | TyD::Keyed => false,
            TyD::Arr(_, t) | TyD::Opt(t) | TyD::Vec(t) | TyD::SVec(t) => t.has_oco(),
            TyD::Spread(a, t) => a_oco(a) || t.has_oco(),
            TyD::Elem(_, ats, c) => ats.iter().any(a_oco) || c.has_oco(),
            TyD::Tuple(ts) | TyD::Either(ts) => ts.iter().any(|t| t.has_oco()),
        }
    }
    /// contains an `AnyView` that receives spread attributes (`AnyViewWithAttrs`).  In the model
    /// spreading over an `AnyView` reaches the content and the type stays "any view", so `AnyView`
    /// and `AnyViewWithAttrs` (two Rust types) are one model type: kept out of `AnyView` contents
    pub fn has_spread_any(&self) -> bool {
        fn reaches_any(t: &TyD) -> bool {
            match t {
                TyD::Any => true,
                TyD::Text | TyD::TextK(_) | TyD::Unit | TyD::Keyed | TyD::Elem(..) => false,
                TyD::Arr(_, t) | TyD::Opt(t) | TyD::Vec(t) | TyD::Spread(_, t) | TyD::SVec(t) => reaches_any(t),
                TyD::Tuple(ts) | TyD::Either(ts) => ts.iter().any(reaches_any),
            }
        }
        match self {
            TyD::Text | TyD::TextK(_) | TyD::Unit | TyD::Any | TyD::Keyed => false,
            TyD::Spread(_, t) => reaches_any(t) || t.has_spread_any(),
            TyD::Arr(_, t) | TyD::Opt(t) | TyD::Vec(t) | TyD::SVec(t) => t.has_spread_any(),
            TyD::Elem(_, _, c) => c.has_spread_any(),
            TyD::Tuple(ts) | TyD::Either(ts) => ts.iter().any(|t| t.has_spread_any()),
        }
    }
    /// the top-level elements of a value are the same nodes after every rebuild (no `Option` /
    /// `Either` / `Vec` / `AnyView` above them)
    pub fn stable_top(&self) -> bool {
        match self {
            TyD::Text | TyD::TextK(_) | TyD::Unit | TyD::Elem(..) => true,
            TyD::Arr(_, t) | TyD::Spread(_, t) => t.stable_top(),
            TyD::Tuple(ts) => ts.iter().all(|t| t.stable_top()),
            TyD::Opt(_) | TyD::Either(_) | TyD::Vec(_) | TyD::SVec(_) | TyD::Any | TyD::Keyed => false,
        }
    }
    /// contains a `StaticVec` (the model covers it at top level / as the one child of a top-level
    /// element only: kept out of `AnyView` contents)
    pub fn has_svec(&self) -> bool {
        match self {
            TyD::SVec(_) => true,
            TyD::Text | TyD::TextK(_) | TyD::Unit | TyD::Any | TyD::Keyed => false,
            TyD::Arr(_, t) | TyD::Opt(t) | TyD::Vec(t) | TyD::Spread(_, t) => t.has_svec(),
            TyD::Elem(_, _, c) => c.has_svec(),
            TyD::Tuple(ts) | TyD::Either(ts) => ts.iter().any(|t| t.has_svec()),
        }
    }
    /// an upper bound of the number of top-level elements of a value (2 = "several")
    pub fn max_top_elems(&self) -> usize {
        match self {
            TyD::Text | TyD::TextK(_) | TyD::Unit => 0,
            TyD::Elem(..) => 1,
            TyD::Any | TyD::Keyed | TyD::Vec(_) | TyD::SVec(_) => 2,
            TyD::Arr(n, t) => (n * t.max_top_elems()).min(2),
            TyD::Opt(t) | TyD::Spread(_, t) => t.max_top_elems(),
            TyD::Tuple(ts) => ts.iter().map(|t| t.max_top_elems()).sum::<usize>().min(2),
            TyD::Either(ts) => ts.iter().map(|t| t.max_top_elems()).max().unwrap_or(0),
        }
    }
    /// tags for what the TYPE exercises (string forms, conversions, spreading)
    pub fn type_tags(&self, out: &mut BTreeSet<String>) {
        let atag = |a: &ATy, out: &mut BTreeSet<String>| {
            if a.form != Form::String {
                out.insert(format!("attr-form-{}", a.form.letter()));
            }
            if a.kform != Form::String {
                out.insert(format!("attr-kform-{}", a.kform.letter()));
            }
            match a.conv {
                Conv::None => {}
                Conv::Cloneable => {
                    out.insert("attr-into-cloneable".into());
                }
                Conv::Owned => {
                    out.insert("attr-into-cloneable-owned".into());
                }
            }
        };
        match self {
            TyD::Text | TyD::TextK(_) | TyD::Unit | TyD::Any | TyD::Keyed => {}
            TyD::SVec(t) => {
                out.insert("static-vec".into());
                t.type_tags(out);
            }
            TyD::Arr(_, t) | TyD::Opt(t) | TyD::Vec(t) => t.type_tags(out),
            TyD::Spread(a, t) => {
                out.insert(if **t == TyD::Any { "spread-any" } else { "spread" }.into());
                atag(a, out);
                t.type_tags(out);
            }
            TyD::Elem(_, ats, c) => {
                ats.iter().for_each(|a| atag(a, out));
                c.type_tags(out);
            }
            TyD::Tuple(ts) | TyD::Either(ts) => ts.iter().for_each(|t| t.type_tags(out)),
        }
    }
}

fn opt_hex(out: &mut Vec<String>, v: &Option<String>) {
    match v {
        None => out.push("n".into()),
        Some(s) => {
            out.push("s".into());
            out.push(hex(s.as_bytes()));
        }
    }
}

fn parse_opt_hex(t: &mut Toks) -> Option<Option<String>> {
    match t.next()? {
        "n" => Some(None),
        "s" => Some(Some(unhex_str(t.next()?)?)),
        _ => None,
    }
}

impl AVal {
    pub fn tokens(&self, out: &mut Vec<String>) {
        match self {
            AVal::Str(v) | AVal::Cls(v) | AVal::Sty(v) => out.push(hex(v.as_bytes())),
            AVal::OStr(v) | AVal::OCls(v) | AVal::OSty(v) => opt_hex(out, v),
            AVal::Bool(b) => out.push(if *b { "1" } else { "0" }.into()),
            AVal::TCls(n, b) => {
                out.push(hex(n.as_bytes()));
                out.push(if *b { "1" } else { "0" }.into());
            }
            AVal::PSty(n, v) => {
                out.push(hex(n.as_bytes()));
                out.push(hex(v.as_bytes()));
            }
            AVal::OPSty(n, v) => {
                out.push(hex(n.as_bytes()));
                opt_hex(out, v);
            }
        }
    }
    pub fn parse(ty: &ATy, t: &mut Toks) -> Option<AVal> {
        let b = |s: &str| match s {
            "0" => Some(false),
            "1" => Some(true),
            _ => None,
        };
        Some(match &ty.kind {
            AKind::Str(_) => AVal::Str(unhex_str(t.next()?)?),
            AKind::Cls => AVal::Cls(unhex_str(t.next()?)?),
            AKind::Sty => AVal::Sty(unhex_str(t.next()?)?),
            AKind::OStr(_) => AVal::OStr(parse_opt_hex(t)?),
            AKind::OCls => AVal::OCls(parse_opt_hex(t)?),
            AKind::OSty => AVal::OSty(parse_opt_hex(t)?),
            AKind::Bool(_) => AVal::Bool(b(t.next()?)?),
            AKind::TCls => {
                let n = unhex_str(t.next()?)?;
                AVal::TCls(n, b(t.next()?)?)
            }
            AKind::PSty => {
                let n = unhex_str(t.next()?)?;
                AVal::PSty(n, unhex_str(t.next()?)?)
            }
            AKind::OPSty => {
                let n = unhex_str(t.next()?)?;
                AVal::OPSty(n, parse_opt_hex(t)?)
            }
        })
    }
}

impl ValD {
    pub fn tokens(&self, out: &mut Vec<String>) {
        match self {
            ValD::Text(s) => out.push(hex(s.as_bytes())),
            ValD::Slice { buf, start, len } => out.push(format!("{}:{start}:{len}", hex(buf.as_bytes()))),
            ValD::Unit => out.push("u".into()),
            ValD::Elem(avs, c) => {
                avs.iter().for_each(|a| a.tokens(out));
                c.tokens(out);
            }
            ValD::Tuple(vs) => vs.iter().for_each(|v| v.tokens(out)),
            ValD::Opt(None) => out.push("n".into()),
            ValD::Opt(Some(v)) => {
                out.push("s".into());
                v.tokens(out);
            }
            ValD::Either(i, v) => {
                out.push(i.to_string());
                v.tokens(out);
            }
            ValD::Vec(vs) => {
                out.push(vs.len().to_string());
                vs.iter().for_each(|v| v.tokens(out));
            }
            ValD::Any(ty, v) => {
                ty.tokens(out);
                v.tokens(out);
            }
            ValD::Keyed(ks) => {
                out.push(ks.len().to_string());
                ks.iter().for_each(|k| out.push(k.to_string()));
            }
            ValD::Spread(a, v) => {
                a.tokens(out);
                v.tokens(out);
            }
        }
    }
    pub fn show(&self) -> String {
        let mut v = vec![];
        self.tokens(&mut v);
        v.join(" ")
    }
    pub fn parse(ty: &TyD, t: &mut Toks) -> Option<ValD> {
        Some(match ty {
            TyD::Text | TyD::TextK(_) => {
                let tok = t.next()?;
                match tok.split(':').collect::<Vec<_>>().as_slice() {
                    [h] => ValD::Text(unhex_str(h)?),
                    [b, st, ln] => {
                        let buf = unhex_str(b)?;
                        let (start, len): (usize, usize) = (st.parse().ok()?, ln.parse().ok()?);
                        buf.get(start..start + len)?;
                        ValD::Slice { buf, start, len }
                    }
                    _ => return None,
                }
            }
            TyD::Arr(n, ty) => {
                let mut vs = vec![];
                for _ in 0..*n {
                    vs.push(ValD::parse(ty, t)?);
                }
                ValD::Tuple(vs)
            }
            TyD::Unit => (t.next()? == "u").then_some(ValD::Unit)?,
            TyD::Elem(_, ats, ct) => {
                let mut avs = vec![];
                for a in ats {
                    avs.push(AVal::parse(a, t)?);
                }
                ValD::Elem(avs, Box::new(ValD::parse(ct, t)?))
            }
            TyD::Tuple(ts) => {
                let mut vs = vec![];
                for ty in ts {
                    vs.push(ValD::parse(ty, t)?);
                }
                ValD::Tuple(vs)
            }
            TyD::Opt(ty) => match t.next()? {
                "n" => ValD::Opt(None),
                "s" => ValD::Opt(Some(Box::new(ValD::parse(ty, t)?))),
                _ => return None,
            },
            TyD::Either(ts) => {
                let i: usize = t.next()?.parse().ok()?;
                ValD::Either(i, Box::new(ValD::parse(ts.get(i)?, t)?))
            }
            TyD::Vec(ty) | TyD::SVec(ty) => {
                let n: usize = t.next()?.parse().ok()?;
                let mut vs = vec![];
                for _ in 0..n {
                    vs.push(ValD::parse(ty, t)?);
                }
                ValD::Vec(vs)
            }
            TyD::Any => {
                let ty = TyD::parse(t)?;
                let v = ValD::parse(&ty, t)?;
                ValD::Any(ty, Box::new(v))
            }
            TyD::Keyed => {
                let n: usize = t.next()?.parse().ok()?;
                let mut ks = vec![];
                for _ in 0..n {
                    ks.push(t.next()?.parse().ok()?);
                }
                ValD::Keyed(ks)
            }
            TyD::Spread(a, ty) => {
                let av = AVal::parse(a, t)?;
                ValD::Spread(av, Box::new(ValD::parse(ty, t)?))
            }
        })
    }
}

// ------------------------------------------------------------------------------------ generator

/// small hostile alphabet (markup characters, entities, empty string, whitespace, non-ASCII)
pub const TEXTS: &[&str] = &[
    "", "a", "b", "ab", " ", "<", "&amp;", "\"", "é", "a b", "x\ny", "<!--", "-->", "</div>", "'",
];
/// buffers that sliced text values point into
pub const BUFFERS: &[&str] = &["hello world", "aé<b>&amp; x", "ab", " x\ny "];
pub const CLASSES: &[&str] = &["", "a", "b", "a b", "b a", "a  a", " c ", "on big", "x\ty", "A", "a A", "\na "];
pub const TOGGLES: &[&str] = &["a", "b", "c", "on", "é", "A"];
/// toggle names that are not ONE class token: padded, inner white space, empty (`classList` rejects
/// them: InvalidCharacterError / SyntaxError)
pub const ODD_TOGGLES: &[&str] = &["a ", " a", " a ", "a b", "", "\ta", "on\n", " "];
pub const STYLES: &[&str] = &[
    "", "color: red;", "color:red", "width: 1px; color: blue", "COLOR: Red", "--x: 1", "junk",
    "a:b;a:c", "color: red; width: 2px;", " color : red ; ", "--X: 2; --x: 3",
];
pub const PROPS: &[&str] = &["color", "width", "--x", "Color"];
/// property names with padding / other case / custom-property case variants / empty
pub const ODD_PROPS: &[&str] = &[" color", "color ", " color ", "COLOR", "WIDTH", "--X", " --x", "", "\twidth"];
pub const PVALS: &[&str] = &["red", "blue", "", " 1px ", "0", "red ", " red", "RED", "re d", "  "];

pub struct Gen<'a> {
    pub rng: &'a mut Rng,
    /// types an `AnyView` may hold, most shallow first
    pub any_tys: &'a [TyD],
    /// keep the attribute-level shapes that are known to interfere out of the values
    pub tame_attrs: bool,
    /// attributes spread onto an `AnyView` (`AnyViewWithAttrs`) survive a change of the content's
    /// type / several or changing top-level elements (F-C03-8 repaired); when `false`, an `AnyView`
    /// that an `add_any_attr` reaches keeps the type of its content, which has at most one
    /// top-level element, the same node after every rebuild
    pub spread_any_ok: bool,
    /// an `add_any_attr` reaches the position being generated
    pub under_spread: bool,
}

impl Gen<'_> {
    fn text(&mut self) -> String {
        self.rng.pick(TEXTS).to_string()
    }
    fn opt<T>(&mut self, f: impl FnOnce(&mut Self) -> T) -> Option<T> {
        if self.rng.chance(1, 3) {
            None
        } else {
            Some(f(self))
        }
    }
    pub fn aval(&mut self, ty: &ATy, prev: Option<&AVal>) -> AVal {
        if let Some(p) = prev {
            if self.rng.chance(1, 3) {
                return p.clone();
            }
        }
        match &ty.kind {
            AKind::Str(_) => AVal::Str(self.text()),
            AKind::OStr(_) => AVal::OStr(self.opt(|g| g.text())),
            AKind::Bool(_) => AVal::Bool(self.rng.chance(1, 2)),
            AKind::Cls => AVal::Cls(self.rng.pick(CLASSES).to_string()),
            AKind::OCls => AVal::OCls(self.opt(|g| g.rng.pick(CLASSES).to_string())),
            AKind::TCls => {
                let name = match prev {
                    Some(AVal::TCls(n, _)) if self.tame_attrs || self.rng.chance(7, 8) => n.clone(),
                    _ if !self.tame_attrs && self.rng.chance(1, 5) => self.rng.pick(ODD_TOGGLES).to_string(),
                    _ => self.rng.pick(TOGGLES).to_string(),
                };
                AVal::TCls(name, self.rng.chance(1, 2))
            }
            AKind::Sty => AVal::Sty(self.rng.pick(STYLES).to_string()),
            AKind::OSty => AVal::OSty(self.opt(|g| g.rng.pick(STYLES).to_string())),
            AKind::PSty => {
                let name = match prev {
                    Some(AVal::PSty(n, _)) if self.tame_attrs || self.rng.chance(3, 4) => n.clone(),
                    _ => self.prop_name(),
                };
                AVal::PSty(name, self.rng.pick(PVALS).to_string())
            }
            AKind::OPSty => {
                let name = match prev {
                    Some(AVal::OPSty(n, _)) if self.tame_attrs || self.rng.chance(3, 4) => n.clone(),
                    _ => self.prop_name(),
                };
                AVal::OPSty(name, self.opt(|g| g.rng.pick(PVALS).to_string()))
            }
        }
    }

    fn prop_name(&mut self) -> String {
        if self.rng.chance(1, 4) {
            self.rng.pick(ODD_PROPS).to_string()
        } else {
            self.rng.pick(PROPS).to_string()
        }
    }

    /// a text value: a fresh string, or a slice of one of a few shared buffers; with a sliced `prev`,
    /// biased to slices of the SAME buffer (same start with another length = prefix grows /
    /// shrinks, same slice, another start = suffix, the whole buffer)
    fn text_val(&mut self, prev: Option<&ValD>) -> ValD {
        let bounds = |b: &str| -> Vec<usize> {
            b.char_indices().map(|(i, _)| i).chain(std::iter::once(b.len())).collect()
        };
        if let Some(ValD::Slice { buf, start, len }) = prev {
            let bs = bounds(buf);
            match self.rng.below(8) {
                0 | 1 | 2 => {
                    // same start, another end
                    let ends: Vec<usize> = bs.iter().copied().filter(|e| *e >= *start).collect();
                    let e = *self.rng.pick(&ends);
                    return ValD::Slice { buf: buf.clone(), start: *start, len: e - start };
                }
                3 => return ValD::Slice { buf: buf.clone(), start: *start, len: *len },
                4 => {
                    // suffix: another start, same end
                    let end = start + len;
                    let starts: Vec<usize> = bs.iter().copied().filter(|b| *b <= end).collect();
                    let st = *self.rng.pick(&starts);
                    return ValD::Slice { buf: buf.clone(), start: st, len: end - st };
                }
                5 => return ValD::Slice { buf: buf.clone(), start: 0, len: buf.len() },
                _ => {}
            }
        }
        if self.rng.chance(1, 2) {
            let buf = self.rng.pick(BUFFERS).to_string();
            let bs = bounds(&buf);
            let i = self.rng.below(bs.len());
            let j = i + self.rng.below(bs.len() - i);
            ValD::Slice { start: bs[i], len: bs[j] - bs[i], buf }
        } else {
            ValD::Text(self.text())
        }
    }

    /// a value of `ty`; with `prev`, a value that shares parts with `prev` (each node is kept
    /// with probability 1/4, otherwise regenerated with the corresponding children as hints)
    pub fn val(&mut self, ty: &TyD, prev: Option<&ValD>, depth: usize) -> ValD {
        if let Some(p) = prev {
            if self.rng.chance(1, 4) {
                return p.clone();
            }
        }
        match ty {
            TyD::Text | TyD::TextK(_) => self.text_val(prev),
            TyD::Arr(n, t) => {
                let pv = match prev {
                    Some(ValD::Tuple(v)) => Some(v),
                    _ => None,
                };
                ValD::Tuple(
                    (0..*n).map(|i| self.val(t, pv.and_then(|p| p.get(i)), depth.saturating_sub(1))).collect(),
                )
            }
            TyD::Unit => ValD::Unit,
            TyD::Elem(_, ats, ct) => {
                let (pa, pc) = match prev {
                    Some(ValD::Elem(a, c)) => (Some(a), Some(&**c)),
                    _ => (None, None),
                };
                let avs = ats
                    .iter()
                    .enumerate()
                    .map(|(i, a)| self.aval(a, pa.and_then(|p| p.get(i))))
                    .collect();
                let under = std::mem::replace(&mut self.under_spread, false);
                let c = self.val(ct, pc, depth.saturating_sub(1));
                self.under_spread = under;
                ValD::Elem(avs, Box::new(c))
            }
            TyD::Tuple(ts) => {
                let pv = match prev {
                    Some(ValD::Tuple(v)) => Some(v),
                    _ => None,
                };
                ValD::Tuple(
                    ts.iter()
                        .enumerate()
                        .map(|(i, t)| self.val(t, pv.and_then(|p| p.get(i)), depth.saturating_sub(1)))
                        .collect(),
                )
            }
            TyD::Opt(t) => {
                if self.rng.chance(1, 3) {
                    ValD::Opt(None)
                } else {
                    let p = match prev {
                        Some(ValD::Opt(Some(p))) => Some(&**p),
                        _ => None,
                    };
                    ValD::Opt(Some(Box::new(self.val(t, p, depth.saturating_sub(1)))))
                }
            }
            TyD::Either(ts) => {
                let (pi, pv) = match prev {
                    Some(ValD::Either(i, v)) => (Some(*i), Some(&**v)),
                    _ => (None, None),
                };
                let i = match pi {
                    Some(i) if self.rng.chance(1, 2) => i,
                    _ => self.rng.below(ts.len()),
                };
                let p = if Some(i) == pi { pv } else { None };
                ValD::Either(i, Box::new(self.val(&ts[i], p, depth.saturating_sub(1))))
            }
            TyD::Vec(t) | TyD::SVec(t) => {
                let pv: &[ValD] = match prev {
                    Some(ValD::Vec(v)) => v,
                    _ => &[],
                };
                let n = match self.rng.below(8) {
                    0 => 0,
                    1 | 2 => pv.len(),
                    3 => pv.len() + 1,
                    4 => pv.len().saturating_sub(1),
                    _ => self.rng.below(4),
                };
                ValD::Vec((0..n).map(|i| self.val(t, pv.get(i), depth.saturating_sub(1))).collect())
            }
            TyD::Any => {
                let (pt, pv) = match prev {
                    Some(ValD::Any(t, v)) => (Some(t), Some(&**v)),
                    _ => (None, None),
                };
                let restricted = self.under_spread && !self.spread_any_ok;
                let ty = match pt {
                    Some(t) if restricted || self.rng.chance(1, 2) => t.clone(),
                    _ => {
                        let fits: Vec<&TyD> = self
                            .any_tys
                            .iter()
                            .filter(|t| t.depth() <= depth.max(1) && (!restricted || (t.max_top_elems() <= 1 && t.stable_top())))
                            .collect();
                        if fits.is_empty() {
                            TyD::Text
                        } else {
                            (*self.rng.pick(&fits)).clone()
                        }
                    }
                };
                let p = if Some(&ty) == pt { pv } else { None };
                let under = std::mem::replace(&mut self.under_spread, false);
                let v = self.val(&ty, p, depth.saturating_sub(1));
                self.under_spread = under;
                ValD::Any(ty, Box::new(v))
            }
            TyD::Spread(a, t) => {
                let (pa, pv) = match prev {
                    Some(ValD::Spread(a, v)) => (Some(a), Some(&**v)),
                    _ => (None, None),
                };
                let av = self.aval(a, pa);
                let under = std::mem::replace(&mut self.under_spread, true);
                let v = self.val(t, pv, depth);
                self.under_spread = under;
                ValD::Spread(av, Box::new(v))
            }
            TyD::Keyed => {
                let pk: &[u32] = match prev {
                    Some(ValD::Keyed(k)) => k,
                    _ => &[],
                };
                // a duplicate-free sequence over 6 keys, biased to permutations / small edits of prev
                let mut pool: Vec<u32> = (0..6).collect();
                let mut ks: Vec<u32> = vec![];
                if !pk.is_empty() && self.rng.chance(1, 2) {
                    ks = pk.to_vec();
                    match self.rng.below(4) {
                        0 => {
                            let i = self.rng.below(ks.len());
                            ks.remove(i);
                        }
                        1 => {
                            let i = self.rng.below(ks.len());
                            let j = self.rng.below(ks.len());
                            ks.swap(i, j);
                        }
                        2 => ks.reverse(),
                        _ => {
                            pool.retain(|k| !ks.contains(k));
                            if !pool.is_empty() {
                                let k = *self.rng.pick(&pool);
                                let i = self.rng.below(ks.len() + 1);
                                ks.insert(i, k);
                            }
                        }
                    }
                } else {
                    let n = self.rng.below(6);
                    for _ in 0..n {
                        let i = self.rng.below(pool.len());
                        ks.push(pool.remove(i));
                    }
                }
                ValD::Keyed(ks)
            }
        }
    }
}

// ------------------------------------------------------------------------------------ tags

fn prop_name_tags(n: &str, m: &str, out: &mut BTreeSet<String>) {
    if m.trim() != m {
        out.insert("prop-name-padded".into());
    }
    if m.trim().is_empty() {
        out.insert("prop-name-empty".into());
    }
    if n != m && n.trim().eq_ignore_ascii_case(m.trim()) {
        out.insert("prop-rename-same-normalised".into());
    }
}

fn atags(a: &AVal, b: &AVal, out: &mut BTreeSet<String>) {
    let t = match (a, b) {
        (AVal::Str(x), AVal::Str(y)) => if x == y { "attr-same" } else { "attr-change" },
        (AVal::OStr(x), AVal::OStr(y)) | (AVal::OCls(x), AVal::OCls(y)) => match (x, y) {
            (Some(_), None) => "attr-remove",
            (None, Some(_)) => "attr-add",
            (None, None) => "attr-absent",
            (Some(x), Some(y)) => if x == y { "attr-same" } else { "attr-change" },
        },
        (AVal::Bool(x), AVal::Bool(y)) => match (x, y) {
            (true, false) => "battr-remove",
            (false, true) => "battr-add",
            _ => "battr-same",
        },
        (AVal::Cls(x), AVal::Cls(y)) => if x == y { "class-same" } else { "class-change" },
        (AVal::TCls(n, x), AVal::TCls(m, y)) => {
            let one_token = |s: &str| !s.is_empty() && !s.contains(|c: char| c.is_ascii_whitespace());
            if !one_token(m) {
                out.insert(if m.trim() != m.as_str() && one_token(m.trim()) { "toggle-name-padded" } else { "toggle-name-invalid" }.into());
            }
            if n != m && n.trim() == m.trim() {
                out.insert("toggle-name-same-trimmed".into());
            }
            if n != m {
                "class-toggle-rename"
            } else if x != y {
                "class-toggle"
            } else {
                "class-toggle-same"
            }
        }
        (AVal::Sty(x), AVal::Sty(y)) => if x == y { "style-same" } else { "style-change" },
        (AVal::OSty(x), AVal::OSty(y)) => match (x, y) {
            (Some(_), None) => "style-remove",
            (None, Some(_)) => "style-add",
            (None, None) => "style-absent",
            (Some(x), Some(y)) => if x == y { "style-same" } else { "style-change" },
        },
        (AVal::PSty(n, x), AVal::PSty(m, y)) => {
            prop_name_tags(n, m, out);
            if n != m {
                "style-prop-rename"
            } else if x != y {
                "style-prop-change"
            } else {
                "style-prop-same"
            }
        }
        (AVal::OPSty(n, x), AVal::OPSty(m, y)) => {
            prop_name_tags(n, m, out);
            if n != m {
                "style-prop-rename"
            } else {
                match (x, y) {
                    (Some(_), None) => "style-prop-remove",
                    (None, Some(_)) => "style-prop-add",
                    _ => "style-prop-opt",
                }
            }
        }
        _ => "attr-mismatch",
    };
    out.insert(t.into());
}

/// contents of a text value
pub fn text_of(v: &ValD) -> Option<String> {
    match v {
        ValD::Text(s) => Some(s.clone()),
        ValD::Slice { buf, start, len } => buf.get(*start..start + len).map(str::to_string),
        _ => None,
    }
}

/// the value renders no DOM node at all (`[T; 0]`, tuples / arrays of such)
pub fn nodeless(v: &ValD) -> bool {
    match v {
        ValD::Tuple(vs) => vs.iter().all(nodeless),
        ValD::Opt(Some(v)) | ValD::Either(_, v) | ValD::Any(_, v) | ValD::Spread(_, v) => nodeless(v),
        _ => false,
    }
}

/// names the transitions that rebuilding `a` into `b` exercises
pub fn transition_tags(a: &ValD, b: &ValD, out: &mut BTreeSet<String>) {
    match (a, b) {
        (x @ (ValD::Text(_) | ValD::Slice { .. }), y @ (ValD::Text(_) | ValD::Slice { .. })) => {
            let (xs, ys) = (text_of(x).unwrap_or_default(), text_of(y).unwrap_or_default());
            out.insert(if xs == ys { "text-same" } else { "text-change" }.into());
            if ys.is_empty() {
                out.insert("text-empty".into());
            }
            if let (ValD::Slice { buf: b1, start: s1, len: l1 }, ValD::Slice { buf: b2, start: s2, len: l2 }) = (x, y) {
                if b1 == b2 {
                    out.insert(
                        if s1 == s2 && l1 == l2 {
                            "slice-identical"
                        } else if s1 == s2 && l2 < l1 {
                            "slice-same-start-shorter"
                        } else if s1 == s2 {
                            "slice-same-start-longer"
                        } else if s1 + l1 == s2 + l2 {
                            "slice-suffix"
                        } else {
                            "slice-other-range"
                        }
                        .into(),
                    );
                } else {
                    out.insert("slice-other-buffer".into());
                }
            } else if matches!(y, ValD::Slice { .. }) || matches!(x, ValD::Slice { .. }) {
                out.insert("slice-vs-fresh".into());
            }
        }
        (ValD::Unit, ValD::Unit) => {
            out.insert("unit".into());
        }
        (ValD::Elem(aa, ac), ValD::Elem(ba, bc)) => {
            out.insert("elem".into());
            for (x, y) in aa.iter().zip(ba) {
                atags(x, y, out);
            }
            transition_tags(ac, bc, out);
        }
        (ValD::Tuple(xs), ValD::Tuple(ys)) => {
            out.insert(format!("tuple{}", xs.len()));
            if xs.len() >= 2 && xs.first().map(nodeless).unwrap_or(false) && !xs.iter().all(nodeless) {
                out.insert("tuple-nodeless-first".into());
            }
            for (x, y) in xs.iter().zip(ys) {
                transition_tags(x, y, out);
            }
        }
        (ValD::Opt(x), ValD::Opt(y)) => match (x, y) {
            (Some(x), Some(y)) => {
                out.insert("opt-some-some".into());
                transition_tags(x, y, out);
            }
            (Some(x), None) => {
                out.insert("opt-some-none".into());
                if nodeless(x) {
                    out.insert("switch-from-nodeless".into());
                } else if let ValD::Tuple(ms) = &**x {
                    if ms.first().map(nodeless).unwrap_or(false) {
                        out.insert("switch-from-nodeless-first-tuple".into());
                    }
                }
            }
            (None, Some(_)) => {
                out.insert("opt-none-some".into());
            }
            (None, None) => {
                out.insert("opt-none-none".into());
            }
        },
        (ValD::Either(i, x), ValD::Either(j, y)) => {
            if i == j {
                out.insert("either-same".into());
                transition_tags(x, y, out);
            } else {
                out.insert("either-switch".into());
                if nodeless(x) {
                    out.insert("switch-from-nodeless".into());
                } else if let ValD::Tuple(ms) = &**x {
                    if ms.first().map(nodeless).unwrap_or(false) {
                        out.insert("switch-from-nodeless-first-tuple".into());
                    }
                }
            }
        }
        (ValD::Vec(xs), ValD::Vec(ys)) => {
            let t = match (xs.len(), ys.len()) {
                (0, 0) => "vec-empty-empty",
                (0, _) => "vec-from-empty",
                (_, 0) => "vec-to-empty",
                (n, m) if n < m => "vec-grow",
                (n, m) if n > m => "vec-shrink",
                _ => "vec-same-len",
            };
            out.insert(t.into());
            for (x, y) in xs.iter().zip(ys) {
                transition_tags(x, y, out);
            }
        }
        (ValD::Any(s, x), ValD::Any(t, y)) => {
            if s == t {
                out.insert("any-same-type".into());
                transition_tags(x, y, out);
            } else {
                out.insert("any-type-change".into());
                if nodeless(x) {
                    out.insert("switch-from-nodeless".into());
                } else if let ValD::Tuple(ms) = &**x {
                    if ms.first().map(nodeless).unwrap_or(false) {
                        out.insert("switch-from-nodeless-first-tuple".into());
                    }
                }
            }
        }
        (ValD::Keyed(xs), ValD::Keyed(ys)) => {
            out.insert(if xs == ys { "keyed-same" } else { "keyed-change" }.into());
        }
        (ValD::Spread(x, xv), ValD::Spread(y, yv)) => {
            atags(x, y, out);
            if let (ValD::Any(s, _), ValD::Any(t, _)) = (&**xv, &**yv) {
                if s != t {
                    out.insert("spread-any-type-change".into());
                }
            }
            transition_tags(xv, yv, out);
        }
        _ => {
            out.insert("shape-mismatch".into());
        }
    }
}
