//! C08 correspondence harness: owner disposal on the REAL `reactive_graph` (feature "effects")
//! from /repo's working tree, driven through the controlled executor `hx_common::sched`.
//!
//! Handle tables (per case, append-only, numbered by creation order; every handle is retained for
//! the whole case so that stale handles keep being observed):
//!   O owners (`Owner`), I stored values (`StoredValue<i64>`), S signals (`RwSignal<i64>`),
//!   M memos (`Memo<i64>`), E effects (`Effect<LocalStorage>`), B bodies (token lists).
//!
//! Body tokens (executed under the ambient owner; effect/memo bodies are token lists):
//!   r<s>      tracked read of signal s (`try_get`, adds to the body's sum)
//!   g<m>      untracked read of memo m (`try_get_untracked`; ignored inside a memo run) -> event G<m>=v|-
//!   c<tag>    `on_cleanup(log C<tag>)`
//!   n<tag>    `on_cleanup(..)` whose callback logs C<tag>, then itself calls `on_cleanup(log C<tag+100>)`
//!             and `StoredValue::new(tag)` (work registered *during* a cleanup)
//!   i<v>      `StoredValue::new(v)`         s<v>  `RwSignal::new(v)`
//!   p<t>.<v>  `provide_context(Ctx_t(v))`   u<t>  `use_context::<Ctx_t>()` -> event U<t>=v|-
//!   t<t>      `take_context::<Ctx_t>()` -> event T<t>=v|-
//!   l<t>      `with_context::<Ctx_t, _>(|c| c.0)` -> event U<t>=v|-      b<t>  `expect_context::<Ctx_t>()` (the
//!             panic of a missing context is caught) -> event U<t>=v|-
//!   d<t>.<k>  `update_context::<Ctx_t, _>(|c| { c.0 += k; c.0 })` -> event U<t>=<new value>|-
//!   e<b>      `Effect::new(body b)`         m<b>  `Memo::new(body b)`       o  `Owner::new()`
//!   E<b>      `Effect::new_sync(body b)`    I<b>  `Effect::new_isomorphic(body b)`
//!   w<b>.<h>  `Effect::watch(body b, handler body h, false)`   W<b>.<h>  the same with `immediate = true`
//!   y<b>.<h>  `Effect::watch_sync(body b, handler body h, false)`   Y<b>.<h>  with `immediate = true`
//!             (handler bodies: only r/c/i/s/u/l/b tokens are executed; event H<e> when the handler starts;
//!             what the handler creates belongs to the effect's current run — F-C08-2, repaired)
//!   v<b>      `RenderEffect::new(body b)` (handle retained; `dispose e <k>` drops it)
//!   a<b>      `AsyncDerived::new(move || { body b; async move { sum } })` (future ready at once)
//!   V<b>      `RenderEffect::new_isomorphic(body b)` (as `v`)
//!   j<b>      `ImmediateEffect::new(body b)` (handle retained; `dispose e <k>` drops it)
//!   Q<b>      `ImmediateEffect::new_isomorphic(body b)`   q<b>  `ImmediateEffect::new_mut(body b)`
//!   J<b>      `ImmediateEffect::new_scoped(body b)` (no handle: it lives until the current owner's next clean-up)
//!   z<s>.<v>  `if sigs[s].get_untracked() < v { sigs[s].set(v) }` — inside an immediate effect that reads
//!             s this makes the effect recurse; ignored inside a memo run and while a `new_mut` function runs
//!   k<b>      `spawn_local_scoped(async { body b; yield; body b })`   K<b>  `spawn_local_scoped_with_cancellation(..)`
//!   f<b>      `Executor::spawn_local(ScopedFuture::new(..))`
//!             (a task is entered in the effect table: R<e>/S<e>=sum per segment, e<k>=l until its future
//!             is dropped; ignored inside a memo run and inside a `new_scoped` effect)
//!
//! Op lines:
//!   case <name>
//!   body <tok,tok,..|->           define the next body (e<b>/m<b> inside must name an earlier body)
//!   [in <o>]* x <tok>             run one token under `owners[o].with(..)` (nested for several `in`)
//!   [in <o>]* cleanup <o>         `owners[o].cleanup()`
//!   [in <o>]* wc <o> <b>          `owners[o].with_cleanup(|| body b)`
//!   child <o>                     `owners[o].child()`
//!   drop <o>                      drop the harness's handle (last strong reference for plain owners)
//!   unset <o>                     `owners[o].set(); owners[o].unset()` with the harness's handle: the way a server
//!                                 response ends its root (F-C08-4: the owner used to be dropped, and its cleanups run,
//!                                 while the thread-local current owner was mutably borrowed)
//!   dispose <i|s|m|e> <k>         `.dispose()` on that handle
//!   set <s> <v>                   `sigs[s].try_set(v)`
//!   pause <o> | resume <o>
//!   poll <i>                      poll the (i mod len)-th ready task     idle   FIFO until idle
//!   end                           drop every owner handle (index order), then run until idle
//! A reference to a missing / dropped handle makes the whole line a `noop`.
//!
//! Output line:  `<events> | <status changes> | live=<n> ## <verdict>`
//!   events   : what ran during the op, in order: C<tag> cleanup, R<e> effect run, S<e>=<sum> end of
//!              effect run, M<m> memo run, G/U/T reads (see above); `-` if none
//!   changes  : handles whose status differs from the previous line (new handles included):
//!              i<k>=<v|x>  s<k>=<v|x>  m<k>=<l|x>  e<k>=<l|x>  o<k>=<h|p|d> (held / held+paused / dropped)
//!   live     : number of retained arena handles that are not disposed
//! Verdict = the property's clauses evaluated by an independent bookkeeping of the op history
//! (`Shadow`: which scope created what), never consulting `Owner` internals:
//!   twice, not-run, order, stray-cleanup (cleanups exactly once, descendants first, nothing else),
//!   not-disposed, frame, stale-resolves (handles), zombie-effect, ctx-survives-cleanup / ctx-wrong
//!   (nearest *current* provider), leak (at `end`), arena-len (only with `--cfg leptos_verif`),
//!   watch-handler-unowned / owner-lost (something is created for a scope while no owner is current),
//!   zombie-task (a task spawned with cancellation runs a segment after the generation of the scope that
//!   spawned it was released), imm-reruns-after-dispose (F-C08-3: an immediate effect disposed while it was
//!   running is run again; any other effect that runs after its disposal is a zombie-effect).
//! An `Owner` captured by a scoped task's future stays alive until that future is dropped (`pins`): the
//! release of such a scope is booked when its last holder goes.
use hx_common::*;
use reactive_graph::owner::{expect_context, update_context, with_context};
use reactive_graph::{
    computed::{ArcMemo, AsyncDerived, Memo, ScopedFuture},
    effect::{Effect, ImmediateEffect, RenderEffect},
    graph::ToAnySubscriber,
    owner::{
        on_cleanup, provide_context, take_context, use_context, LocalStorage,
        Owner, StoredValue, SyncStorage,
    },
    signal::RwSignal,
    traits::*,
};
use std::cell::RefCell;
use std::collections::{BTreeMap, BTreeSet};
use std::panic::{catch_unwind, AssertUnwindSafe};

#[derive(Clone)]
struct Ctx0(i64);
#[derive(Clone)]
struct Ctx1(i64);
#[derive(Clone)]
struct Ctx2(i64);

#[derive(Clone, Copy, Debug, PartialEq)]
enum BOp {
    Read(usize),
    Get(usize),
    Cleanup(u64),
    Nested(u64),
    Item(i64),
    Sig(i64),
    Provide(usize, i64),
    Use(usize),
    Take(usize),
    WithCtx(usize),
    Expect(usize),
    Update(usize, i64),
    Effect(usize),
    Memo(usize),
    NewOwner,
    EffectSync(usize),
    EffectIso(usize),
    Watch(usize, usize, bool),
    WatchSync(usize, usize, bool),
    Render(usize),
    Async(usize),
    RenderIso(usize),
    /// 0 `new`, 1 `new_scoped`, 2 `new_mut`, 3 `new_isomorphic`
    Imm(usize, u8),
    Write(usize, i64),
    /// 0 `spawn_local_scoped`, 1 `.._with_cancellation`, 2 `ScopedFuture::new` + `Executor::spawn_local`
    Spawn(usize, u8),
}

fn parse_tok(t: &str, max_body: usize) -> Option<BOp> {
    let (k, rest) = t.split_at(t.chars().next()?.len_utf8());
    let num = |s: &str| -> Option<u64> {
        if s.is_empty() || !s.bytes().all(|b| b.is_ascii_digit()) || s.len() > 9 {
            None
        } else {
            s.parse().ok()
        }
    };
    let ty = |s: &str| num(s).filter(|n| *n < 3).map(|n| n as usize);
    Some(match k {
        "r" => BOp::Read(num(rest)? as usize),
        "g" => BOp::Get(num(rest)? as usize),
        "c" => BOp::Cleanup(num(rest)?),
        "n" => BOp::Nested(num(rest)?),
        "i" => BOp::Item(num(rest)? as i64),
        "s" => BOp::Sig(num(rest)? as i64),
        "p" => {
            let (a, b) = rest.split_once('.')?;
            BOp::Provide(ty(a)?, num(b)? as i64)
        }
        "u" => BOp::Use(ty(rest)?),
        "t" => BOp::Take(ty(rest)?),
        "l" => BOp::WithCtx(ty(rest)?),
        "b" => BOp::Expect(ty(rest)?),
        "d" => {
            let (a, b) = rest.split_once('.')?;
            BOp::Update(ty(a)?, num(b).filter(|v| *v < 10)? as i64)
        }
        "e" => BOp::Effect(num(rest).filter(|b| (*b as usize) < max_body)? as usize),
        "m" => BOp::Memo(num(rest).filter(|b| (*b as usize) < max_body)? as usize),
        "E" => BOp::EffectSync(num(rest).filter(|b| (*b as usize) < max_body)? as usize),
        "I" => BOp::EffectIso(num(rest).filter(|b| (*b as usize) < max_body)? as usize),
        "v" => BOp::Render(num(rest).filter(|b| (*b as usize) < max_body)? as usize),
        "a" => BOp::Async(num(rest).filter(|b| (*b as usize) < max_body)? as usize),
        "V" => BOp::RenderIso(num(rest).filter(|b| (*b as usize) < max_body)? as usize),
        "j" | "J" | "q" | "Q" => BOp::Imm(
            num(rest).filter(|b| (*b as usize) < max_body)? as usize,
            match k {
                "j" => 0,
                "J" => 1,
                "q" => 2,
                _ => 3,
            },
        ),
        "k" | "K" | "f" => BOp::Spawn(
            num(rest).filter(|b| (*b as usize) < max_body)? as usize,
            match k {
                "k" => 0,
                "K" => 1,
                _ => 2,
            },
        ),
        "z" => {
            let (a, b) = rest.split_once('.')?;
            BOp::Write(num(a)? as usize, num(b).filter(|v| *v < 10)? as i64)
        }
        "w" | "W" | "y" | "Y" => {
            let (a, b) = rest.split_once('.')?;
            let (a, b) = (
                num(a).filter(|b| (*b as usize) < max_body)? as usize,
                num(b).filter(|b| (*b as usize) < max_body)? as usize,
            );
            match k {
                "w" | "W" => BOp::Watch(a, b, k == "W"),
                _ => BOp::WatchSync(a, b, k == "Y"),
            }
        }
        "o" if rest.is_empty() => BOp::NewOwner,
        _ => return None,
    })
}

#[derive(Clone, Copy, Debug, PartialEq, Eq, PartialOrd, Ord)]
enum H {
    I(usize),
    S(usize),
    M(usize),
    E(usize),
}

#[derive(Clone, Debug)]
enum Ev {
    C { cid: usize, tag: u64 },
    R(usize),
    S(usize, i64),
    M(usize),
    G(usize, Option<i64>),
    U(usize, Option<i64>),
    T(usize, Option<i64>),
    H(usize),
}

fn opt(v: &Option<i64>) -> String {
    v.map(|v| v.to_string()).unwrap_or_else(|| "-".into())
}

impl Ev {
    fn show(&self) -> String {
        match self {
            Ev::C { tag, .. } => format!("C{tag}"),
            Ev::R(e) => format!("R{e}"),
            Ev::S(e, s) => format!("S{e}={s}"),
            Ev::M(m) => format!("M{m}"),
            Ev::G(m, v) => format!("G{m}={}", opt(v)),
            Ev::U(t, v) => format!("U{t}={}", opt(v)),
            Ev::T(t, v) => format!("T{t}={}", opt(v)),
            Ev::H(e) => format!("H{e}"),
        }
    }
}

// ---------------------------------------------------------------- shadow (oracle bookkeeping)

#[derive(Default, Clone)]
struct ShOwner {
    parent: Option<usize>,
    children: Vec<usize>,
    cleanups: Vec<usize>,
    handles: Vec<H>,
    /// (value, stale) — stale = provided before the scope's last release
    ctx: [Option<(i64, bool)>; 3],
    /// when each context entry was provided (`Shadow::seq`)
    ctx_seq: [u64; 3],
    alive: bool,
    /// the effect task owning this scope has ended (its release is booked at the end of the op)
    gone: bool,
    /// how often the scope has been released (a cancellable task belongs to one generation)
    gen: u64,
    /// live scoped-task futures that captured this scope's `Owner` (a strong reference)
    pins: usize,
    /// every other holder of the `Owner` is gone: the scope dies with its last pin
    pending_drop: bool,
    /// `ImmediateEffect::new_scoped` effects that die with this generation
    imms: Vec<usize>,
}

#[derive(Default)]
struct Shadow {
    owners: Vec<ShOwner>,
    cur: Vec<Option<usize>>,
    cid_runs: Vec<u32>,
    cid_owner: Vec<Option<usize>>,
    exp_live: BTreeMap<H, bool>,
    unowned: BTreeSet<H>,
    doomed: Vec<bool>,
    o_map: Vec<usize>,
    /// logical clock of the bookkeeping (provides, task ends)
    seq: u64,
    e_owner: Vec<usize>,
    m_owner: Vec<usize>,
    // marks taken at the start of the current op
    op_cid0: usize,
    op_handles0: [usize; 4],
    /// C events of the current op: (cid, claimed by a release)
    op_c: Vec<(usize, bool)>,
}

impl Shadow {
    fn ambient(&self) -> Option<usize> {
        self.cur.last().copied().flatten()
    }
    fn new_owner(&mut self, parent: Option<usize>) -> usize {
        let id = self.owners.len();
        self.owners.push(ShOwner { parent, alive: true, ..Default::default() });
        if let Some(p) = parent {
            self.owners[p].children.push(id);
        }
        id
    }
    fn subtree_postorder(&self, root: usize, out: &mut Vec<usize>) {
        for &c in &self.owners[root].children {
            if self.owners[c].alive {
                self.subtree_postorder(c, out);
            }
        }
        out.push(root);
    }
    fn is_strict_desc(&self, d: usize, a: usize) -> bool {
        let mut p = self.owners[d].parent;
        while let Some(x) = p {
            if x == a {
                return true;
            }
            p = self.owners[x].parent;
        }
        false
    }
    fn born_in_op(&self, h: H) -> bool {
        match h {
            H::I(k) => k >= self.op_handles0[0],
            H::S(k) => k >= self.op_handles0[1],
            H::M(k) => k >= self.op_handles0[2],
            H::E(k) => k >= self.op_handles0[3],
        }
    }
    /// code-like lookup (walks alive parents, stale entries included)
    fn lookup(&self, from: Option<usize>, ty: usize, skip_stale: bool) -> Option<(usize, i64, bool)> {
        let mut p = from;
        while let Some(x) = p {
            if !self.owners[x].alive || self.owners[x].gone {
                return None;
            }
            if let Some((v, stale)) = self.owners[x].ctx[ty] {
                if !(skip_stale && stale) {
                    return Some((x, v, stale));
                }
            }
            p = self.owners[x].parent;
        }
        None
    }
}

// ---------------------------------------------------------------- world

#[derive(Default)]
struct World {
    owners: Vec<Option<Owner>>,
    items: Vec<StoredValue<i64>>,
    sigs: Vec<RwSignal<i64>>,
    memos: Vec<Memo<i64>>,
    effs: Vec<AnyEff>,
    bodies: Vec<Vec<BOp>>,
    /// Some(e) while the handler of watch effect `e` runs
    in_handler: Option<usize>,
    events: Vec<Ev>,
    status: BTreeMap<String, String>,
    memo_depth: usize,
    sh: Shadow,
    /// owners that lost a holder during the current op: (the effect whose task / closure ended — None for
    /// a scoped task's future, the scope, its subtree at that moment, time, the scope was dropped with it)
    ended: Vec<(Option<usize>, usize, Vec<usize>, u64, bool)>,
    fails: Vec<String>,
    tags: BTreeSet<&'static str>,
    baseline: usize,
    active: bool,
    eff_runs: Vec<u32>,
    memo_runs: Vec<u32>,
    ekind: Vec<EKind>,
    /// the effect's closure / the task's future has not been dropped
    fn_alive: Vec<bool>,
    task_info: Vec<Option<TaskInfo>>,
    /// the observer of the body being run (None: untracked)
    obs: Vec<Option<Obs>>,
    /// `new_mut` functions on the call stack
    mut_depth: usize,
    /// runs of each effect on the call stack
    imm_running: Vec<u32>,
}

#[derive(Clone, Copy, PartialEq, Debug)]
enum EKind {
    Other,
    Async,
    Imm,
    ScopedImm,
    MutImm,
    Task,
}

#[derive(Clone, Copy, PartialEq, Debug)]
enum Obs {
    Eff(usize),
    Memo,
}

#[derive(Clone, Copy, Debug)]
struct TaskInfo {
    scope: usize,
    gen: u64,
    /// spawned with cancellation while an owner was current
    hooked: bool,
    obs: Option<Obs>,
}

/// every constructor that re-runs a body under an owner of its own
enum AnyEff {
    /// being constructed (the first run of a render effect / async derived happens inside `new`)
    Pending,
    Local(Effect<LocalStorage>),
    Sync(Effect<SyncStorage>),
    Render(Option<RenderEffect<()>>),
    Async(AsyncDerived<i64>),
    /// None: `new_scoped`, or the handle has been dropped
    Imm(Option<ImmediateEffect>),
    Task,
}

thread_local! {
    static W: RefCell<World> = RefCell::new(World::default());
}

fn w<R>(f: impl FnOnce(&mut World) -> R) -> R {
    W.with(|c| f(&mut c.borrow_mut()))
}

#[cfg(leptos_verif)]
fn arena_len() -> Option<usize> {
    Some(reactive_graph::owner::verif_len())
}
#[cfg(not(leptos_verif))]
fn arena_len() -> Option<usize> {
    None
}

struct Sentinel(usize);
impl Drop for Sentinel {
    fn drop(&mut self) {
        let e = self.0;
        let _ = W.try_with(|c| {
            if let Ok(mut w) = c.try_borrow_mut() {
                if w.active {
                    w.fn_alive[e] = false;
                    let o = w.sh.e_owner[e];
                    let is_task = w.ekind[e] == EKind::Task;
                    if is_task {
                        w.sh.owners[o].pins -= 1;
                        // a task ends when its future completes
                        w.sh.exp_live.insert(H::E(e), false);
                    }
                    // the `Owner` is dropped when its last holder goes
                    let dropped = w.sh.owners[o].pins == 0 && (!is_task || w.sh.owners[o].pending_drop);
                    // the scope as it is now: what is created under it later in the same op is not
                    // part of what the task's end releases
                    let mut post = vec![];
                    if dropped && w.sh.owners[o].alive {
                        w.sh.subtree_postorder(o, &mut post);
                    }
                    w.sh.seq += 1;
                    let t = w.sh.seq;
                    // later lookups in the same op already see the old generation's contexts as stale
                    for &x in &post {
                        for ty in 0..3 {
                            if let Some((_, stale)) = &mut w.sh.owners[x].ctx[ty] {
                                *stale = true;
                            }
                        }
                    }
                    w.ended.push((if is_task { None } else { Some(e) }, o, post, t, dropped));
                    if dropped {
                        w.sh.owners[o].gone = true;
                    } else if !is_task {
                        w.sh.owners[o].pending_drop = true;
                    }
                }
            }
        });
    }
}

impl World {
    fn fail(&mut self, class: &str, detail: String) {
        self.fails.push(format!("{class} {detail}"));
    }

    fn live(&self, h: H) -> bool {
        match h {
            H::I(k) => !self.items[k].is_disposed(),
            H::S(k) => !self.sigs[k].is_disposed(),
            H::M(k) => {
                let m = self.memos[k];
                catch_unwind(AssertUnwindSafe(|| {
                    let _a: ArcMemo<i64> = m.into();
                }))
                .is_ok()
            }
            H::E(k) => match &self.effs[k] {
                AnyEff::Pending => true,
                AnyEff::Local(e) => {
                    let e = *e;
                    catch_unwind(AssertUnwindSafe(|| {
                        let _s = e.to_any_subscriber();
                    }))
                    .is_ok()
                }
                AnyEff::Sync(e) => {
                    let e = *e;
                    catch_unwind(AssertUnwindSafe(|| {
                        let _s = e.to_any_subscriber();
                    }))
                    .is_ok()
                }
                AnyEff::Render(r) => r.is_some(),
                AnyEff::Async(a) => !a.is_disposed(),
                AnyEff::Imm(_) | AnyEff::Task => self.fn_alive[k],
            },
        }
    }

    fn all_handles(&self) -> Vec<H> {
        let mut v = vec![];
        v.extend((0..self.items.len()).map(H::I));
        v.extend((0..self.sigs.len()).map(H::S));
        v.extend((0..self.memos.len()).map(H::M));
        v.extend((0..self.effs.len()).map(H::E));
        v
    }

    fn status_of(&self, h: H) -> (String, String) {
        match h {
            H::I(k) => (
                format!("i{k}"),
                self.items[k].try_get_value().map(|v| v.to_string()).unwrap_or_else(|| "x".into()),
            ),
            H::S(k) => (
                format!("s{k}"),
                self.sigs[k].try_get_untracked().map(|v| v.to_string()).unwrap_or_else(|| "x".into()),
            ),
            H::M(k) => (format!("m{k}"), if self.live(h) { "l".into() } else { "x".into() }),
            H::E(k) => (format!("e{k}"), if self.live(h) { "l".into() } else { "x".into() }),
        }
    }

    // ---- shadow operations (no callbacks into user closures can happen inside these)

    /// the program structure attributes what is being created to a scope, but no owner is current
    fn owner_missing(&mut self, what: &str) -> bool {
        if self.sh.ambient().is_some() && Owner::current().is_none() {
            match self.in_handler {
                Some(e) => {
                    self.tags.insert("watch-handler");
                    self.fail(
                        "watch-handler-unowned",
                        format!("the handler of watch effect {e} runs with no current owner: {what} is not released with the effect's scope"),
                    )
                }
                None => self.fail("owner-lost", format!("{what} created for a scope while no owner is current")),
            }
            true
        } else {
            false
        }
    }

    fn sh_register_cleanup(&mut self) -> usize {
        let cid = self.sh.cid_runs.len();
        self.sh.cid_runs.push(0);
        let lost = self.owner_missing("a cleanup");
        let a = if lost { None } else { self.sh.ambient() };
        self.sh.cid_owner.push(a);
        if let Some(a) = a {
            self.sh.owners[a].cleanups.push(cid);
        }
        cid
    }

    fn sh_new_handle(&mut self, h: H) {
        self.sh.exp_live.insert(h, true);
        let lost = self.owner_missing("an arena value");
        match if lost { None } else { self.sh.ambient() } {
            Some(a) => self.sh.owners[a].handles.push(h),
            None => {
                self.sh.unowned.insert(h);
            }
        }
    }

    /// the scope rooted at `root` has just been released by the implementation
    /// (cleanup / re-run / drop); `dead` = the root itself is gone afterwards
    fn sh_release(&mut self, root: usize, dead: bool) {
        self.sh_release_at(root, dead, None)
    }

    /// `at` = the subtree and the time recorded when the release actually happened (task end)
    fn sh_release_at(&mut self, root: usize, dead: bool, at: Option<(Vec<usize>, u64)>) {
        let (post, t) = match at {
            Some((post, t)) => (post, t),
            None => {
                let mut post = vec![];
                if self.sh.owners[root].alive {
                    self.sh.subtree_postorder(root, &mut post);
                }
                self.sh.seq += 1;
                (post, self.sh.seq)
            }
        };
        // --- cleanups: exactly once, descendants first
        let pos_of = |op_c: &Vec<(usize, bool)>, cid: usize| op_c.iter().position(|(c, _)| *c == cid);
        let mut must: Vec<(usize, usize, usize)> = vec![]; // (owner, cid, position)
        for &a in &post {
            let cl = self.sh.owners[a].cleanups.clone();
            let mut keep = vec![];
            for cid in cl {
                let born_in_op = cid >= self.sh.op_cid0;
                match pos_of(&self.sh.op_c, cid) {
                    Some(p) => {
                        self.sh.op_c[p].1 = true;
                        if !born_in_op {
                            must.push((a, cid, p));
                        }
                    }
                    None => {
                        if born_in_op {
                            keep.push(cid)
                        } else if self.sh.cid_runs[cid] == 0 {
                            self.fail("not-run", format!("cleanup#{cid} of a released scope did not run"));
                        }
                    }
                }
            }
            self.sh.owners[a].cleanups = keep;
        }
        for &(a, _, pa) in &must {
            for &(d, _, pd) in &must {
                if pd > pa && self.sh.is_strict_desc(d, a) {
                    self.fail("order", format!("cleanup of scope {a} ran before its descendant {d}'s"));
                }
            }
        }
        // --- handles: everything the scope created is disposed
        for &a in &post {
            let hs = self.sh.owners[a].handles.clone();
            let mut keep = vec![];
            for h in hs {
                let live = self.live(h);
                if live && self.sh.born_in_op(h) {
                    keep.push(h);
                    continue;
                }
                if live {
                    self.fail("not-disposed", format!("{h:?} created under a released scope is still live"));
                }
                self.sh.exp_live.insert(h, false);
                match h {
                    H::E(e) => self.sh.doomed[e] = true,
                    H::M(m) => {
                        let mo = self.sh.m_owner[m];
                        self.sh.owners[mo].alive = false;
                    }
                    _ => {}
                }
            }
            self.sh.owners[a].handles = keep;
        }
        // --- `new_scoped` effects die with the generation that created them
        for &a in &post {
            let imms = std::mem::take(&mut self.sh.owners[a].imms);
            let mut keep = vec![];
            for e in imms {
                if self.fn_alive[e] && e >= self.sh.op_handles0[3] {
                    keep.push(e);
                    continue;
                }
                // (one that is running is dropped when its run returns: checked at the end of the op)
                if self.fn_alive[e] && self.imm_running[e] == 0 {
                    self.fail("not-disposed", format!("scoped immediate effect {e} outlives the scope it was created in"));
                }
                self.sh.exp_live.insert(H::E(e), false);
                self.sh.doomed[e] = true;
            }
            self.sh.owners[a].imms = keep;
        }
        // --- the generation ends: children detached, contexts of the old generation are stale
        for &a in &post {
            self.sh.owners[a].gen += 1;
            self.sh.owners[a].children.retain(|c| !post.contains(c));
            for ty in 0..3 {
                if self.sh.owners[a].ctx_seq[ty] < t {
                    if let Some((_, stale)) = &mut self.sh.owners[a].ctx[ty] {
                        *stale = true;
                    }
                }
            }
        }
        if dead {
            self.sh.owners[root].alive = false;
        }
    }

    /// the harness's handle to the scope's `Owner` is gone: the owner dies unless a scoped task pins it
    fn sh_drop_holder(&mut self, so: usize) {
        if self.sh.owners[so].pins > 0 {
            self.tags.insert("pinned");
            self.sh.owners[so].pending_drop = true;
        } else {
            self.sh_release(so, true);
        }
    }

    fn sh_dispose_handle(&mut self, h: H) {
        self.sh.exp_live.insert(h, false);
        match h {
            H::E(e) => self.sh.doomed[e] = true,
            H::M(m) => {
                let mo = self.sh.m_owner[m];
                self.sh_release(mo, true);
            }
            _ => {}
        }
    }
}

fn ev(e: Ev) {
    w(|w| {
        if !w.active {
            return;
        }
        if let Ev::C { cid, .. } = e {
            w.sh.cid_runs[cid] += 1;
            if w.sh.cid_runs[cid] > 1 {
                w.fail("twice", format!("cleanup#{cid} ran {} times", w.sh.cid_runs[cid]));
            }
            w.sh.op_c.push((cid, false));
        }
        w.events.push(e)
    })
}

fn run_body(b: usize) -> i64 {
    let body = w(|w| w.bodies[b].clone());
    let mut sum = 0;
    for op in &body {
        exec_bop(op, &mut sum);
    }
    sum
}

fn run_effect_body(eid: usize, b: usize) -> i64 {
    // closure entry: `with_cleanup`'s cleanup phase has just finished
    w(|w| {
        if w.sh.doomed[eid] {
            if w.imm_running[eid] > 0 {
                // F-C08-3
                w.tags.insert("imm-midrun-dispose");
                w.fail(
                    "imm-reruns-after-dispose",
                    format!("immediate effect {eid} was disposed while it was running and has been run again"),
                );
            } else {
                w.fail("zombie-effect", format!("effect {eid} ran after it was disposed"));
            }
        }
        w.imm_running[eid] += 1;
    });
    ev(Ev::R(eid));
    w(|w| {
        w.eff_runs[eid] += 1;
        if w.eff_runs[eid] > 1 {
            w.tags.insert("rerun");
        }
        let o = w.sh.e_owner[eid];
        w.sh_release(o, false);
        w.sh.cur.push(Some(o));
        w.obs.push(Some(Obs::Eff(eid)));
        if w.ekind[eid] == EKind::MutImm {
            w.mut_depth += 1;
        }
    });
    let sum = run_body(b);
    w(|w| {
        w.sh.cur.pop();
        w.obs.pop();
        if w.ekind[eid] == EKind::MutImm {
            w.mut_depth -= 1;
        }
        w.imm_running[eid] -= 1;
    });
    ev(Ev::S(eid, sum));
    sum
}

/// one segment of a scoped task's future (polled under the captured owner and observer)
fn run_task_seg(eid: usize, b: usize) {
    w(|w| {
        let info = w.task_info[eid].expect("task info");
        let sc = &w.sh.owners[info.scope];
        if info.hooked && (!sc.alive || sc.gone || sc.gen != info.gen) {
            w.fail(
                "zombie-task",
                format!("task {eid}, spawned with cancellation, runs after the scope that spawned it was cleaned up"),
            );
        }
        w.sh.cur.push(Some(info.scope));
        w.obs.push(info.obs);
    });
    ev(Ev::R(eid));
    let sum = run_body(b);
    w(|w| {
        w.sh.cur.pop();
        w.obs.pop();
    });
    ev(Ev::S(eid, sum));
}

struct YieldOnce(bool);
impl std::future::Future for YieldOnce {
    type Output = ();
    fn poll(mut self: std::pin::Pin<&mut Self>, cx: &mut std::task::Context<'_>) -> std::task::Poll<()> {
        if self.0 {
            std::task::Poll::Ready(())
        } else {
            self.0 = true;
            cx.waker().wake_by_ref();
            std::task::Poll::Pending
        }
    }
}

fn in_scoped_imm(w: &World) -> bool {
    matches!(w.obs.last(), Some(Some(Obs::Eff(e))) if w.ekind[*e] == EKind::ScopedImm)
}

/// the handler of `Effect::watch`: ideally part of the effect's scope
fn run_handler(eid: usize, hb: usize) {
    ev(Ev::H(eid));
    w(|w| {
        let o = w.sh.e_owner[eid];
        w.sh.cur.push(Some(o));
        w.obs.push(None);
        w.in_handler = Some(eid);
    });
    let body = w(|w| w.bodies[hb].clone());
    let mut sum = 0;
    for op in &body {
        if matches!(
            op,
            BOp::Read(_) | BOp::Cleanup(_) | BOp::Item(_) | BOp::Sig(_) | BOp::Use(_) | BOp::WithCtx(_) | BOp::Expect(_)
        ) {
            exec_bop(op, &mut sum);
        }
    }
    w(|w| {
        w.sh.cur.pop();
        w.obs.pop();
        w.in_handler = None;
    });
}

fn run_memo_body(mid: usize, b: usize) -> i64 {
    ev(Ev::M(mid));
    w(|w| {
        if w.memo_runs.len() <= mid {
            w.memo_runs.resize(mid + 1, 0);
        }
        w.memo_runs[mid] += 1;
        if w.memo_runs[mid] > 1 {
            w.tags.insert("memo-rerun");
        }
        let o = w.sh.m_owner[mid];
        w.sh_release(o, false);
        w.sh.cur.push(Some(o));
        w.obs.push(Some(Obs::Memo));
        w.memo_depth += 1;
    });
    let sum = run_body(b);
    w(|w| {
        w.sh.cur.pop();
        w.obs.pop();
        w.memo_depth -= 1;
    });
    sum
}

fn ctx_provide(ty: usize, v: i64) {
    match ty {
        0 => provide_context(Ctx0(v)),
        1 => provide_context(Ctx1(v)),
        _ => provide_context(Ctx2(v)),
    }
}
fn ctx_use(ty: usize) -> Option<i64> {
    match ty {
        0 => use_context::<Ctx0>().map(|c| c.0),
        1 => use_context::<Ctx1>().map(|c| c.0),
        _ => use_context::<Ctx2>().map(|c| c.0),
    }
}
fn ctx_take(ty: usize) -> Option<i64> {
    match ty {
        0 => take_context::<Ctx0>().map(|c| c.0),
        1 => take_context::<Ctx1>().map(|c| c.0),
        _ => take_context::<Ctx2>().map(|c| c.0),
    }
}

fn ctx_with(ty: usize) -> Option<i64> {
    match ty {
        0 => with_context::<Ctx0, _>(|c| c.0),
        1 => with_context::<Ctx1, _>(|c| c.0),
        _ => with_context::<Ctx2, _>(|c| c.0),
    }
}
fn ctx_expect(ty: usize) -> Option<i64> {
    catch_unwind(AssertUnwindSafe(|| match ty {
        0 => expect_context::<Ctx0>().0,
        1 => expect_context::<Ctx1>().0,
        _ => expect_context::<Ctx2>().0,
    }))
    .ok()
}
fn ctx_update(ty: usize, k: i64) -> Option<i64> {
    match ty {
        0 => update_context::<Ctx0, _>(|c| {
            c.0 += k;
            c.0
        }),
        1 => update_context::<Ctx1, _>(|c| {
            c.0 += k;
            c.0
        }),
        _ => update_context::<Ctx2, _>(|c| {
            c.0 += k;
            c.0
        }),
    }
}

fn judge_ctx(w: &mut World, what: &str, ty: usize, actual: Option<i64>) -> Option<usize> {
    let a = w.sh.ambient();
    let ideal = w.sh.lookup(a, ty, true);
    let code = w.sh.lookup(a, ty, false);
    if actual == ideal.map(|x| x.1) && ideal.map(|x| x.0) == code.map(|x| x.0) {
        // fine
    } else if actual == code.map(|x| x.1) && code.map(|x| x.2) == Some(true) {
        w.tags.insert("stale-ctx");
        w.fail(
            "ctx-survives-cleanup",
            format!("{what} Ctx{ty} resolved to {actual:?}, provided before the scope's last cleanup; current providers give {:?}", ideal.map(|x| x.1)),
        );
    } else {
        w.fail("ctx-wrong", format!("{what} Ctx{ty} = {actual:?}, nearest provider has {:?}", ideal.map(|x| x.1)));
    }
    code.map(|x| x.0)
}

fn exec_bop(op: &BOp, sum: &mut i64) {
    if !w(|w| w.active) {
        return;
    }
    match *op {
        BOp::Read(s) => {
            if let Some(sig) = w(|w| w.sigs.get(s).copied()) {
                if let Some(v) = sig.try_get() {
                    *sum += v;
                }
            }
        }
        BOp::Get(j) => {
            if w(|w| w.memo_depth) > 0 {
                return;
            }
            let r = w(|w| w.memos.get(j).copied()).and_then(|m| m.try_get_untracked());
            if let Some(v) = r {
                *sum += v;
            }
            ev(Ev::G(j, r));
        }
        BOp::Cleanup(tag) => {
            let cid = w(|w| w.sh_register_cleanup());
            on_cleanup(move || ev(Ev::C { cid, tag }));
        }
        BOp::Nested(tag) => {
            let cid = w(|w| {
                w.tags.insert("ncleanup");
                w.sh_register_cleanup()
            });
            on_cleanup(move || {
                ev(Ev::C { cid, tag });
                let mut s = 0;
                exec_bop(&BOp::Cleanup(tag + 100), &mut s);
                exec_bop(&BOp::Item(tag as i64), &mut s);
            });
        }
        BOp::Item(v) => {
            let h = StoredValue::new(v);
            w(|w| {
                let k = w.items.len();
                w.items.push(h);
                w.sh_new_handle(H::I(k));
            });
        }
        BOp::Sig(v) => {
            let h = RwSignal::new(v);
            w(|w| {
                let k = w.sigs.len();
                w.sigs.push(h);
                w.sh_new_handle(H::S(k));
            });
        }
        BOp::Provide(ty, v) => {
            ctx_provide(ty, v);
            w(|w| {
                w.tags.insert("ctx");
                if let Some(a) = w.sh.ambient() {
                    w.sh.seq += 1;
                    w.sh.owners[a].ctx[ty] = Some((v, false));
                    w.sh.owners[a].ctx_seq[ty] = w.sh.seq;
                }
            });
        }
        BOp::Use(ty) => {
            let actual = ctx_use(ty);
            w(|w| {
                if !(w.in_handler.is_some() && w.owner_missing("a context lookup")) {
                    judge_ctx(w, "use_context", ty, actual);
                }
            });
            ev(Ev::U(ty, actual));
        }
        BOp::WithCtx(ty) | BOp::Expect(ty) => {
            let with = matches!(op, BOp::WithCtx(_));
            let actual = if with { ctx_with(ty) } else { ctx_expect(ty) };
            w(|w| {
                w.tags.insert("ctx");
                if !(w.in_handler.is_some() && w.owner_missing("a context lookup")) {
                    judge_ctx(w, if with { "with_context" } else { "expect_context" }, ty, actual);
                }
            });
            ev(Ev::U(ty, actual));
        }
        BOp::Update(ty, k) => {
            let actual = ctx_update(ty, k);
            w(|w| {
                w.tags.insert("ctx");
                // the closure sees the nearest provider's value and changes it in place
                if let Some(o) = judge_ctx(w, "update_context", ty, actual.map(|v| v - k)) {
                    if let (Some(v), Some((sv, _))) = (actual, w.sh.owners[o].ctx[ty].as_mut()) {
                        *sv = v;
                    }
                }
            });
            ev(Ev::U(ty, actual));
        }
        BOp::Take(ty) => {
            let actual = ctx_take(ty);
            w(|w| {
                if let Some(o) = judge_ctx(w, "take_context", ty, actual) {
                    w.sh.owners[o].ctx[ty] = None;
                }
            });
            ev(Ev::T(ty, actual));
        }
        BOp::Effect(b) => {
            let eid = w(|w| {
                if w.sh.ambient().is_some() {
                    w.tags.insert("nested");
                }
                new_eff_slot(w)
            });
            let sentinel = Sentinel(eid);
            let e = Effect::new(move |_: Option<()>| {
                let _keep = &sentinel;
                run_effect_body(eid, b);
            });
            w(|w| {
                w.effs[eid] = AnyEff::Local(e);
                w.sh_new_handle(H::E(eid));
            });
        }
        BOp::EffectSync(b) | BOp::EffectIso(b) => {
            let eid = w(|w| {
                w.tags.insert("sync-effect");
                new_eff_slot(w)
            });
            let sentinel = Sentinel(eid);
            let f = move |_: Option<()>| {
                let _keep = &sentinel;
                run_effect_body(eid, b);
            };
            let e = if matches!(op, BOp::EffectSync(_)) { Effect::new_sync(f) } else { Effect::new_isomorphic(f) };
            w(|w| {
                w.effs[eid] = AnyEff::Sync(e);
                w.sh_new_handle(H::E(eid));
            });
        }
        BOp::Watch(b, hb, imm) => {
            let eid = w(|w| {
                w.tags.insert("watch");
                new_eff_slot(w)
            });
            let sentinel = Sentinel(eid);
            let e = Effect::watch(
                move || {
                    let _keep = &sentinel;
                    run_effect_body(eid, b)
                },
                move |_: &i64, _: Option<&i64>, _: Option<()>| run_handler(eid, hb),
                imm,
            );
            w(|w| {
                w.effs[eid] = AnyEff::Local(e);
                w.sh_new_handle(H::E(eid));
            });
        }
        BOp::WatchSync(b, hb, imm) => {
            let eid = w(|w| {
                w.tags.insert("watch");
                new_eff_slot(w)
            });
            let sentinel = Sentinel(eid);
            let e = Effect::watch_sync(
                move || {
                    let _keep = &sentinel;
                    run_effect_body(eid, b)
                },
                move |_: &i64, _: Option<&i64>, _: Option<()>| run_handler(eid, hb),
                imm,
            );
            w(|w| {
                w.effs[eid] = AnyEff::Sync(e);
                w.sh_new_handle(H::E(eid));
            });
        }
        BOp::Render(b) => {
            let eid = w(|w| {
                w.tags.insert("render");
                new_eff_slot(w)
            });
            let sentinel = Sentinel(eid);
            let e = RenderEffect::new(move |_: Option<()>| {
                let _keep = &sentinel;
                run_effect_body(eid, b);
            });
            w(|w| {
                w.effs[eid] = AnyEff::Render(Some(e));
                // not an arena entry: it lives as long as its handle
                w.sh.exp_live.insert(H::E(eid), true);
            });
        }
        BOp::Async(b) => {
            let eid = w(|w| {
                w.tags.insert("async");
                let eid = new_eff_slot(w);
                w.ekind[eid] = EKind::Async;
                eid
            });
            let sentinel = Sentinel(eid);
            let a = AsyncDerived::new(move || {
                let _keep = &sentinel;
                let v = run_effect_body(eid, b);
                async move { v }
            });
            w(|w| {
                w.effs[eid] = AnyEff::Async(a);
                w.sh_new_handle(H::E(eid));
            });
        }
        BOp::RenderIso(b) => {
            let eid = w(|w| {
                w.tags.insert("render-iso");
                new_eff_slot(w)
            });
            let sentinel = Sentinel(eid);
            let e = RenderEffect::new_isomorphic(move |_: Option<()>| {
                let _keep = &sentinel;
                run_effect_body(eid, b);
            });
            w(|w| {
                w.effs[eid] = AnyEff::Render(Some(e));
                w.sh.exp_live.insert(H::E(eid), true);
            });
        }
        BOp::Imm(b, kind) => {
            let eid = w(|w| {
                w.tags.insert(match kind {
                    1 => "imm-scoped",
                    2 => "imm-mut",
                    _ => "imm",
                });
                let eid = new_eff_slot(w);
                w.ekind[eid] = match kind {
                    1 => EKind::ScopedImm,
                    2 => EKind::MutImm,
                    _ => EKind::Imm,
                };
                w.effs[eid] = AnyEff::Imm(None);
                // not an arena entry
                w.sh.exp_live.insert(H::E(eid), true);
                eid
            });
            let sentinel = Sentinel(eid);
            let f = move || {
                let _keep = &sentinel;
                run_effect_body(eid, b);
            };
            match kind {
                1 => {
                    ImmediateEffect::new_scoped(f);
                    w(|w| match w.sh.ambient() {
                        Some(a) if Owner::current().is_some() => w.sh.owners[a].imms.push(eid),
                        Some(_) => {
                            w.owner_missing("a scoped immediate effect");
                        }
                        None => {
                            // nothing owns the clean-up closure: the effect is dropped at once
                            w.sh.exp_live.insert(H::E(eid), false);
                            w.sh.doomed[eid] = true;
                        }
                    });
                }
                _ => {
                    let e = match kind {
                        0 => ImmediateEffect::new(f),
                        2 => {
                            let f = std::sync::Mutex::new(f);
                            ImmediateEffect::new_mut(move || (f.lock().unwrap())())
                        }
                        _ => ImmediateEffect::new_isomorphic(f),
                    };
                    w(|w| w.effs[eid] = AnyEff::Imm(Some(e)));
                }
            }
        }
        BOp::Write(s, v) => {
            if w(|w| w.memo_depth > 0 || w.mut_depth > 0) {
                return;
            }
            if let Some(sig) = w(|w| w.sigs.get(s).copied()) {
                if let Some(cur) = sig.try_get_untracked() {
                    if cur < v {
                        w(|w| {
                            w.tags.insert("write");
                        });
                        let _ = sig.try_set(v);
                    }
                }
            }
        }
        BOp::Spawn(b, kind) => {
            if w(|w| w.memo_depth > 0 || in_scoped_imm(w)) {
                return;
            }
            let eid = w(|w| {
                w.tags.insert(if kind == 1 { "task-cancel" } else { "task" });
                let lost = w.owner_missing("a scoped task");
                let a = if lost { None } else { w.sh.ambient() };
                let scope = match a {
                    Some(a) => a,
                    None => {
                        // `Owner::current().unwrap_or_default()`: an owner of the task's own
                        let so = w.sh.new_owner(None);
                        w.sh.owners[so].pending_drop = true;
                        so
                    }
                };
                w.sh.owners[scope].pins += 1;
                w.sh.e_owner.push(scope);
                w.sh.doomed.push(false);
                w.eff_runs.push(0);
                w.effs.push(AnyEff::Task);
                w.ekind.push(EKind::Task);
                w.imm_running.push(0);
                w.fn_alive.push(true);
                w.task_info.push(Some(TaskInfo {
                    scope,
                    gen: w.sh.owners[scope].gen,
                    hooked: kind == 1 && a.is_some(),
                    obs: w.obs.last().copied().flatten(),
                }));
                let eid = w.effs.len() - 1;
                w.sh.exp_live.insert(H::E(eid), true);
                eid
            });
            let sentinel = Sentinel(eid);
            let fut = async move {
                let _keep = sentinel;
                run_task_seg(eid, b);
                YieldOnce(false).await;
                run_task_seg(eid, b);
            };
            match kind {
                0 => reactive_graph::spawn_local_scoped(fut),
                1 => reactive_graph::spawn_local_scoped_with_cancellation(fut),
                _ => any_spawner::Executor::spawn_local(ScopedFuture::new(fut)),
            }
        }
        BOp::Memo(b) => {
            let mid = w(|w| {
                if w.sh.ambient().is_some() {
                    w.tags.insert("nested");
                }
                let a = w.sh.ambient();
                let so = w.sh.new_owner(a);
                w.sh.m_owner.push(so);
                w.memos.len()
            });
            let m = Memo::new(move |_| run_memo_body(mid, b));
            w(|w| {
                w.memos.push(m);
                w.sh_new_handle(H::M(mid));
            });
        }
        BOp::NewOwner => {
            let o = Owner::new();
            w(|w| {
                let a = w.sh.ambient();
                let so = w.sh.new_owner(a);
                w.sh.o_map.push(so);
                w.owners.push(Some(o));
            });
        }
    }
}

/// reserve the effect id and its shadow scope (a child of the ambient scope)
fn new_eff_slot(w: &mut World) -> usize {
    let a = w.sh.ambient();
    let so = w.sh.new_owner(a);
    w.sh.e_owner.push(so);
    w.sh.doomed.push(false);
    w.eff_runs.push(0);
    w.effs.push(AnyEff::Pending);
    w.ekind.push(EKind::Other);
    w.fn_alive.push(true);
    w.task_info.push(None);
    w.imm_running.push(0);
    w.effs.len() - 1
}

// ---------------------------------------------------------------- op lines

fn reset_case() {
    // old world (owners, closures) must be dropped outside the borrow.  The handles go first, the task futures
    // after them: a task holds a clone of its `Owner`, so while the tasks are alive no arena value is the last
    // holder of an owner.  (Dropping the futures first can deadlock the library: `Arena::with_mut` removes nodes
    // under the arena's write lock, and an `ArcAsyncDerived` dropped there drops its `Owner`, whose `Drop` takes
    // the same lock again when the owner still has nodes — see the comment in props/C08.known.)
    w(|w| w.active = false);
    let old = w(|w| std::mem::take(w));
    drop(old);
    sched::reset();
    w(|w| {
        *w = World::default();
        w.active = true;
        w.baseline = arena_len().unwrap_or(0);
    });
}

enum Act {
    X(BOp),
    Cleanup(usize),
    Wc(usize, usize),
}

fn held(o: usize) -> Option<Owner> {
    w(|w| w.owners.get(o).cloned().flatten())
}

fn run_in(ins: &[usize], act: &Act) -> bool {
    match ins.split_first() {
        Some((&o, rest)) => {
            let Some(owner) = held(o) else { return false };
            let so = w(|w| w.sh.o_map[o]);
            w(|w| w.sh.cur.push(Some(so)));
            let r = owner.with(|| run_in(rest, act));
            w(|w| {
                w.sh.cur.pop();
            });
            r
        }
        None => match act {
            Act::X(b) => {
                let mut s = 0;
                exec_bop(b, &mut s);
                true
            }
            Act::Cleanup(o) => {
                let Some(owner) = held(*o) else { return false };
                owner.cleanup();
                drop(owner);
                w(|w| {
                    w.tags.insert("cleanup");
                    let so = w.sh.o_map[*o];
                    w.sh_release(so, false);
                });
                true
            }
            Act::Wc(o, b) => {
                let Some(owner) = held(*o) else { return false };
                let (o, b) = (*o, *b);
                owner.with_cleanup(|| {
                    // the cleanup phase is over: the scope has been released
                    w(|w| {
                        w.tags.insert("with-cleanup");
                        let so = w.sh.o_map[o];
                        w.sh_release(so, false);
                        w.sh.cur.push(Some(so));
                        w.obs.push(None);
                    });
                    run_body(b);
                    w(|w| {
                        w.sh.cur.pop();
                        w.obs.pop();
                    });
                });
                true
            }
        },
    }
}

/// all handles referenced by an `in`/target exist and are held (checked before any side effect)
fn refs_ok(ins: &[usize], act: &Act) -> bool {
    ins.iter().all(|o| held(*o).is_some())
        && match act {
            Act::Cleanup(o) | Act::Wc(o, _) => held(*o).is_some(),
            _ => true,
        }
}

fn do_poll(i: Option<usize>) {
    match i {
        Some(i) => {
            sched::poll_nth_ready(i);
        }
        None => {
            sched::run_until_idle(10_000);
        }
    }
}

fn op_line(words: &[&str]) -> Option<bool> {
    // Some(true) = done, Some(false) = noop, None = bad-op
    let num = |s: &str| -> Option<usize> {
        if s.is_empty() || s.len() > 9 || !s.bytes().all(|b| b.is_ascii_digit()) {
            None
        } else {
            s.parse().ok()
        }
    };
    let mut ins = vec![];
    let mut rest = words;
    while let ["in", o, tail @ ..] = rest {
        ins.push(num(o)?);
        rest = tail;
    }
    let nb = w(|w| w.bodies.len());
    match rest {
        ["x", tok] => {
            let b = parse_tok(tok, nb)?;
            let act = Act::X(b);
            if !refs_ok(&ins, &act) {
                return Some(false);
            }
            Some(run_in(&ins, &act))
        }
        ["wc", o, b] => {
            let act = Act::Wc(num(o)?, num(b).filter(|b| *b < nb)?);
            if !refs_ok(&ins, &act) {
                return Some(false);
            }
            Some(run_in(&ins, &act))
        }
        ["cleanup", o] => {
            let act = Act::Cleanup(num(o)?);
            if !refs_ok(&ins, &act) {
                return Some(false);
            }
            Some(run_in(&ins, &act))
        }
        _ if !ins.is_empty() => None,
        ["body", toks] => {
            let mut body = vec![];
            if *toks != "-" {
                for t in toks.split(',') {
                    body.push(parse_tok(t, nb)?);
                }
            }
            w(|w| w.bodies.push(body));
            Some(true)
        }
        ["child", o] => {
            let o = num(o)?;
            let Some(owner) = held(o) else { return Some(false) };
            let c = owner.child();
            drop(owner);
            w(|w| {
                let p = w.sh.o_map[o];
                let so = w.sh.new_owner(Some(p));
                w.sh.o_map.push(so);
                w.owners.push(Some(c));
            });
            Some(true)
        }
        ["drop", o] | ["unset", o] => {
            let unset = rest[0] == "unset";
            let o = num(o)?;
            let Some(owner) = w(|w| w.owners.get_mut(o).and_then(|x| x.take())) else {
                return Some(false);
            };
            if unset {
                // the cleanups of the root run inside `unset`, with no owner current
                owner.set();
                owner.unset();
            } else {
                drop(owner);
            }
            w(|w| {
                w.tags.insert(if unset { "unset" } else { "drop" });
                let so = w.sh.o_map[o];
                w.sh_drop_holder(so);
            });
            Some(true)
        }
        ["dispose", k, i] => {
            let i = num(i)?;
            let h = match *k {
                "i" => H::I(i),
                "s" => H::S(i),
                "m" => H::M(i),
                "e" => H::E(i),
                _ => return None,
            };
            let ok = w(|w| match h {
                H::I(i) => i < w.items.len(),
                H::S(i) => i < w.sigs.len(),
                H::M(i) => i < w.memos.len(),
                H::E(i) => i < w.effs.len(),
            });
            if !ok {
                return Some(false);
            }
            // no handle to a scoped task or to a `new_scoped` effect
            if let H::E(i) = h {
                if w(|w| matches!(w.ekind[i], EKind::Task | EKind::ScopedImm)) {
                    return Some(false);
                }
            }
            match h {
                H::I(i) => w(|w| w.items[i]).dispose(),
                H::S(i) => w(|w| w.sigs[i]).dispose(),
                H::M(i) => w(|w| w.memos[i]).dispose(),
                H::E(i) => {
                    enum D {
                        L(Effect<LocalStorage>),
                        S(Effect<SyncStorage>),
                        R(Option<RenderEffect<()>>),
                        A(AsyncDerived<i64>),
                        I(Option<ImmediateEffect>),
                        N,
                    }
                    let d = w(|w| match &mut w.effs[i] {
                        AnyEff::Local(e) => D::L(*e),
                        AnyEff::Sync(e) => D::S(*e),
                        AnyEff::Render(r) => D::R(r.take()),
                        AnyEff::Async(a) => D::A(*a),
                        AnyEff::Imm(e) => D::I(e.take()),
                        AnyEff::Pending | AnyEff::Task => D::N,
                    });
                    // the values are dropped / disposed outside the borrow of the world
                    match d {
                        D::L(e) => e.dispose(),
                        D::S(e) => e.dispose(),
                        D::R(r) => drop(r),
                        D::A(a) => a.dispose(),
                        D::I(e) => drop(e),
                        D::N => {}
                    }
                }
            }
            w(|w| {
                w.tags.insert("dispose");
                w.sh_dispose_handle(h)
            });
            Some(true)
        }
        ["set", s, v] => {
            let (s, v) = (num(s)?, num(v)? as i64);
            let Some(sig) = w(|w| w.sigs.get(s).copied()) else { return Some(false) };
            let _ = sig.try_set(v);
            Some(true)
        }
        ["pause", o] => {
            let Some(owner) = held(num(o)?) else { return Some(false) };
            owner.pause();
            Some(true)
        }
        ["resume", o] => {
            let Some(owner) = held(num(o)?) else { return Some(false) };
            owner.resume();
            Some(true)
        }
        ["poll", i] => {
            do_poll(Some(num(i)?));
            Some(true)
        }
        ["idle"] => {
            do_poll(None);
            Some(true)
        }
        ["end"] => {
            let n = w(|w| w.owners.len());
            for o in 0..n {
                if let Some(owner) = w(|w| w.owners[o].take()) {
                    drop(owner);
                    w(|w| {
                        let so = w.sh.o_map[o];
                        w.sh_drop_holder(so);
                    });
                }
            }
            do_poll(None);
            w(|w| {
                w.tags.insert("end");
            });
            Some(true)
        }
        _ => None,
    }
}

fn finish_op(is_end: bool) -> String {
    w(|w| {
        // effect tasks that ended during this op: their owner was dropped
        let ended = std::mem::take(&mut w.ended);
        let mut over = vec![];
        for (e, o, post, t, dropped) in ended {
            over.extend(e);
            if dropped {
                w.sh_release_at(o, true, Some((post, t)));
            }
        }
        for e in over {
            if !w.sh.doomed[e] {
                w.fail("frame", format!("the task of live effect {e} ended"));
            }
        }
        // every cleanup that ran belongs to a scope that was released
        let stray: Vec<usize> = w.sh.op_c.iter().filter(|c| !c.1).map(|c| c.0).collect();
        for cid in stray {
            w.fail("stray-cleanup", format!("cleanup#{cid} ran although no scope owning it was released"));
        }
        // handles: live exactly when some live scope (or nobody) owns them
        let mut changes = vec![];
        let mut live = 0usize;
        for h in w.all_handles() {
            let (name, st) = w.status_of(h);
            let is_live = st != "x";
            // a RenderEffect is not an arena entry
            let in_arena = !matches!(h, H::E(k) if matches!(w.effs[k], AnyEff::Render(_) | AnyEff::Imm(_) | AnyEff::Task));
            if is_live && in_arena {
                live += 1;
            }
            let exp = w.sh.exp_live.get(&h).copied().unwrap_or(true);
            let prev = w.status.get(&name).cloned();
            if prev.as_deref() == Some("x") && is_live {
                w.fail("stale-resolves", format!("{name} was disposed and now resolves to {st}"));
            } else if exp && !is_live {
                w.fail("frame", format!("{name} was disposed although its scope was not released"));
                w.sh.exp_live.insert(h, false);
            } else if !exp && is_live {
                w.fail("not-disposed", format!("{name} is still live after its scope was released"));
            }
            if prev.as_deref() != Some(st.as_str()) {
                changes.push(format!("{name}={st}"));
                w.status.insert(name, st);
            }
        }
        for (k, o) in w.owners.iter().enumerate() {
            let name = format!("o{k}");
            let st = match o {
                Some(o) if o.paused() => "p",
                Some(_) => "h",
                None => "d",
            };
            if w.status.get(&name).map(|s| s.as_str()) != Some(st) {
                changes.push(format!("{name}={st}"));
                w.status.insert(name, st.to_string());
            }
        }
        if let Some(len) = arena_len() {
            let len = len as i64 - w.baseline as i64;
            if len != live as i64 {
                w.fail("arena-len", format!("arena holds {len} entries, {live} live handles are retained"));
            }
        }
        if is_end {
            // all scopes the harness can release are gone: what is left must be owned by nobody
            // (or by an effect/memo nobody owns)
            let sh = &w.sh;
            let mut reach: BTreeSet<H> = sh.unowned.clone();
            for o in sh.owners.iter().filter(|o| o.alive) {
                reach.extend(o.handles.iter().copied());
            }
            let leaked: Vec<H> = w
                .all_handles()
                .into_iter()
                .filter(|h| !matches!(h, H::E(k) if matches!(w.effs[*k], AnyEff::Render(_) | AnyEff::Imm(_) | AnyEff::Task)))
                .filter(|h| w.live(*h) && !reach.contains(h))
                .collect();
            if !leaked.is_empty() {
                w.fail("leak", format!("{leaked:?} live after every scope was dropped"));
            }
            let sh = &w.sh;
            // registered in a scope that is dead now and never ran
            let lost: Vec<usize> = (0..sh.cid_runs.len())
                .filter(|c| sh.cid_runs[*c] == 0 && matches!(sh.cid_owner[*c], Some(o) if !sh.owners[o].alive))
                .collect();
            if !lost.is_empty() {
                w.fail("not-run", format!("cleanups {lost:?} of dropped scopes never ran"));
            }
        }
        let evs = if w.events.is_empty() {
            "-".to_string()
        } else {
            w.events.iter().map(|e| e.show()).collect::<Vec<_>>().join(",")
        };
        let ch = if changes.is_empty() { "-".to_string() } else { changes.join(",") };
        // recorded deviations are reported after anything else, in a fixed order
        let soft = ["ctx-survives-cleanup", "imm-reruns-after-dispose", "watch-handler-unowned"];
        let class_of = |f: &String| f.split(' ').next().unwrap_or("").to_string();
        let first = w
            .fails
            .iter()
            .find(|f| !soft.contains(&class_of(f).as_str()))
            .or_else(|| w.fails.iter().find(|f| class_of(f) == soft[0]))
            .or_else(|| w.fails.iter().find(|f| class_of(f) == soft[1]))
            .or_else(|| w.fails.first());
        let verdict = match first {
            None => "ok".to_string(),
            Some(f) => format!("fail {f}"),
        };
        format!("{evs} | {ch} | live={live} ## {verdict}")
    })
}

fn begin_op() {
    w(|w| {
        w.events.clear();
        w.fails.clear();
        w.ended.clear();
        w.sh.op_c.clear();
        w.sh.op_cid0 = w.sh.cid_runs.len();
        w.sh.op_handles0 = [w.items.len(), w.sigs.len(), w.memos.len(), w.effs.len()];
    });
}

static PROGRESS: std::sync::atomic::AtomicU64 = std::sync::atomic::AtomicU64::new(0);

/// the library takes locks re-entrantly only when it is broken (e.g. an arena value whose destructor drops
/// an owner that still has nodes, inside `Arena::with_mut`): a blocked harness must not stall the check
fn watchdog() {
    std::thread::spawn(|| {
        let mut last = u64::MAX;
        loop {
            std::thread::sleep(std::time::Duration::from_secs(20));
            let now = PROGRESS.load(std::sync::atomic::Ordering::Relaxed);
            if now == last {
                eprintln!("hx-c08: no op line completed for 20 s (the implementation is blocked, line #{now}): giving up");
                std::process::exit(3);
            }
            last = now;
        }
    });
}

fn run_line(line: &str) -> String {
    PROGRESS.fetch_add(1, std::sync::atomic::Ordering::Relaxed);
    let words: Vec<&str> = line.split_whitespace().collect();
    if let ["case", n] = words.as_slice() {
        reset_case();
        return format!("case {n}");
    }
    begin_op();
    let r = catch_unwind(AssertUnwindSafe(|| op_line(&words)));
    match r {
        Ok(None) => "bad-op".into(),
        Ok(Some(false)) => "noop".into(),
        Ok(Some(true)) => {
            if words.first() == Some(&"body") {
                return format!("b{}", w(|w| w.bodies.len() - 1));
            }
            finish_op(words.as_slice() == ["end"])
        }
        Err(_) => {
            // the RefCell may still be borrowed if the panic crossed `w`; report and carry on
            "panic ## fail panic".into()
        }
    }
}

// ---------------------------------------------------------------- generator

/// body classes of the re-run matrix: what a scope allocates decides which of the owner's lists
/// (`nodes`, `cleanups`, `children`) its next clean-up has to look at
fn gen_body(rng: &mut Rng, k: usize, memo_like: bool) -> String {
    let n = rng.range(1, 5);
    let mut toks = vec![];
    if rng.chance(3, 4) {
        toks.push(format!("r{}", rng.below(2)));
    }
    let class = rng.below(10); // 0 plain, 1 cleanups, 2 children, 3 nothing, else mixture
    for _ in 0..n {
        let t = match class {
            0 => match rng.below(3) {
                0 => format!("s{}", rng.range(1, 9)),
                _ => format!("i{}", rng.range(1, 90)),
            },
            1 => match rng.below(5) {
                0 => format!("n{}", rng.range(1, 40)),
                _ => format!("c{}", rng.range(1, 40)),
            },
            2 => match rng.below(6) {
                0 | 1 => "o".to_string(),
                2 if k > 0 => format!("e{}", rng.below(k)),
                3 if k > 0 => format!("m{}", rng.below(k)),
                4 if k > 0 => format!("{}{}", *rng.pick(&["v", "V", "j", "J"]), rng.below(k)),
                5 if k > 0 => format!("{}{}", *rng.pick(&["a", "k", "K", "f"]), rng.below(k)),
                _ => "o".to_string(),
            },
            3 => match rng.below(3) {
                0 => format!("u{}", rng.below(3)),
                _ => format!("r{}", rng.below(3)),
            },
            _ => match rng.below(30) {
                24..=25 if k > 0 => format!("{}{}", *rng.pick(&["j", "J", "q", "Q", "V"]), rng.below(k)),
                26..=27 if k > 0 => format!("{}{}", *rng.pick(&["k", "K", "K", "f"]), rng.below(k)),
                28..=29 => format!("z{}.{}", rng.below(2), rng.range(1, 3)),
                0..=1 => format!("r{}", rng.below(3)),
                2..=5 => format!("c{}", rng.range(1, 40)),
                6 => format!("n{}", rng.range(1, 40)),
                7..=9 => format!("i{}", rng.range(1, 90)),
                10 => format!("s{}", rng.range(1, 9)),
                11..=12 => format!("p{}.{}", rng.below(3), rng.range(1, 9)),
                13 => format!("u{}", rng.below(3)),
                14 => match rng.below(4) {
                    0 => format!("l{}", rng.below(3)),
                    1 => format!("b{}", rng.below(3)),
                    2 => format!("d{}.{}", rng.below(3), rng.range(1, 4)),
                    _ => format!("u{}", rng.below(3)),
                },
                15..=16 if k > 0 => format!("e{}", rng.below(k)),
                17 if k > 0 => format!("m{}", rng.below(k)),
                18 if !memo_like => format!("g{}", rng.below(2)),
                19 => match rng.below(3) {
                    0 => "o".to_string(),
                    1 => format!("t{}", rng.below(3)),
                    _ => format!("i{}", rng.range(1, 90)),
                },
                20 if k > 0 => format!("{}{}", if rng.chance(1, 2) { "E" } else { "I" }, rng.below(k)),
                21 if k > 0 => format!("v{}", rng.below(k)),
                22 if k > 0 => format!("a{}", rng.below(k)),
                23 if k > 0 => format!("{}{}.{}", *rng.pick(&["w", "W", "y", "Y"]), rng.below(k), rng.below(k)),
                _ => format!("c{}", rng.range(1, 40)),
            },
        };
        toks.push(t);
    }
    toks.join(",")
}

struct Gen {
    lines: Vec<String>,
}
impl Gen {
    fn push(&mut self, l: String) {
        // keep the real world in step so that later references are valid
        if let Ok(path) = std::env::var("C08_GEN_TRACE") {
            use std::io::Write;
            if let Ok(mut f) = std::fs::OpenOptions::new().create(true).append(true).open(path) {
                let _ = writeln!(f, "{l}");
            }
        }
        let _ = run_line(&l);
        self.lines.push(l);
    }
}

fn counts() -> (Vec<usize>, usize, usize, usize, usize, usize) {
    w(|w| {
        (
            w.owners.iter().enumerate().filter(|(_, o)| o.is_some()).map(|(k, _)| k).collect(),
            w.items.len(),
            w.sigs.len(),
            w.memos.len(),
            w.effs.len(),
            w.bodies.len(),
        )
    })
}

fn gen_random_case(rng: &mut Rng, name: String, big: bool) -> Vec<String> {
    let mut g = Gen { lines: vec![] };
    g.push(format!("case {name}"));
    let nb = rng.range(1, 4);
    for k in 0..nb {
        let memo_like = k + 1 < nb && rng.chance(1, 2);
        let b = gen_body(rng, k, memo_like);
        g.push(format!("body {b}"));
    }
    g.push("x o".to_string());
    g.push(format!("in 0 x s{}", rng.range(1, 9)));
    if rng.chance(2, 3) {
        g.push(format!("{}x s{}", if rng.chance(1, 2) { "in 0 " } else { "" }, rng.range(1, 9)));
    }
    let mut after_set = false;
    let nops = if big { rng.range(10, 40) } else { rng.range(4, 18) };
    for step in 0..nops {
        let (held, ni, ns, nm, ne, nb) = counts();
        let pick_o = |rng: &mut Rng| -> Option<usize> {
            if held.is_empty() {
                None
            } else if rng.chance(1, 2) {
                held.last().copied()
            } else {
                Some(held[rng.below(held.len())])
            }
        };
        let build_n = (nops / 3).max(2);
        let build_phase = step < build_n;
        let r = if after_set && nm > 0 && rng.chance(1, 2) {
            99 // read a memo: recomputes it if one of its signals was written
        } else if after_set && rng.chance(3, 4) {
            rng.range(48, 63)
        } else if step == build_n && rng.chance(4, 5) {
            60 // idle: first runs
        } else if build_phase {
            rng.below(40)
        } else if ns > 0 && !after_set && rng.chance(1, 4) {
            44 // set: makes effects / memos re-run
        } else {
            rng.below(100)
        };
        after_set = (40..=47).contains(&r) && ns > 0;
        let line = match r {
            0..=24 => {
                // creation under an owner (sometimes two nested `in`, sometimes none)
                let last = nb - 1 - rng.below(nb.min(2));
                let tok = match rng.below(32) {
                    24..=26 => format!("{}{last}", *rng.pick(&["j", "J", "q", "Q"])),
                    27 => format!("V{last}"),
                    28..=30 => format!("{}{last}", *rng.pick(&["k", "K", "K", "f"])),
                    31 => format!("z{}.{}", rng.below(2), rng.range(1, 3)),
                    0..=3 => format!("e{last}"),
                    4 => format!("m{}", rng.below(nb)),
                    15..=17 => format!("m{last}"),
                    18 => format!("{}{last}", if rng.chance(1, 2) { "E" } else { "I" }),
                    19..=20 => format!("v{last}"),
                    21..=22 => format!("a{last}"),
                    23 => format!("{}{last}.{}", *rng.pick(&["w", "W", "y", "Y"]), rng.below(nb)),
                    5..=6 => format!("c{}", rng.range(1, 40)),
                    7 => format!("n{}", rng.range(1, 40)),
                    8..=9 => format!("i{}", rng.range(1, 90)),
                    10 => format!("s{}", rng.range(1, 9)),
                    11..=12 => format!("p{}.{}", rng.below(3), rng.range(1, 9)),
                    13..=14 => "o".to_string(),
                    _ => format!("g{}", rng.below(nm.max(1))),
                };
                match (pick_o(rng), rng.below(12)) {
                    (Some(o), 0) => match pick_o(rng) {
                        Some(o2) => format!("in {o2} in {o} x {tok}"),
                        None => format!("in {o} x {tok}"),
                    },
                    (Some(o), 1..=10) => format!("in {o} x {tok}"),
                    _ => format!("x {tok}"),
                }
            }
            25..=29 => match pick_o(rng) {
                Some(o) => format!("child {o}"),
                None => "x o".to_string(),
            },
            30..=37 => {
                let tok = match rng.below(8) {
                    0 => format!("l{}", rng.below(3)),
                    1 => format!("b{}", rng.below(3)),
                    2 => format!("d{}.{}", rng.below(3), rng.range(1, 4)),
                    3 => format!("p{}.{}", rng.below(3), rng.range(1, 9)),
                    _ => format!("u{}", rng.below(3)),
                };
                match pick_o(rng) {
                    Some(o) => format!("in {o} x {tok}"),
                    None => format!("x {tok}"),
                }
            }
            38..=39 => match pick_o(rng) {
                Some(o) => format!("in {o} x t{}", rng.below(3)),
                None => "idle".to_string(),
            },
            40..=47 => {
                if ns > 0 {
                    format!("set {} {}", if rng.chance(3, 4) { rng.below(ns.min(2)) } else { rng.below(ns) }, rng.range(1, 9))
                } else {
                    "idle".to_string()
                }
            }
            48..=55 => format!("poll {}", rng.below(4)),
            56..=63 => "idle".to_string(),
            64..=77 => match (pick_o(rng), rng.below(5)) {
                (Some(o), 0) => match pick_o(rng) {
                    Some(o2) => format!("in {o2} cleanup {o}"),
                    None => format!("cleanup {o}"),
                },
                (Some(o), _) => format!("cleanup {o}"),
                _ => "idle".to_string(),
            },
            78..=83 => match pick_o(rng) {
                Some(o) if rng.chance(1, 3) => format!("unset {o}"),
                Some(o) => format!("drop {o}"),
                None => "idle".to_string(),
            },
            84..=91 => {
                let kinds: Vec<(char, usize)> =
                    [('i', ni), ('s', ns), ('m', nm), ('e', ne)].into_iter().filter(|k| k.1 > 0).collect();
                if kinds.is_empty() {
                    "idle".to_string()
                } else {
                    let (k, n) = kinds[rng.below(kinds.len())];
                    format!("dispose {k} {}", rng.below(n))
                }
            }
            92 => match pick_o(rng) {
                Some(o) => format!("pause {o}"),
                None => "idle".to_string(),
            },
            93..=94 => match pick_o(rng) {
                Some(o) => format!("wc {o} {}", rng.below(nb)),
                None => "idle".to_string(),
            },
            95..=96 => match pick_o(rng) {
                Some(o) => format!("resume {o}"),
                None => "idle".to_string(),
            },
            _ => {
                if nm > 0 {
                    format!("x g{}", rng.below(nm))
                } else {
                    "idle".to_string()
                }
            }
        };
        g.push(line);
    }
    if rng.chance(3, 4) {
        g.push("end".to_string());
    }
    g.lines
}

/// the re-run matrix: every kind of owner-scoped re-run x every class of what the body allocates;
/// after each re-run the handles of the previous run must be disposed and the arena must hold
/// exactly the live values
fn gen_matrix() -> Vec<Vec<String>> {
    let classes = [
        ("plain", "r0,i7,s3"),
        ("cleanup", "r0,c5"),
        ("child", "r0,o"),
        ("childeff", "r0,e0"),
        ("childmemo", "r0,m0,g0"),
        ("mix", "r0,i7,c5,o,s2"),
        ("nothing", "r0"),
    ];
    let kinds = ["m", "e", "E", "I", "w", "W", "y", "Y", "v", "a", "wc", "V", "j", "J", "q", "Q"];
    let mut out = vec![];
    out.extend(gen_unset_matrix());
    out.extend(gen_ctx_matrix());
    out.extend(gen_task_matrix());
    // the recursive shape: the body writes one of its own dependencies after allocating
    for kind in ["j", "J", "q", "Q", "e", "v", "V"] {
        for (cname, cbody) in [
            ("rec", "r0,i7,c5,o,z0.3,i8,c6"),
            ("rec-child", "r0,e0,m0,z0.3,g0,i8"),
            ("rec-twice", "r0,r1,c5,z0.2,i7,z1.2,c6"),
        ] {
            let mut l = vec![format!("case mx-{kind}-{cname}")];
            l.push("body i4".into());
            l.push("body r0".into());
            l.push(format!("body {cbody}"));
            l.push("x o".into());
            l.push("in 0 x s1".into());
            l.push("in 0 x s1".into());
            l.push(format!("in 0 x {kind}2"));
            l.push("idle".into());
            for v in [2, 0, 1] {
                l.push(format!("set 0 {v}"));
                l.push("idle".into());
                l.push(format!("set 1 {v}"));
                l.push("idle".into());
            }
            l.push("cleanup 0".into());
            l.push("set 0 0".into());
            l.push("idle".into());
            l.push("end".into());
            out.push(l);
        }
    }
    for (cname, cbody) in classes {
        for kind in kinds {
            for tail in 0..2 {
                let mut l = vec![format!("case mx-{kind}-{cname}-{tail}")];
                l.push("body i4".into()); // b0: nested effect / memo body
                l.push("body r0".into()); // b1: handler that creates nothing
                l.push(format!("body {cbody}")); // b2
                l.push("x o".into());
                l.push("in 0 x s1".into());
                let rerun: Vec<String> = match kind {
                    "m" => {
                        l.push("in 0 x m2".into());
                        vec!["x g0".into()]
                    }
                    "wc" => {
                        l.push("child 0".into());
                        vec!["wc 1 2".into()]
                    }
                    "w" | "W" | "y" | "Y" => {
                        l.push(format!("in 0 x {kind}2.1"));
                        vec!["idle".into()]
                    }
                    _ => {
                        l.push(format!("in 0 x {kind}2"));
                        vec!["idle".into()]
                    }
                };
                for v in 2..5 {
                    l.extend(rerun.iter().cloned());
                    l.push(format!("set 0 {v}"));
                }
                l.extend(rerun.iter().cloned());
                if tail == 0 {
                    l.push(if kind == "wc" { "drop 1".into() } else { "cleanup 0".into() });
                    l.push("idle".into());
                } else if kind == "m" {
                    l.push("dispose m 0".into());
                } else if kind != "wc" {
                    l.push("dispose e 0".into());
                    l.push("idle".into());
                }
                l.push("end".into());
                out.push(l);
            }
        }
    }
    out
}

/// a root ended by `set(); unset()` with its last handle: cleanups that consult the current owner while they
/// run (`n<tag>`: `on_cleanup` + `StoredValue::new` inside the cleanup) registered on the root, on a retained
/// child, on a dropped-handle child, in an effect's scope, in a memo's scope; every cleanup exactly once,
/// descendants first, no panic
fn gen_unset_matrix() -> Vec<Vec<String>> {
    let mut out = vec![];
    let places: [(&str, &[&str]); 6] = [
        ("root", &["in 0 x n5", "in 0 x c6"]),
        ("child-held", &["child 0", "in 1 x n5", "in 0 x c6"]),
        ("grandchild", &["child 0", "child 1", "in 2 x n5", "in 1 x c6", "in 0 x n7"]),
        ("effect", &["body r0,n5,c6,i3", "in 0 x s1", "in 0 x e0", "idle"]),
        ("memo", &["body r0,n5,i3", "in 0 x s1", "in 0 x m0", "x g0"]),
        ("mix", &["body r0,n5,u0", "in 0 x s1", "in 0 x p0.4", "child 0", "in 1 x e0", "in 1 x n6", "idle", "in 0 x n7"]),
    ];
    for (name, setup) in places {
        for tail in 0..3 {
            let mut l = vec![format!("case un-{name}-{tail}"), "x o".to_string()];
            l.extend(setup.iter().map(|s| s.to_string()));
            match tail {
                0 => {}
                1 => l.push("cleanup 0".into()),
                _ => {
                    l.push("in 0 x n8".into());
                    l.push("in 0 x k0".into());
                }
            }
            // tail 2 needs a body for the task when the setup defines none
            if tail == 2 && !setup.iter().any(|s| s.starts_with("body")) {
                l.insert(1, "body i2".into());
            }
            l.push("unset 0".into());
            l.push("idle".into());
            l.push("end".into());
            out.push(l);
        }
    }
    out
}

/// the context family at every nesting shape: a chain of four owners (handles o0 > o1 > o2 > o3) or of
/// three nested effect scopes; the same type provided at every subset of the levels (the reader's own
/// level included); every lookup API from every level; then `take_context` from one level, repeated until
/// nothing is left (each take un-shadows the next provider outward), with lookups from every level in
/// between, a re-provide and an `update_context`
fn gen_ctx_matrix() -> Vec<Vec<String>> {
    let mut out = vec![];
    for mask in 0..16u32 {
        for take_from in 0..4usize {
            let mut l = vec![format!("case cx-{mask:04b}-t{take_from}")];
            l.push("x o".into());
            l.push("child 0".into());
            l.push("child 1".into());
            l.push("child 2".into());
            // a second type provided at the root only: must never be disturbed
            l.push("in 0 x p1.9".into());
            for lvl in 0..4 {
                if mask & (1 << lvl) != 0 {
                    l.push(format!("in {lvl} x p0.{}", lvl + 1));
                }
            }
            let apis = ["u", "l", "b"];
            for lvl in (0..4).rev() {
                l.push(format!("in {lvl} x {}0", apis[(lvl + mask as usize) % 3]));
            }
            for round in 0..(mask.count_ones() as usize + 1) {
                l.push(format!("in {take_from} x t0"));
                for lvl in (0..4).rev() {
                    l.push(format!("in {lvl} x {}0", apis[(lvl + round) % 3]));
                }
                l.push(format!("in {take_from} x u1"));
            }
            // shadow again in the middle, change the value in place from below
            l.push("in 1 x p0.6".into());
            l.push("in 3 x d0.2".into());
            l.push("in 2 x u0".into());
            l.push("in 1 x l0".into());
            l.push("in 0 x u0".into());
            l.push("in 3 x t0".into());
            l.push("in 3 x u0".into());
            l.push("in 0 x t1".into());
            l.push("in 3 x b1".into());
            l.push("end".into());
            out.push(l);
        }
    }
    // the same through scopes of nested effects: e(b2) > e(b1) > e(b0), each providing / reading / taking
    for (k, (inner, middle, outer)) in [
        ("u0,t0,u0,l0", "p0.2,e0", "p0.1,e1"),
        ("p0.3,t0,u0,t0,u0,t0,u0", "p0.2,e0", "p0.1,e1"),
        ("t0,u0", "r0,e0,u0", "p0.1,e1,u0"),
        ("d0.2,u0,t0,b0", "p0.2,r0,e0,u0", "r0,p0.1,e1,u0"),
        ("t0,t0,u0", "p0.2,e0,u0", "p0.1,e1,u0"),
    ]
    .into_iter()
    .enumerate()
    {
        let mut l = vec![format!("case cx-eff-{k}")];
        l.push(format!("body {inner}"));
        l.push(format!("body {middle}"));
        l.push(format!("body {outer}"));
        l.push("x o".into());
        l.push("in 0 x s1".into());
        l.push("in 0 x p0.7".into());
        l.push("in 0 x e2".into());
        l.push("idle".into());
        l.push("in 0 x u0".into());
        l.push("set 0 2".into());
        l.push("idle".into());
        l.push("in 0 x u0".into());
        l.push("end".into());
        out.push(l);
    }
    out
}

/// scoped tasks: who spawns x which spawn function x when the spawning scope is released relative to
/// the task's polls (before the first, between the two, after completion) x how it is released
fn gen_task_matrix() -> Vec<Vec<String>> {
    let mut out = vec![];
    for spawn in ["k", "K", "f"] {
        for (hname, host) in [("owner", ""), ("effect", "e"), ("render", "v"), ("imm", "j"), ("wc", "wc")] {
            for when in ["before", "between", "after"] {
                for how in ["cleanup", "rerun", "drop"] {
                    if host.is_empty() && how == "rerun" {
                        continue;
                    }
                    let mut l = vec![format!("case tk-{spawn}-{hname}-{when}-{how}")];
                    l.push("body r0,i4,c9,u0".into()); // b0: the task's body
                    l.push(format!("body r0,p0.5,c8,{spawn}0")); // b1: the host's body
                    l.push("x o".into());
                    l.push("in 0 x s1".into());
                    l.push("child 0".into());
                    // after this the task is spawned and nothing else is ready
                    match host {
                        "" => l.push(format!("in 1 x {spawn}0")),
                        "wc" => l.push("wc 1 1".into()),
                        "e" => {
                            l.push("in 1 x e1".into());
                            l.push("poll 0".into());
                        }
                        _ => l.push(format!("in 1 x {host}1")),
                    }
                    let release: Vec<String> = match (how, host) {
                        ("cleanup", _) => vec!["cleanup 1".into()],
                        ("drop", _) => vec!["drop 1".into()],
                        (_, "wc") => vec!["wc 1 1".into()],
                        (_, "j") => vec!["set 0 2".into()],
                        // a render effect's first run (which spawns the scoped task) precedes the spawn
                        // of its own task; an effect's task comes first
                        (_, "v") if when != "after" => vec!["set 0 2".into(), "poll 1".into()],
                        _ => vec!["set 0 2".into(), "poll 0".into()],
                    };
                    match when {
                        "before" => l.extend(release),
                        "between" => {
                            l.push("poll 0".into()); // the task just spawned
                            l.extend(release);
                        }
                        _ => {
                            l.push("idle".into());
                            l.extend(release);
                        }
                    }
                    l.push("idle".into());
                    l.push("cleanup 0".into());
                    l.push("idle".into());
                    l.push("end".into());
                    out.push(l);
                }
            }
        }
    }
    out
}

/// exhaustive small scope: a fixed prelude (root owner, signal, a nested effect reading the signal)
/// followed by every sequence of `len` ops over a small alphabet
fn gen_exhaustive(len: usize, limit: usize) -> Vec<Vec<String>> {
    let prelude = [
        "body c1,i5,p0.1",
        "body r0,c2,e0,u0,i6",
        "x o",
        "in 0 x s1",
        "in 0 x e1",
        "in 0 x c3",
    ];
    let alpha = [
        "idle",
        "poll 0",
        "poll 1",
        "set 0 2",
        "cleanup 0",
        "in 0 x n8",
        "drop 0",
        "dispose e 0",
        "in 0 x u0",
        "child 0",
        "in 1 x i3",
        "in 1 cleanup 0",
        "in 0 x m1",
        "x g0",
    ];
    let mut out = vec![];
    let total = alpha.len().pow(len as u32);
    for code in 0..total.min(limit) {
        let mut c = code;
        let mut lines = vec![format!("case x{len}-{code}")];
        lines.extend(prelude.iter().map(|s| s.to_string()));
        for _ in 0..len {
            lines.push(alpha[c % alpha.len()].to_string());
            c /= alpha.len();
        }
        lines.push("end".to_string());
        out.push(lines);
    }
    out
}

fn main() {
    quiet_panics();
    sched::install();
    watchdog();
    match parse_cli() {
        Cmd::Gen { seed, n, ops, tier } => {
            let mut rng = Rng::new(seed);
            let mut out = String::new();
            let big = tier == "thorough";
            let mut ex = gen_matrix();
            ex.extend(if big { gen_exhaustive(4, n / 2) } else { gen_exhaustive(3, n / 2) });
            let nex = ex.len();
            for c in ex {
                for l in c {
                    out.push_str(&l);
                    out.push('\n');
                }
            }
            for k in 0..n.saturating_sub(nex) {
                for l in gen_random_case(&mut rng, format!("g{k}"), big && k % 4 == 0) {
                    out.push_str(&l);
                    out.push('\n');
                }
            }
            reset_case();
            std::fs::write(&ops, out).expect("write ops");
        }
        Cmd::Run { ops, out } => {
            // the `case` echo carries the tags of the case, known only at its end: buffer per case
            let input = std::fs::read_to_string(&ops).expect("read ops");
            let mut lines_out: Vec<String> = vec![];
            let mut case_at: Option<usize> = None;
            let close = |lines_out: &mut Vec<String>, case_at: Option<usize>| {
                if let Some(i) = case_at {
                    let tags = w(|w| {
                        if w.tags.is_empty() {
                            "plain".to_string()
                        } else {
                            w.tags.iter().copied().collect::<Vec<_>>().join(",")
                        }
                    });
                    lines_out[i] = format!("{} tags={}", lines_out[i], tags);
                }
            };
            for line in input.lines() {
                let line = line.trim();
                if line.starts_with("case ") {
                    close(&mut lines_out, case_at);
                    case_at = Some(lines_out.len());
                }
                let o = run_line(line);
                lines_out.push(o);
            }
            close(&mut lines_out, case_at);
            reset_case();
            std::fs::write(&out, lines_out.join("\n") + "\n").expect("write out");
        }
    }
}
