//! View-tree encoding of the C06 ops (one word, no spaces) and the structure a view denotes.
//!
//!   node := 'T' hex ';'  |  'E' tag ';' attr* '>' node* '<'
//!   attr := 'A' hex ';' hex ';'   .attr(name, String)
//!         | 'B' hex ';' ('0'|'1') .attr(name, bool)
//!         | 'C' hex ';'           .class(String)
//!         | 'D' hex ';' ('0'|'1') .class((name, bool))
//!         | 'S' hex ';'           .style(String)
//!         | 'K' hex ';' hex ';'   .style((name, value))
//!         | 'H' hex ';'           .inner_html(String)
//! hex = lower-case hex of the UTF-8 bytes (may be empty); tag = [a-z0-9-]+.
use crate::html::{self, Tree};

#[derive(Clone, Debug, PartialEq)]
pub enum Attr {
    Plain(String, String),
    Bool(String, bool),
    Class(String),
    ClassToggle(String, bool),
    Style(String),
    StyleKV(String, String),
    InnerHtml(String),
}

#[derive(Clone, Debug, PartialEq)]
pub enum Node {
    Text(String),
    Elem { tag: String, attrs: Vec<Attr>, kids: Vec<Node> },
}

pub fn hx(s: &str) -> String {
    s.bytes().map(|b| format!("{:02x}", b)).collect()
}

fn unhx(s: &str) -> Option<String> {
    if s.len() % 2 != 0 {
        return None;
    }
    let bytes: Option<Vec<u8>> =
        (0..s.len()).step_by(2).map(|i| u8::from_str_radix(s.get(i..i + 2)?, 16).ok()).collect();
    String::from_utf8(bytes?).ok()
}

pub fn encode(nodes: &[Node]) -> String {
    let mut o = String::new();
    for n in nodes {
        match n {
            Node::Text(s) => {
                o.push('T');
                o.push_str(&hx(s));
                o.push(';');
            }
            Node::Elem { tag, attrs, kids } => {
                o.push('E');
                o.push_str(tag);
                o.push(';');
                for a in attrs {
                    match a {
                        Attr::Plain(n, v) => o.push_str(&format!("A{};{};", hx(n), hx(v))),
                        Attr::Bool(n, b) => o.push_str(&format!("B{};{}", hx(n), *b as u8)),
                        Attr::Class(v) => o.push_str(&format!("C{};", hx(v))),
                        Attr::ClassToggle(n, b) => o.push_str(&format!("D{};{}", hx(n), *b as u8)),
                        Attr::Style(v) => o.push_str(&format!("S{};", hx(v))),
                        Attr::StyleKV(n, v) => o.push_str(&format!("K{};{};", hx(n), hx(v))),
                        Attr::InnerHtml(v) => o.push_str(&format!("H{};", hx(v))),
                    }
                }
                o.push('>');
                o.push_str(&encode(kids));
                o.push('<');
            }
        }
    }
    o
}

struct D<'a> {
    s: &'a [u8],
    i: usize,
}

impl<'a> D<'a> {
    fn field(&mut self) -> Option<&'a str> {
        let start = self.i;
        while *self.s.get(self.i)? != b';' {
            self.i += 1;
        }
        let r = std::str::from_utf8(&self.s[start..self.i]).ok()?;
        self.i += 1;
        Some(r)
    }
    fn hex(&mut self) -> Option<String> {
        unhx(self.field()?)
    }
    fn bit(&mut self) -> Option<bool> {
        let b = *self.s.get(self.i)?;
        self.i += 1;
        match b {
            b'0' => Some(false),
            b'1' => Some(true),
            _ => None,
        }
    }
    fn nodes(&mut self, top: bool) -> Option<Vec<Node>> {
        let mut out = vec![];
        loop {
            match self.s.get(self.i).copied() {
                None => return if top { Some(out) } else { None },
                Some(b'<') => {
                    if top {
                        return None;
                    }
                    self.i += 1;
                    return Some(out);
                }
                Some(b'T') => {
                    self.i += 1;
                    out.push(Node::Text(self.hex()?));
                }
                Some(b'E') => {
                    self.i += 1;
                    let tag = self.field()?.to_string();
                    if tag.is_empty()
                        || !tag.bytes().all(|b| b.is_ascii_lowercase() || b.is_ascii_digit() || b == b'-')
                    {
                        return None;
                    }
                    let mut attrs = vec![];
                    loop {
                        let k = *self.s.get(self.i)?;
                        self.i += 1;
                        attrs.push(match k {
                            b'>' => break,
                            b'A' => Attr::Plain(self.hex()?, self.hex()?),
                            b'B' => Attr::Bool(self.hex()?, self.bit()?),
                            b'C' => Attr::Class(self.hex()?),
                            b'D' => Attr::ClassToggle(self.hex()?, self.bit()?),
                            b'S' => Attr::Style(self.hex()?),
                            b'K' => Attr::StyleKV(self.hex()?, self.hex()?),
                            b'H' => Attr::InnerHtml(self.hex()?),
                            _ => return None,
                        });
                    }
                    let kids = self.nodes(false)?;
                    out.push(Node::Elem { tag, attrs, kids });
                }
                _ => return None,
            }
        }
    }
}

pub fn decode(w: &str) -> Option<Vec<Node>> {
    if w == "-" {
        return Some(vec![]);
    }
    D { s: w.as_bytes(), i: 0 }.nodes(true)
}

/// elements tachys renders without children / without escaping children (elements.rs)
pub const TACHYS_VOID: &[&str] =
    &["area", "base", "br", "col", "embed", "hr", "img", "input", "link", "meta", "source", "track", "wbr"];
pub const TACHYS_RAW: &[&str] = &["noscript", "script", "style", "textarea"];

/// the attribute list an element is meant to have
pub fn expected_attrs(attrs: &[Attr]) -> Vec<(String, String)> {
    let mut out = vec![];
    let mut classes: Option<Vec<String>> = None;
    let mut styles: Option<String> = None;
    for a in attrs {
        match a {
            Attr::Plain(n, v) => out.push((n.clone(), v.clone())),
            Attr::Bool(n, true) => out.push((n.clone(), String::new())),
            Attr::Bool(_, false) => {}
            Attr::Class(v) => classes.get_or_insert_with(Vec::new).push(v.clone()),
            Attr::ClassToggle(n, on) => {
                classes.get_or_insert_with(Vec::new).push(if *on { n.clone() } else { String::new() })
            }
            Attr::Style(v) => {
                let s = styles.get_or_insert_with(String::new);
                s.push_str(v);
                s.push(';');
            }
            Attr::StyleKV(n, v) => {
                let s = styles.get_or_insert_with(String::new);
                s.push_str(&format!("{n}:{v};"));
            }
            Attr::InnerHtml(_) => {}
        }
    }
    if let Some(c) = classes {
        // the class attribute is the space-joined list, without surrounding white space
        out.push(("class".into(), c.join(" ").trim().to_string()));
    }
    if let Some(s) = styles {
        out.push(("style".into(), s.trim().to_string()));
    }
    out
}

/// the DOM a list of sibling views is meant to denote (see `structNode` in Model/Html.lean)
pub fn expected(nodes: &[Node]) -> Vec<Tree> {
    let mut out = vec![];
    let mut prev_text = false;
    for n in nodes {
        match n {
            Node::Text(s) => {
                if prev_text {
                    out.push(Tree::Comment(String::new()));
                }
                out.push(Tree::Text(if s.is_empty() { " ".into() } else { s.clone() }));
                prev_text = true;
            }
            Node::Elem { tag, attrs, kids } => {
                let inner: String = attrs
                    .iter()
                    .filter_map(|a| if let Attr::InnerHtml(h) = a { Some(h.as_str()) } else { None })
                    .collect();
                let k = if TACHYS_VOID.contains(&tag.as_str()) {
                    vec![]
                } else if !inner.is_empty() {
                    html::parse(&inner).unwrap_or_default()
                } else if TACHYS_RAW.contains(&tag.as_str()) {
                    let t: String = kids
                        .iter()
                        .filter_map(|k| if let Node::Text(s) = k { Some(s.as_str()) } else { None })
                        .collect();
                    if t.is_empty() {
                        vec![]
                    } else {
                        vec![Tree::Text(t)]
                    }
                } else {
                    expected(kids)
                };
                out.push(Tree::Elem { tag: tag.clone(), attrs: expected_attrs(attrs), kids: k });
                prev_text = false;
            }
        }
    }
    out
}
