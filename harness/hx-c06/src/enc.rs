//! View-tree encoding of the C06 ops (one word, no spaces) and the structure a view denotes.
//!
//!   node := 'T' hex ';'                      text child, `String`
//!         | 't' ty ':' hex ';'               text child of string type ty ∈ str String Arc Cow CowB Oco OcoB OcoC fn (attributes also: refString TpL TpS TpF)
//!         | 'P' ty ':' hex ';'               primitive child (char, u8 … f64, bool, IpAddr, NonZero…); hex = Display text
//!         | 'E' tag ';' attr* '>' node* '<'  element
//!         | K ity ':' node* '<'              child container, K ∈
//!               V Vec<ity>   Y [ity; N]   W StaticVec<ity>   U tuple   F Fragment (ity = *)
//!               O Some(node) : Option<ity>   N None : Option<ity>
//!               L Either::<ity, AnyView>::Left(node)   R Either::<AnyView, ity>::Right(node)
//!         | 'Z'                              the unit view `()`
//!         | 'I' hex ';' hex ';' node* '<'    Island::new(component, view).with_props(props)
//!         | 'J' node* '<'                    IslandChildren::new(view)
//!   only in `wview` ops — leptos components that hand `escape` through (two node lists are written one
//!   after the other, each closed by `<`):
//!         | 'G' bit ':' kids '<' fallback '<'     <Show when=bit fallback=…>kids</Show>
//!         | 'Q' ':' kids '<' fallback '<'         <ErrorBoundary fallback=…>kids</ErrorBoundary>
//!         | 'r' hex ';' | 'x' hex ';'             a child Ok(String) | Err(e) with e.to_string() = the string
//!         | 'M'                                   (in a boundary's fallback) the error messages joined by ", "
//!         | 'f' ('0'|'1') ':' T* '<'              <For each=rows …>: '0' `{s}`, '1' `<i>{s}</i>`
//!         | 'u' bit ':' kids '<' fallback '<'     <Suspense> (bit 1: <Transition>)
//!         | 'y' digit ':' kids '<'                Suspend::new(async { tick × digit; kids })
//!         | 'w' digit ':' hex ';'                 <Await future=async { tick × digit; data } let:d><b>{d}</b>{d}</Await>
//!   ity  := S String | s &'static str | a Arc<str> | w Cow<'static,str> | o Oco<'static,str> | c char | i i32
//!         | q Option<String> | v Vec<String> | * AnyView (anything, built recursively)
//!   attr := 'A' hex ';' hex ';'              .attr(name, String)
//!         | 'a' opt ty ':' hex ';' hex ';'   .attr(name, value : ty), opt: '=' plain, '?' Some(value), '-' None
//!         | 'B' hex ';' bit                  .attr(name, bool)
//!         | 'C' hex ';' | 'c' opt ty ':' hex ';'            .class(String | ty)
//!         | 'D' hex ';' bit | 'd' hex ';' bit               .class((name, bool | move || bool))
//!         | 'S' hex ';' | 's' opt ty ':' hex ';'            .style(String | ty)
//!         | 'K' hex ';' hex ';' | 'k' opt ty ':' hex ';' hex ';'   .style((name, String | ty))
//!         | 'H' hex ';' | 'h' opt ty ':' hex ';'            .inner_html(String | ty)
//! hex = lower-case hex of the UTF-8 bytes (may be empty); tag = [a-z0-9-]+; ty = [A-Za-z0-9]+.
use crate::html::{self, Tree};

/// value type of an attribute / class / style position
#[derive(Clone, Debug, PartialEq)]
pub struct Ty {
    /// '=' the value itself, '?' `Some(value)`, '-' `None`
    pub opt: char,
    pub ty: String,
}

impl Ty {
    pub fn string() -> Ty {
        Ty { opt: '=', ty: "String".into() }
    }
    pub fn is_none(&self) -> bool {
        self.opt == '-'
    }
    fn is_default(&self) -> bool {
        self.opt == '=' && self.ty == "String"
    }
}

#[derive(Clone, Debug, PartialEq)]
pub enum Attr {
    Plain(String, String, Ty),
    Bool(String, bool),
    Class(String, Ty),
    /// name, on, through a closure
    ClassToggle(String, bool, bool),
    Style(String, Ty),
    StyleKV(String, String, Ty),
    InnerHtml(String, Ty),
}

#[derive(Clone, Debug, PartialEq)]
pub enum Node {
    Text { ty: String, s: String },
    Prim { ty: String, s: String },
    Elem { tag: String, attrs: Vec<Attr>, kids: Vec<Node> },
    Cont { kind: char, ity: char, kids: Vec<Node> },
    Unit,
    Island { comp: String, props: String, kids: Vec<Node> },
    IslandChildren { kids: Vec<Node> },
    // leptos wrapper components (`wview` only)
    Show { cond: bool, kids: Vec<Node>, fb: Vec<Node> },
    Boundary { kids: Vec<Node>, fb: Vec<Node> },
    OkStr(String),
    Err(String),
    ErrMsgs,
    ForEach { fam: u8, rows: Vec<String> },
    Suspense { transition: bool, kids: Vec<Node>, fb: Vec<Node> },
    Suspend { delay: u8, kids: Vec<Node> },
    Await { delay: u8, data: String },
}

impl Node {
    pub fn text(s: &str) -> Node {
        Node::Text { ty: "String".into(), s: s.into() }
    }
}

pub const CONT_KINDS: &str = "VYWUFONLR";
pub const ITEM_TYS: &str = "Ssawociqv*";

pub fn hx(s: &str) -> String {
    s.bytes().map(|b| format!("{:02x}", b)).collect()
}

fn unhx(s: &str) -> Option<String> {
    if s.len() % 2 != 0 {
        return None;
    }
    let bytes: Option<Vec<u8>> =
        (0..s.len()).step_by(2).map(|i| u8::from_str_radix(s.get(i..i + 2)?, 16).ok()).collect();
    String::from_utf8(bytes?).ok()
}

fn enc_ty(o: &mut String, k: char, dflt: char, t: &Ty) {
    if t.is_default() {
        o.push(dflt);
    } else {
        o.push(k);
        o.push(t.opt);
        o.push_str(&t.ty);
        o.push(':');
    }
}

pub fn encode(nodes: &[Node]) -> String {
    let mut o = String::new();
    for n in nodes {
        match n {
            Node::Text { ty, s } => {
                if ty == "String" {
                    o.push('T');
                } else {
                    o.push_str(&format!("t{ty}:"));
                }
                o.push_str(&hx(s));
                o.push(';');
            }
            Node::Prim { ty, s } => o.push_str(&format!("P{ty}:{};", hx(s))),
            Node::Unit => o.push('Z'),
            Node::Island { comp, props, kids } => {
                o.push_str(&format!("I{};{};", hx(comp), hx(props)));
                o.push_str(&encode(kids));
                o.push('<');
            }
            Node::IslandChildren { kids } => {
                o.push('J');
                o.push_str(&encode(kids));
                o.push('<');
            }
            Node::Show { cond, kids, fb } => o.push_str(&format!("G{}:{}<{}<", *cond as u8, encode(kids), encode(fb))),
            Node::Boundary { kids, fb } => o.push_str(&format!("Q:{}<{}<", encode(kids), encode(fb))),
            Node::OkStr(s) => o.push_str(&format!("r{};", hx(s))),
            Node::Err(s) => o.push_str(&format!("x{};", hx(s))),
            Node::ErrMsgs => o.push('M'),
            Node::ForEach { fam, rows } => {
                o.push_str(&format!("f{fam}:"));
                for r in rows {
                    o.push_str(&format!("T{};", hx(r)));
                }
                o.push('<');
            }
            Node::Suspense { transition, kids, fb } => {
                o.push_str(&format!("u{}:{}<{}<", *transition as u8, encode(kids), encode(fb)))
            }
            Node::Suspend { delay, kids } => o.push_str(&format!("y{delay}:{}<", encode(kids))),
            Node::Await { delay, data } => o.push_str(&format!("w{delay}:{};", hx(data))),
            Node::Cont { kind, ity, kids } => {
                o.push(*kind);
                o.push(*ity);
                o.push(':');
                o.push_str(&encode(kids));
                o.push('<');
            }
            Node::Elem { tag, attrs, kids } => {
                o.push('E');
                o.push_str(tag);
                o.push(';');
                for a in attrs {
                    match a {
                        Attr::Plain(n, v, t) => {
                            enc_ty(&mut o, 'a', 'A', t);
                            o.push_str(&format!("{};{};", hx(n), hx(v)));
                        }
                        Attr::Bool(n, b) => o.push_str(&format!("B{};{}", hx(n), *b as u8)),
                        Attr::Class(v, t) => {
                            enc_ty(&mut o, 'c', 'C', t);
                            o.push_str(&format!("{};", hx(v)));
                        }
                        Attr::ClassToggle(n, b, f) => {
                            o.push_str(&format!("{}{};{}", if *f { 'd' } else { 'D' }, hx(n), *b as u8))
                        }
                        Attr::Style(v, t) => {
                            enc_ty(&mut o, 's', 'S', t);
                            o.push_str(&format!("{};", hx(v)));
                        }
                        Attr::StyleKV(n, v, t) => {
                            enc_ty(&mut o, 'k', 'K', t);
                            o.push_str(&format!("{};{};", hx(n), hx(v)));
                        }
                        Attr::InnerHtml(v, t) => {
                            enc_ty(&mut o, 'h', 'H', t);
                            o.push_str(&format!("{};", hx(v)));
                        }
                    }
                }
                o.push('>');
                o.push_str(&encode(kids));
                o.push('<');
            }
        }
    }
    o
}

struct D<'a> {
    s: &'a [u8],
    i: usize,
}

impl<'a> D<'a> {
    fn until(&mut self, stop: u8) -> Option<&'a str> {
        let start = self.i;
        while *self.s.get(self.i)? != stop {
            self.i += 1;
        }
        let r = std::str::from_utf8(&self.s[start..self.i]).ok()?;
        self.i += 1;
        Some(r)
    }
    fn hex(&mut self) -> Option<String> {
        unhx(self.until(b';')?)
    }
    fn bit(&mut self) -> Option<bool> {
        let b = *self.s.get(self.i)?;
        self.i += 1;
        match b {
            b'0' => Some(false),
            b'1' => Some(true),
            _ => None,
        }
    }
    fn tyname(&mut self) -> Option<String> {
        let t = self.until(b':')?;
        if t.is_empty() || !t.bytes().all(|b| b.is_ascii_alphanumeric()) {
            return None;
        }
        Some(t.to_string())
    }
    fn ty(&mut self) -> Option<Ty> {
        let opt = *self.s.get(self.i)? as char;
        self.i += 1;
        if !"=?-".contains(opt) {
            return None;
        }
        Some(Ty { opt, ty: self.tyname()? })
    }
    fn nodes(&mut self, top: bool) -> Option<Vec<Node>> {
        let mut out = vec![];
        loop {
            let Some(b) = self.s.get(self.i).copied() else {
                return if top { Some(out) } else { None };
            };
            self.i += 1;
            match b {
                b'<' => return if top { None } else { Some(out) },
                b'T' => out.push(Node::Text { ty: "String".into(), s: self.hex()? }),
                b't' => out.push(Node::Text { ty: self.tyname()?, s: self.hex()? }),
                b'P' => out.push(Node::Prim { ty: self.tyname()?, s: self.hex()? }),
                b'Z' => out.push(Node::Unit),
                b'I' => {
                    let comp = self.hex()?;
                    let props = self.hex()?;
                    let kids = self.nodes(false)?;
                    out.push(Node::Island { comp, props, kids });
                }
                b'J' => {
                    let kids = self.nodes(false)?;
                    out.push(Node::IslandChildren { kids });
                }
                b'G' | b'u' => {
                    let flag = self.bit()?;
                    if *self.s.get(self.i)? != b':' {
                        return None;
                    }
                    self.i += 1;
                    let kids = self.nodes(false)?;
                    let fb = self.nodes(false)?;
                    out.push(if b == b'G' {
                        Node::Show { cond: flag, kids, fb }
                    } else {
                        Node::Suspense { transition: flag, kids, fb }
                    });
                }
                b'Q' => {
                    if *self.s.get(self.i)? != b':' {
                        return None;
                    }
                    self.i += 1;
                    let kids = self.nodes(false)?;
                    let fb = self.nodes(false)?;
                    out.push(Node::Boundary { kids, fb });
                }
                b'r' => out.push(Node::OkStr(self.hex()?)),
                b'x' => out.push(Node::Err(self.hex()?)),
                b'M' => out.push(Node::ErrMsgs),
                b'f' | b'y' | b'w' => {
                    let d = *self.s.get(self.i)?;
                    if !d.is_ascii_digit() || *self.s.get(self.i + 1)? != b':' {
                        return None;
                    }
                    self.i += 2;
                    let d = d - b'0';
                    match b {
                        b'f' => {
                            if d > 1 {
                                return None;
                            }
                            let rows: Option<Vec<String>> = self
                                .nodes(false)?
                                .into_iter()
                                .map(|n| if let Node::Text { s, .. } = n { Some(s) } else { None })
                                .collect();
                            out.push(Node::ForEach { fam: d, rows: rows? });
                        }
                        b'y' => {
                            let kids = self.nodes(false)?;
                            out.push(Node::Suspend { delay: d, kids });
                        }
                        _ => out.push(Node::Await { delay: d, data: self.hex()? }),
                    }
                }
                k if CONT_KINDS.as_bytes().contains(&k) => {
                    let ity = *self.s.get(self.i)? as char;
                    self.i += 1;
                    if !ITEM_TYS.contains(ity) || *self.s.get(self.i)? != b':' {
                        return None;
                    }
                    self.i += 1;
                    let kids = self.nodes(false)?;
                    let arity_ok = match k {
                        b'O' | b'L' | b'R' => kids.len() == 1,
                        b'N' => kids.is_empty(),
                        _ => true,
                    };
                    if !arity_ok {
                        return None;
                    }
                    out.push(Node::Cont { kind: k as char, ity, kids });
                }
                b'E' => {
                    let tag = self.until(b';')?.to_string();
                    if tag.is_empty()
                        || !tag.bytes().all(|b| b.is_ascii_lowercase() || b.is_ascii_digit() || b == b'-')
                    {
                        return None;
                    }
                    let mut attrs = vec![];
                    loop {
                        let k = *self.s.get(self.i)?;
                        self.i += 1;
                        attrs.push(match k {
                            b'>' => break,
                            b'A' => Attr::Plain(self.hex()?, self.hex()?, Ty::string()),
                            b'a' => {
                                let t = self.ty()?;
                                Attr::Plain(self.hex()?, self.hex()?, t)
                            }
                            b'B' => Attr::Bool(self.hex()?, self.bit()?),
                            b'C' => Attr::Class(self.hex()?, Ty::string()),
                            b'c' => {
                                let t = self.ty()?;
                                Attr::Class(self.hex()?, t)
                            }
                            b'D' => Attr::ClassToggle(self.hex()?, self.bit()?, false),
                            b'd' => Attr::ClassToggle(self.hex()?, self.bit()?, true),
                            b'S' => Attr::Style(self.hex()?, Ty::string()),
                            b's' => {
                                let t = self.ty()?;
                                Attr::Style(self.hex()?, t)
                            }
                            b'K' => Attr::StyleKV(self.hex()?, self.hex()?, Ty::string()),
                            b'k' => {
                                let t = self.ty()?;
                                Attr::StyleKV(self.hex()?, self.hex()?, t)
                            }
                            b'H' => Attr::InnerHtml(self.hex()?, Ty::string()),
                            b'h' => {
                                let t = self.ty()?;
                                Attr::InnerHtml(self.hex()?, t)
                            }
                            _ => return None,
                        });
                    }
                    let kids = self.nodes(false)?;
                    out.push(Node::Elem { tag, attrs, kids });
                }
                _ => return None,
            }
        }
    }
}

pub fn decode(w: &str) -> Option<Vec<Node>> {
    if w == "-" {
        return Some(vec![]);
    }
    D { s: w.as_bytes(), i: 0 }.nodes(true)
}

/// elements tachys renders without children / without escaping children (elements.rs)
pub const TACHYS_VOID: &[&str] =
    &["area", "base", "br", "col", "embed", "hr", "img", "input", "link", "meta", "source", "track", "wbr"];
pub const TACHYS_RAW: &[&str] = &["noscript", "script", "style", "textarea"];

/// the attribute list an element is meant to have
pub fn expected_attrs(attrs: &[Attr]) -> Vec<(String, String)> {
    let mut out = vec![];
    let mut classes: Option<Vec<String>> = None;
    let mut styles: Option<String> = None;
    for a in attrs {
        match a {
            Attr::Plain(_, _, t) if t.is_none() => {}
            Attr::Plain(n, v, _) => out.push((n.clone(), v.clone())),
            Attr::Bool(n, true) => out.push((n.clone(), String::new())),
            Attr::Bool(_, false) => {}
            // `.class(None)` still is a (blank) item of the class list
            Attr::Class(v, t) => {
                classes.get_or_insert_with(Vec::new).push(if t.is_none() { String::new() } else { v.clone() })
            }
            Attr::ClassToggle(n, on, _) => {
                classes.get_or_insert_with(Vec::new).push(if *on { n.clone() } else { String::new() })
            }
            Attr::Style(_, t) | Attr::StyleKV(_, _, t) if t.is_none() => {}
            Attr::Style(v, _) => {
                let s = styles.get_or_insert_with(String::new);
                s.push_str(v);
                s.push(';');
            }
            Attr::StyleKV(n, v, _) => {
                let s = styles.get_or_insert_with(String::new);
                s.push_str(&format!("{n}:{v};"));
            }
            Attr::InnerHtml(..) => {}
        }
    }
    if let Some(c) = classes {
        // the class attribute is the space-joined list, without surrounding white space
        out.push(("class".into(), c.join(" ").trim().to_string()));
    }
    if let Some(s) = styles {
        out.push(("style".into(), s.trim().to_string()));
    }
    out
}

pub fn inner_of(attrs: &[Attr]) -> String {
    attrs
        .iter()
        .filter_map(|a| match a {
            Attr::InnerHtml(h, t) if !t.is_none() => Some(h.as_str()),
            _ => None,
        })
        .collect()
}

/// the strings directly in a child list (through containers, not into elements)
pub fn direct_text(nodes: &[Node], out: &mut String) {
    for n in nodes {
        match n {
            Node::Text { s, .. } | Node::Prim { s, .. } => out.push_str(s),
            Node::Cont { kids, .. } => direct_text(kids, out),
            _ => {}
        }
    }
}

fn exp(nodes: &[Node], prev_text: &mut bool, out: &mut Vec<Tree>) {
    for n in nodes {
        match n {
            Node::Text { s, .. } => {
                if *prev_text {
                    out.push(Tree::Comment(String::new()));
                }
                out.push(Tree::Text(if s.is_empty() { " ".into() } else { s.clone() }));
                *prev_text = true;
            }
            Node::Prim { s, .. } => {
                if *prev_text {
                    out.push(Tree::Comment(String::new()));
                }
                if !s.is_empty() {
                    out.push(Tree::Text(s.clone()));
                }
                *prev_text = true;
            }
            Node::Unit => {
                out.push(Tree::Comment(String::new()));
                *prev_text = false;
            }
            // islands are elements written by hand; the sibling position is handed through to the
            // view inside and back out, so a marker can be the first child
            Node::Island { comp, props, kids } => {
                let mut attrs = vec![("data-component".to_string(), comp.clone())];
                if !props.is_empty() {
                    attrs.push(("data-props".to_string(), props.clone()));
                }
                let mut inner = vec![];
                exp(kids, prev_text, &mut inner);
                out.push(Tree::Elem { tag: "leptos-island".into(), attrs, kids: inner });
            }
            Node::IslandChildren { kids } => {
                let mut inner = vec![];
                exp(kids, prev_text, &mut inner);
                out.push(Tree::Elem { tag: "leptos-children".into(), attrs: vec![], kids: inner });
            }
            // wrapper components are replaced by what they show (`shown`) before this point
            Node::Show { .. }
            | Node::Boundary { .. }
            | Node::OkStr(_)
            | Node::Err(_)
            | Node::ErrMsgs
            | Node::ForEach { .. }
            | Node::Suspense { .. }
            | Node::Suspend { .. }
            | Node::Await { .. } => {}
            Node::Cont { kind, kids, .. } => match kind {
                // `None` is a placeholder comment, a `Vec` ends with a marker comment
                'N' => {
                    out.push(Tree::Comment(String::new()));
                    *prev_text = false;
                }
                // the 0-tuple is the unit view
                'U' if kids.is_empty() => {
                    out.push(Tree::Comment(String::new()));
                    *prev_text = false;
                }
                'V' => {
                    exp(kids, prev_text, out);
                    out.push(Tree::Comment(String::new()));
                    *prev_text = false;
                }
                _ => exp(kids, prev_text, out),
            },
            Node::Elem { tag, attrs, kids } => {
                let inner = inner_of(attrs);
                let k = if TACHYS_VOID.contains(&tag.as_str()) {
                    vec![]
                } else if !inner.is_empty() {
                    html::parse(&inner).unwrap_or_default()
                } else if TACHYS_RAW.contains(&tag.as_str()) {
                    let mut t = String::new();
                    direct_text(kids, &mut t);
                    if t.is_empty() {
                        vec![]
                    } else {
                        vec![Tree::Text(t)]
                    }
                } else {
                    expected(kids)
                };
                out.push(Tree::Elem { tag: tag.clone(), attrs: expected_attrs(attrs), kids: k });
                *prev_text = false;
            }
        }
    }
}

/// the DOM a list of sibling views is meant to denote (see `vStruct` in Model/Html.lean): a string
/// is one text node (`" "` for the empty string), separated from a preceding string by a marker
/// comment; containers contribute their items (a `Vec` also its trailing marker, `None`/`()` a
/// placeholder comment)
pub fn expected(nodes: &[Node]) -> Vec<Tree> {
    let mut out = vec![];
    let mut prev = false;
    exp(nodes, &mut prev, &mut out);
    out
}

pub fn has_wrappers(nodes: &[Node]) -> bool {
    nodes.iter().any(|n| match n {
        Node::Elem { kids, .. } | Node::Cont { kids, .. } | Node::Island { kids, .. } | Node::IslandChildren { kids } => {
            has_wrappers(kids)
        }
        Node::Text { .. } | Node::Prim { .. } | Node::Unit => false,
        _ => true,
    })
}

fn errs_of(nodes: &[Node], out: &mut Vec<String>) {
    for n in nodes {
        match n {
            Node::Err(m) => out.push(m.clone()),
            Node::Elem { kids, .. } | Node::Cont { kids, .. } | Node::Suspend { kids, .. } => errs_of(kids, out),
            Node::Show { cond, kids, fb } => errs_of(if *cond { kids } else { fb }, out),
            Node::Suspense { kids, .. } => errs_of(kids, out),
            _ => {}
        }
    }
}

/// what the wrapper components are meant to show: the chosen branch, the fallback of a boundary whose
/// children threw (with the messages), the rows, and — `settled` — the resolved children of a
/// `<Suspense>` / the awaited data, otherwise the `<Suspense>` fallback / nothing
pub fn shown(nodes: &[Node], settled: bool, msgs: &str) -> Vec<Node> {
    let seq = |kids: Vec<Node>| Node::Cont { kind: 'W', ity: '*', kids };
    let mut out = vec![];
    for n in nodes {
        match n {
            Node::Elem { tag, attrs, kids } => {
                out.push(Node::Elem { tag: tag.clone(), attrs: attrs.clone(), kids: shown(kids, settled, msgs) })
            }
            Node::Cont { kind, ity, kids } => out.push(Node::Cont { kind: *kind, ity: *ity, kids: shown(kids, settled, msgs) }),
            Node::Show { cond, kids, fb } => out.push(seq(shown(if *cond { kids } else { fb }, settled, msgs))),
            Node::Boundary { kids, fb } => {
                let mut es = vec![];
                errs_of(kids, &mut es);
                if es.is_empty() {
                    out.push(seq(shown(kids, settled, msgs)))
                } else {
                    out.push(seq(shown(fb, settled, &es.join(", "))))
                }
            }
            Node::OkStr(s) => out.push(Node::text(s)),
            Node::Err(_) => out.push(Node::Unit),
            Node::ErrMsgs => out.push(Node::text(msgs)),
            Node::ForEach { fam, rows } => out.push(Node::Cont {
                kind: 'V',
                ity: '*',
                kids: rows
                    .iter()
                    .map(|r| {
                        if *fam == 0 {
                            Node::text(r)
                        } else {
                            Node::Elem { tag: "i".into(), attrs: vec![], kids: vec![Node::text(r)] }
                        }
                    })
                    .collect(),
            }),
            Node::Suspense { kids, fb, .. } => out.push(seq(shown(if settled { kids } else { fb }, settled, msgs))),
            Node::Suspend { kids, .. } => out.push(seq(shown(kids, settled, msgs))),
            Node::Await { data, .. } => {
                if settled {
                    out.push(Node::Elem { tag: "b".into(), attrs: vec![], kids: vec![Node::text(data)] });
                    out.push(Node::text(data));
                } else {
                    out.push(Node::Unit)
                }
            }
            other => out.push(other.clone()),
        }
    }
    out
}

/// a document modulo sibling markers: comments dropped, adjacent text merged
pub fn norm(ts: &[Tree]) -> Vec<Tree> {
    let mut out: Vec<Tree> = vec![];
    for t in ts {
        match t {
            Tree::Comment(_) => {}
            Tree::Text(s) => {
                if let Some(Tree::Text(prev)) = out.last_mut() {
                    prev.push_str(s);
                } else {
                    out.push(Tree::Text(s.clone()));
                }
            }
            Tree::Elem { tag, attrs, kids } => out.push(Tree::Elem { tag: tag.clone(), attrs: attrs.clone(), kids: norm(kids) }),
        }
    }
    out
}

/// canonical text of a document (same format as `canon` in lean/Driver/C06.lean)
pub fn canon(ts: &[Tree]) -> String {
    let mut o = String::new();
    for t in ts {
        match t {
            Tree::Text(s) => o.push_str(&format!("T{};", hx(s))),
            Tree::Comment(s) => o.push_str(&format!("C{};", hx(s))),
            Tree::Elem { tag, attrs, kids } => {
                o.push_str(&format!("E{};", hx(tag)));
                for (n, v) in attrs {
                    o.push_str(&format!("A{}={};", hx(n), hx(v)));
                }
                o.push('>');
                o.push_str(&canon(kids));
                o.push('<');
            }
        }
    }
    o
}
