//! The client side of an out-of-order stream: what the `<script>` that follows every
//! `<template id="…f">` chunk does to the document (tachys/src/ssr/mod.rs `OooChunk::push_end`).
//! Borrowed from harness/hx-c07 (`apply_scripts`, the Rust twin of C07's `applyScripts` model).

pub fn apply_scripts(stream: &str) -> String {
    let mut dom = String::new();
    let mut tpls: Vec<(String, String)> = vec![];
    let mut input = stream;
    loop {
        let Some(p) = input.find("<template id=\"") else { break };
        let rest = &input[p + 14..];
        let Some(q) = rest.find("\">") else { break };
        let tid = &rest[..q];
        let rest2 = &rest[q + 2..];
        let Some(r) = rest2.find("</template>") else { break };
        let content = &rest2[..r];
        let rest3 = &rest2[r + 11..];
        let Some(s) = rest3.find("</script>") else { break };
        let script = &rest3[..s];
        dom.push_str(&input[..p]);
        tpls.push((tid.to_string(), content.to_string()));
        input = &rest3[s + 9..];
        // what the script does
        let Some(a) = script.find("let id = \"") else { continue };
        let after = &script[a + 10..];
        let Some(b) = after.find('"') else { continue };
        let id = &after[..b];
        let replace = script.contains("range.deleteContents()");
        let open = format!("<!--s-{id}o-->");
        let close = format!("<!--s-{id}c-->");
        let (Some(po), Some(pc)) = (dom.rfind(&open), dom.rfind(&close)) else { continue };
        if replace {
            let want = format!("{id}f");
            let Some((_, tpl)) = tpls.iter().find(|(k, _)| *k == want) else { continue };
            let start = if pc < po { pc } else { po };
            dom = format!("{}{}{}", &dom[..start], tpl, &dom[pc + close.len()..]);
        } else {
            let mut d = format!("{}{}", &dom[..pc], &dom[pc + close.len()..]);
            if let Some(po2) = d.rfind(&open) {
                d = format!("{}{}", &d[..po2], &d[po2 + open.len()..]);
            }
            dom = d;
        }
    }
    dom.push_str(input);
    dom
}

/// the document as first painted: everything in front of the first out-of-order chunk
pub fn first_paint(stream: &str) -> &str {
    match stream.find("<template id=\"") {
        Some(p) => &stream[..p],
        None => stream,
    }
}
