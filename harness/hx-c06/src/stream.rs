//! The client side of an out-of-order stream: what the `<script>` that follows every
//! `<template id="…f">` chunk does to the document (tachys/src/ssr/mod.rs `OooChunk::push_end`).
//! Borrowed from harness/hx-c07 (`apply_scripts`, the Rust twin of C07's `applyScripts` model).

pub fn apply_scripts(stream: &str) -> String {
    let mut dom = String::new();
    let mut tpls: Vec<(String, String)> = vec![];
    let mut input = stream;
    loop {
        let Some(p) = input.find("<template id=\"") else { break };
        let rest = &input[p + 14..];
        let Some(q) = rest.find("\">") else { break };
        let tid = &rest[..q];
        let rest2 = &rest[q + 2..];
        let Some(r) = rest2.find("</template>") else { break };
        let content = &rest2[..r];
        let rest3 = &rest2[r + 11..];
        let Some(s) = rest3.find("</script>") else { break };
        let script = &rest3[..s];
        dom.push_str(&input[..p]);
        tpls.push((tid.to_string(), content.to_string()));
        input = &rest3[s + 9..];
        // what the script does
        let Some(a) = script.find("let id = \"") else { continue };
        let after = &script[a + 10..];
        let Some(b) = after.find('"') else { continue };
        let id = &after[..b];
        let replace = script.contains("range.deleteContents()");
        let open = format!("<!--s-{id}o-->");
        let close = format!("<!--s-{id}c-->");
        let (Some(po), Some(pc)) = (dom.rfind(&open), dom.rfind(&close)) else { continue };
        if replace {
            let want = format!("{id}f");
            let Some((_, tpl)) = tpls.iter().find(|(k, _)| *k == want) else { continue };
            let start = if pc < po { pc } else { po };
            dom = format!("{}{}{}", &dom[..start], tpl, &dom[pc + close.len()..]);
        } else {
            let mut d = format!("{}{}", &dom[..pc], &dom[pc + close.len()..]);
            if let Some(po2) = d.rfind(&open) {
                d = format!("{}{}", &d[..po2], &d[po2 + open.len()..]);
            }
            dom = d;
        }
    }
    dom.push_str(input);
    dom
}

/// the document as first painted: everything in front of the first out-of-order chunk
pub fn first_paint(stream: &str) -> &str {
    match stream.find("<template id=\"") {
        Some(p) => &stream[..p],
        None => stream,
    }
}

use crate::html::{self, Tree};

/// one out-of-order chunk: `<template id="{id}f">content</template><script>…</script>`
struct Chunk {
    id: String,
    content: String,
    replace: bool,
}

fn split_chunks(stream: &str) -> Option<(String, Vec<Chunk>)> {
    let first = first_paint(stream).to_string();
    let mut rest = &stream[first.len()..];
    let mut chunks = vec![];
    while !rest.is_empty() {
        let r = rest.strip_prefix("<template id=\"")?;
        let q = r.find("\">")?;
        let tid = &r[..q];
        let r2 = &r[q + 2..];
        let e = r2.find("</template>")?;
        let content = &r2[..e];
        let r3 = &r2[e + "</template>".len()..];
        let r3 = r3.strip_prefix("<script")?;
        let g = r3.find('>')?;
        let r3 = &r3[g + 1..];
        let s = r3.find("</script>")?;
        let script = &r3[..s];
        rest = &r3[s + "</script>".len()..];
        let a = script.find("let id = \"")?;
        let after = &script[a + 10..];
        let b = after.find('"')?;
        let id = &after[..b];
        if tid != format!("{id}f") {
            return None;
        }
        chunks.push(Chunk { id: id.to_string(), content: content.to_string(), replace: script.contains("range.deleteContents()") });
    }
    Some((first, chunks))
}

/// what the chunk's script does, on the DOM: the nodes from the `s-{id}o` comment up to (not including)
/// the `s-{id}c` comment are deleted, the template's nodes inserted before it, the comment removed
fn apply_chunk(nodes: &mut Vec<Tree>, open: &str, close: &str, tpl: &[Tree], replace: bool) -> bool {
    let po = nodes.iter().position(|n| matches!(n, Tree::Comment(c) if c == open));
    let pc = nodes.iter().position(|n| matches!(n, Tree::Comment(c) if c == close));
    if let (Some(po), Some(pc)) = (po, pc) {
        if po < pc {
            if replace {
                nodes.splice(po..=pc, tpl.iter().cloned());
            } else {
                nodes.remove(pc);
                nodes.remove(po);
            }
            return true;
        }
    }
    for n in nodes.iter_mut() {
        if let Tree::Elem { kids, .. } = n {
            if apply_chunk(kids, open, close, tpl, replace) {
                return true;
            }
        }
    }
    false
}

/// the settled document of an out-of-order stream, as a browser builds it: the first paint and every
/// `<template>` are parsed on their own, and the scripts move *nodes* (nothing is re-parsed, so a text
/// `<` from one chunk can never join text from another into a tag)
pub fn settle(stream: &str) -> Option<Vec<Tree>> {
    let (first, chunks) = split_chunks(stream)?;
    // a fallback that a later chunk deletes is judged with the first paint (the whole first chunk is
    // parsed there); here its text is dropped up front, so that a fallback outside the parser subset
    // (a CR, say) does not hide the settled document as well
    let gone: Vec<(String, String)> =
        chunks.iter().filter(|c| c.replace).map(|c| (format!("<!--s-{}o-->", c.id), format!("<!--s-{}c-->", c.id))).collect();
    let blank = |text: &str| -> String {
        let mut t = text.to_string();
        for (o, c) in &gone {
            if let Some(po) = t.find(o.as_str()) {
                let from = po + o.len();
                if let Some(pc) = t[from..].find(c.as_str()) {
                    t.replace_range(from..from + pc, "");
                }
            }
        }
        t
    };
    let mut doc = html::parse(&blank(&first))?;
    for c in &chunks {
        let tpl = html::parse(&blank(&c.content))?;
        if !apply_chunk(&mut doc, &format!("s-{}o", c.id), &format!("s-{}c", c.id), &tpl, c.replace) {
            return None;
        }
    }
    Some(doc)
}
