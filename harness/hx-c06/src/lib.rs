//! Reusable pieces of the C06 harness (also meant for C05 / C07 / C18):
//!
//! * [`enc`]  — the view-tree op encoding shared with lean/Driver/C06.lean (`Node`, `Attr`,
//!   `encode`, `decode`) and `expected`, the DOM a view is meant to denote.
//! * [`html`] — an independent HTML tokenizer + "in body" tree builder for the same WHATWG subset as
//!   `Leptos.Html.parse` (lean/LeptosModel/Model/Html.lean, header "Subset boundary"): returns `None`
//!   for everything outside the subset.
pub mod enc;
pub mod html;
/// applying out-of-order stream chunks as the browser does (borrowed from hx-c07)
pub mod stream;
