//! HTML fragment parser: WHATWG tokenizer + "in body" tree construction, scripting enabled, restricted
//! to the subset documented in lean/LeptosModel/Model/Html.lean.  Written from the standard, on an
//! index into the code points with look-ahead (the Lean model is a one-character state machine).
//!
//! `parse` returns `None` when the input leaves the subset: any parse error other than
//! incorrectly-opened-comment and a `<` that cannot start a tag (it is text), U+0000, U+000D, unknown named references / references without `;`,
//! DOCTYPE / CDATA / `<?`, `<!` inside script data, unsupported elements, start tags that the tree
//! builder would not simply insert (p-closing tag inside `p`, `a` in `a`, `button` in `button`,
//! heading directly in heading), end tags that do not close the current node, EOF inside anything.

#[derive(Clone, Debug, PartialEq, Eq)]
pub enum Tree {
    Text(String),
    Comment(String),
    Elem { tag: String, attrs: Vec<(String, String)>, kids: Vec<Tree> },
}

#[derive(Clone, Copy, PartialEq, Eq, Debug)]
pub enum Kind {
    Void,
    Rcdata,
    Rawtext,
    Script,
    Generic,
    Unsupported,
}

const VOID: &[&str] =
    &["area", "base", "br", "embed", "hr", "img", "input", "link", "meta", "source", "track", "wbr"];
pub const GENERIC: &[&str] = &[
    "div", "span", "section", "article", "main", "header", "footer", "aside", "nav", "blockquote",
    "figure", "label", "b", "i", "em", "strong", "small", "code", "p", "a", "h1", "h2", "h3", "button",
];
const P_CLOSERS: &[&str] = &[
    "div", "section", "article", "main", "header", "footer", "aside", "nav", "blockquote", "figure", "p",
    "h1", "h2", "h3", "hr",
];
const HEADINGS: &[&str] = &["h1", "h2", "h3"];

fn name_char(c: char) -> bool {
    c.is_ascii_lowercase() || c.is_ascii_digit() || c == '-'
}

pub fn is_custom_tag(t: &str) -> bool {
    let mut it = t.chars();
    match it.next() {
        Some(c) if c.is_ascii_lowercase() => {
            let rest: Vec<char> = it.collect();
            rest.iter().all(|&c| name_char(c)) && rest.contains(&'-')
        }
        _ => false,
    }
}

pub fn kind(t: &str) -> Kind {
    if VOID.contains(&t) {
        Kind::Void
    } else if t == "title" || t == "textarea" {
        Kind::Rcdata
    } else if t == "style" || t == "noscript" {
        Kind::Rawtext
    } else if t == "script" {
        Kind::Script
    } else if GENERIC.contains(&t) || is_custom_tag(t) {
        Kind::Generic
    } else {
        Kind::Unsupported
    }
}

/// `anc`: open elements, innermost first
pub fn nest_ok(t: &str, anc: &[&str]) -> bool {
    !(P_CLOSERS.contains(&t) && anc.contains(&"p"))
        && !(t == "a" && anc.contains(&"a"))
        && !(t == "button" && anc.contains(&"button"))
        && !(HEADINGS.contains(&t) && anc.first().map_or(false, |a| HEADINGS.contains(a)))
}

fn is_ws(c: char) -> bool {
    c == ' ' || c == '\t' || c == '\n' || c == '\u{c}'
}

fn lower(c: char) -> char {
    c.to_ascii_lowercase()
}

struct Frame {
    tag: String,
    attrs: Vec<(String, String)>,
    kids: Vec<Tree>,
}

struct P {
    s: Vec<char>,
    i: usize,
    stack: Vec<Frame>, // root first, current node last
}

fn valid_codepoint(n: u32) -> bool {
    let nonchar = (0xFDD0..=0xFDEF).contains(&n) || n % 0x10000 == 0xFFFE || n % 0x10000 == 0xFFFF;
    (n == 9 || n == 10 || n == 12 || (0x20..=0x7E).contains(&n) || n >= 0xA0)
        && n <= 0x10FFFF
        && !(0xD800..=0xDFFF).contains(&n)
        && !nonchar
}

enum CharRef {
    Char(char),
    /// the `&` is literal; nothing after it was consumed
    Literal,
}

impl P {
    fn peek(&self) -> Option<char> {
        self.s.get(self.i).copied()
    }
    fn cur(&mut self) -> &mut Frame {
        self.stack.last_mut().unwrap()
    }
    fn mode(&self) -> Kind {
        kind(&self.stack.last().unwrap().tag)
    }
    fn emit_char(&mut self, c: char) {
        let f = self.cur();
        if let Some(Tree::Text(t)) = f.kids.last_mut() {
            t.push(c);
        } else {
            f.kids.push(Tree::Text(c.to_string()));
        }
    }
    fn emit_str(&mut self, s: &str) {
        for c in s.chars() {
            self.emit_char(c);
        }
    }

    /// 13.2.5.72 ff.; called with `i` just after the `&`
    fn char_ref(&mut self) -> Option<CharRef> {
        let Some(c) = self.peek() else {
            return Some(CharRef::Literal); // `&` at the very end is a `&` (inside a tag the caller hits EOF next)
        };
        if c.is_ascii_alphanumeric() {
            let start = self.i;
            let mut j = self.i;
            while j < self.s.len() && self.s[j].is_ascii_alphanumeric() && j - start < 8 {
                j += 1;
            }
            if self.s.get(j) != Some(&';') {
                return None;
            }
            let name: String = self.s[start..j].iter().collect();
            let ch = match name.as_str() {
                "amp" => '&',
                "lt" => '<',
                "gt" => '>',
                "quot" => '"',
                "apos" => '\'',
                _ => return None,
            };
            self.i = j + 1;
            Some(CharRef::Char(ch))
        } else if c == '#' {
            self.i += 1;
            let (radix, max_first) = match self.peek()? {
                'x' | 'X' => {
                    self.i += 1;
                    (16, ())
                }
                _ => (10, ()),
            };
            let _ = max_first;
            let mut n: u32 = 0;
            let mut digits = 0;
            loop {
                let d = self.peek()?;
                if d == ';' {
                    break;
                }
                let v = d.to_digit(radix)?;
                if digits > 0 && n * radix + v > 0x10FFFF {
                    return None;
                }
                n = n * radix + v;
                digits += 1;
                self.i += 1;
            }
            if digits == 0 || !valid_codepoint(n) {
                return None;
            }
            self.i += 1; // ';'
            Some(CharRef::Char(char::from_u32(n)?))
        } else {
            Some(CharRef::Literal)
        }
    }

    fn start_tag(&mut self, name: String, attrs: Vec<(String, String)>, self_closing: bool) -> Option<()> {
        let anc: Vec<&str> = self.stack.iter().rev().map(|f| f.tag.as_str()).collect();
        if !nest_ok(&name, &anc) {
            return None;
        }
        match kind(&name) {
            Kind::Unsupported => None,
            Kind::Void => {
                self.cur().kids.push(Tree::Elem { tag: name, attrs, kids: vec![] });
                Some(())
            }
            _ => {
                if self_closing {
                    return None;
                }
                let is_textarea = name == "textarea";
                self.stack.push(Frame { tag: name, attrs, kids: vec![] });
                if is_textarea && self.peek() == Some('\n') {
                    self.i += 1; // "if the next token is a U+000A LINE FEED, ignore that token"
                }
                Some(())
            }
        }
    }

    fn end_tag(&mut self, name: &str) -> Option<()> {
        if self.stack.len() < 2 || self.stack.last().unwrap().tag != name {
            return None;
        }
        let f = self.stack.pop().unwrap();
        self.cur().kids.push(Tree::Elem { tag: f.tag, attrs: f.attrs, kids: f.kids });
        Some(())
    }

    /// attribute value; `i` is just after the opening quote (or at the first character, unquoted).
    /// Returns the value; for the unquoted form the terminator is left unconsumed.
    fn attr_value(&mut self, quote: Option<char>) -> Option<String> {
        let mut v = String::new();
        loop {
            let c = self.peek()?;
            match quote {
                Some(q) if c == q => {
                    self.i += 1;
                    return Some(v);
                }
                None if is_ws(c) || c == '>' => return Some(v),
                _ => {}
            }
            if c == '&' {
                self.i += 1;
                match self.char_ref()? {
                    CharRef::Char(ch) => v.push(ch),
                    CharRef::Literal => v.push('&'),
                }
                continue;
            }
            if quote.is_none() && matches!(c, '"' | '\'' | '<' | '=' | '`') {
                return None;
            }
            v.push(c);
            self.i += 1;
        }
    }

    /// after `<` + ASCII letter in the data state
    fn tag(&mut self) -> Option<()> {
        let mut name = String::new();
        loop {
            let c = self.peek()?;
            if is_ws(c) || c == '/' || c == '>' {
                break;
            }
            name.push(lower(c));
            self.i += 1;
        }
        let mut attrs: Vec<(String, String)> = vec![];
        let push = |attrs: &mut Vec<(String, String)>, n: String, v: String| -> Option<()> {
            if attrs.iter().any(|a| a.0 == n) {
                return None; // duplicate attribute
            }
            attrs.push((n, v));
            Some(())
        };
        // `need_ws`: directly after a quoted value only whitespace, `/` or `>` may follow
        let mut need_ws = false;
        loop {
            let c = self.peek()?;
            if is_ws(c) {
                self.i += 1;
                need_ws = false;
                continue;
            }
            if c == '/' {
                self.i += 1;
                if self.peek()? != '>' {
                    return None;
                }
                self.i += 1;
                return self.start_tag(name, attrs, true);
            }
            if c == '>' {
                self.i += 1;
                return self.start_tag(name, attrs, false);
            }
            if need_ws || matches!(c, '=' | '"' | '\'' | '<') {
                return None;
            }
            // attribute name
            let mut an = String::new();
            loop {
                let c = self.peek()?;
                if is_ws(c) || c == '/' || c == '>' || c == '=' {
                    break;
                }
                if matches!(c, '"' | '\'' | '<') {
                    return None;
                }
                an.push(lower(c));
                self.i += 1;
            }
            // after attribute name
            while is_ws(self.peek()?) {
                self.i += 1;
            }
            if self.peek()? != '=' {
                push(&mut attrs, an, String::new())?;
                continue;
            }
            self.i += 1;
            while is_ws(self.peek()?) {
                self.i += 1;
            }
            let c = self.peek()?;
            let v = match c {
                '"' | '\'' => {
                    self.i += 1;
                    need_ws = true;
                    self.attr_value(Some(c))?
                }
                '>' => return None,
                _ => self.attr_value(None)?,
            };
            push(&mut attrs, an, v)?;
        }
    }

    /// after `</` + ASCII letter in the data state
    fn close_tag(&mut self) -> Option<()> {
        let mut name = String::new();
        loop {
            let c = self.peek()?;
            if is_ws(c) || c == '>' {
                break;
            }
            if c == '/' {
                return None;
            }
            name.push(lower(c));
            self.i += 1;
        }
        while is_ws(self.peek()?) {
            self.i += 1;
        }
        if self.peek()? != '>' {
            return None;
        }
        self.i += 1;
        self.end_tag(&name)
    }

    /// after `<!--`
    fn comment(&mut self) -> Option<()> {
        #[derive(Clone, Copy)]
        enum S {
            Start,
            StartDash,
            Comment,
            Lt,
            LtBang,
            LtBangDash,
            LtBangDashDash,
            EndDash,
            End,
            EndBang,
        }
        let mut d = String::new();
        let mut st = S::Start;
        loop {
            let c = self.peek()?;
            // `reconsume` = do not advance
            let mut advance = true;
            st = match (st, c) {
                (S::Start, '-') => S::StartDash,
                (S::Start, '>') => return None,
                (S::Start, _) => {
                    advance = false;
                    S::Comment
                }
                (S::StartDash, '-') => S::End,
                (S::StartDash, '>') => return None,
                (S::StartDash, _) => {
                    d.push('-');
                    advance = false;
                    S::Comment
                }
                (S::Comment, '<') => {
                    d.push('<');
                    S::Lt
                }
                (S::Comment, '-') => S::EndDash,
                (S::Comment, _) => {
                    d.push(c);
                    S::Comment
                }
                (S::Lt, '!') => {
                    d.push('!');
                    S::LtBang
                }
                (S::Lt, '<') => {
                    d.push('<');
                    S::Lt
                }
                (S::Lt, _) => {
                    advance = false;
                    S::Comment
                }
                (S::LtBang, '-') => S::LtBangDash,
                (S::LtBang, _) => {
                    advance = false;
                    S::Comment
                }
                (S::LtBangDash, '-') => S::LtBangDashDash,
                (S::LtBangDash, _) => {
                    advance = false;
                    S::EndDash
                }
                (S::LtBangDashDash, '>') => {
                    advance = false;
                    S::End
                }
                (S::LtBangDashDash, _) => return None, // nested-comment
                (S::EndDash, '-') => S::End,
                (S::EndDash, _) => {
                    d.push('-');
                    advance = false;
                    S::Comment
                }
                (S::End, '>') => {
                    self.i += 1;
                    self.cur().kids.push(Tree::Comment(d));
                    return Some(());
                }
                (S::End, '!') => S::EndBang,
                (S::End, '-') => {
                    d.push('-');
                    S::End
                }
                (S::End, _) => {
                    d.push_str("--");
                    advance = false;
                    S::Comment
                }
                (S::EndBang, '-') => {
                    d.push_str("--!");
                    S::EndDash
                }
                (S::EndBang, '>') => return None,
                (S::EndBang, _) => {
                    d.push_str("--!");
                    advance = false;
                    S::Comment
                }
            };
            if advance {
                self.i += 1;
            }
        }
    }

    /// after `<!`
    fn markup_declaration(&mut self) -> Option<()> {
        let c = self.peek()?;
        let mut d = String::new();
        if c == '-' {
            if self.s.get(self.i + 1)? == &'-' {
                self.i += 2;
                return self.comment();
            }
            // bogus comment; the `-` is part of its data
        } else if matches!(c, 'd' | 'D' | '[') {
            return None;
        }
        loop {
            let c = self.peek()?;
            self.i += 1;
            if c == '>' {
                self.cur().kids.push(Tree::Comment(d));
                return Some(());
            }
            d.push(c);
        }
    }

    /// `<` inside RCDATA / RAWTEXT / script data (`i` just after it)
    fn raw_lt(&mut self) -> Option<()> {
        let script = self.mode() == Kind::Script;
        match self.peek()? {
            '/' => {
                let mut j = self.i + 1;
                while j < self.s.len() && self.s[j].is_ascii_alphabetic() {
                    j += 1;
                }
                let buf: String = self.s[self.i + 1..j].iter().collect();
                let after = *self.s.get(j)?;
                let cur = self.stack.last().unwrap().tag.clone();
                if !buf.is_empty() && buf.to_ascii_lowercase() == cur {
                    if after == '>' {
                        self.i = j + 1;
                        return self.end_tag(&cur);
                    }
                    if is_ws(after) || after == '/' {
                        return None;
                    }
                }
                self.emit_str("</");
                self.emit_str(&buf);
                self.i = j;
                Some(())
            }
            '!' if script => None,
            _ => {
                self.emit_char('<');
                Some(())
            }
        }
    }

    fn run(&mut self) -> Option<()> {
        while let Some(c) = self.peek() {
            self.i += 1;
            let mode = self.mode();
            let data = !matches!(mode, Kind::Rcdata | Kind::Rawtext | Kind::Script);
            if c == '&' && (data || mode == Kind::Rcdata) {
                match self.char_ref()? {
                    CharRef::Char(ch) => self.emit_char(ch),
                    CharRef::Literal => self.emit_char('&'),
                }
            } else if c == '<' && data {
                let Some(n) = self.peek() else {
                    self.emit_char('<'); // eof-before-tag-name: the `<` is text
                    continue;
                };
                if n == '!' {
                    self.i += 1;
                    self.markup_declaration()?;
                } else if n == '/' {
                    self.i += 1;
                    if !self.peek()?.is_ascii_alphabetic() {
                        return None;
                    }
                    self.close_tag()?;
                } else if n.is_ascii_alphabetic() {
                    self.tag()?;
                } else if n == '?' {
                    return None;
                } else {
                    // invalid-first-character-of-tag-name: the `<` is text, `n` is looked at again
                    self.emit_char('<');
                }
            } else if c == '<' {
                self.raw_lt()?;
            } else {
                self.emit_char(c);
            }
        }
        Some(())
    }
}

/// fragment parse (context: a `body`-like container, scripting enabled)
pub fn parse(input: &str) -> Option<Vec<Tree>> {
    if input.contains('\0') || input.contains('\r') {
        return None;
    }
    let mut p = P {
        s: input.chars().collect(),
        i: 0,
        stack: vec![Frame { tag: String::new(), attrs: vec![], kids: vec![] }],
    };
    p.run()?;
    if p.stack.len() != 1 {
        return None;
    }
    Some(p.stack.pop().unwrap().kids)
}

pub fn show(ts: &[Tree]) -> String {
    let mut s = String::new();
    for t in ts {
        match t {
            Tree::Text(x) => s.push_str(&format!("{:?}", x)),
            Tree::Comment(x) => s.push_str(&format!("<!--{:?}-->", x)),
            Tree::Elem { tag, attrs, kids } => {
                s.push_str(&format!("<{tag}"));
                for (n, v) in attrs {
                    s.push_str(&format!(" {n}={v:?}"));
                }
                s.push_str(&format!(">[{}]", show(kids)));
            }
        }
        s.push(',');
    }
    s
}
