//! C06 correspondence harness: real tachys `to_html()` and real leptos_meta `inject_meta_context`.
//!
//! Ops (encoding: hx_c06::enc):
//!   case <n>
//!   view <nodes>              build the views with the tachys builder API, `to_html()`
//!   head <title> <meta>*      `<Title text=…/>`, `<Meta …/>` under a `ServerMetaContext`, then
//!                             `inject_meta_context` on a one-chunk stream; observable = what ends
//!                             up between `<head>` and `</head>`
//!     <title> = `-` | `t` hex ;  <meta> = `m` kind `,` hex `,` hex, kind ∈ n p c h i
//! Output: `<hex of the emitted HTML> ## ok | fail <why>`; the verdict re-parses the *real* output
//! with the independent tokenizer/tree builder (hx_c06::html) and compares with the expected tree
//! derived from the op (hx_c06::enc::expected).
use futures::StreamExt;
use hx_c06::enc::{self, Attr, Node};
use hx_c06::html::{self, Tree};
use hx_common::*;
use leptos::prelude::*;
use leptos::tachys::html::attribute::any_attribute::{AnyAttribute, IntoAnyAttribute};
use leptos::tachys::html::attribute::custom::custom_attribute;
use leptos::tachys::html::attribute as at;
use leptos::tachys::html::class::class as class_attr;
use leptos::tachys::html::element as el;
use leptos::tachys::html::element::{custom, inner_html, ElementChild};
use leptos::tachys::html::style::style as style_attr;
use leptos::tachys::view::add_attr::AddAnyAttr;
use leptos::tachys::view::any_view::{AnyView, IntoAny};
use leptos::tachys::view::RenderHtml;
use std::panic::{catch_unwind, AssertUnwindSafe};

const MAX_KIDS: usize = 6;

fn leak(s: &str) -> &'static str {
    Box::leak(s.to_string().into_boxed_str())
}

fn build_attr(a: &Attr) -> AnyAttribute {
    match a {
        // a few typed attribute functions, the rest through `.attr(name, value)`
        Attr::Plain(n, v) => match n.as_str() {
            "id" => at::id(v.clone()).into_any_attr(),
            "href" => at::href(v.clone()).into_any_attr(),
            "title" => at::title(v.clone()).into_any_attr(),
            "alt" => at::alt(v.clone()).into_any_attr(),
            "value" => at::value(v.clone()).into_any_attr(),
            "content" => at::content(v.clone()).into_any_attr(),
            _ => custom_attribute(n.clone(), v.clone()).into_any_attr(),
        },
        Attr::Bool(n, b) => match n.as_str() {
            "hidden" => at::hidden(*b).into_any_attr(),
            _ => custom_attribute(n.clone(), *b).into_any_attr(),
        },
        Attr::Class(v) => class_attr(v.clone()).into_any_attr(),
        Attr::ClassToggle(n, b) => class_attr((leak(n), *b)).into_any_attr(),
        Attr::Style(v) => style_attr(v.clone()).into_any_attr(),
        Attr::StyleKV(n, v) => style_attr((n.clone(), v.clone())).into_any_attr(),
        Attr::InnerHtml(v) => inner_html(v.clone()).into_any_attr(),
    }
}

macro_rules! with_kids {
    ($el:expr, $kids:expr) => {{
        let el = $el;
        let mut k = $kids.into_iter();
        match k.len() {
            0 => el.into_any(),
            1 => el.child(k.next().unwrap()).into_any(),
            2 => el.child(k.next().unwrap()).child(k.next().unwrap()).into_any(),
            3 => el.child(k.next().unwrap()).child(k.next().unwrap()).child(k.next().unwrap()).into_any(),
            4 => el
                .child(k.next().unwrap())
                .child(k.next().unwrap())
                .child(k.next().unwrap())
                .child(k.next().unwrap())
                .into_any(),
            5 => el
                .child(k.next().unwrap())
                .child(k.next().unwrap())
                .child(k.next().unwrap())
                .child(k.next().unwrap())
                .child(k.next().unwrap())
                .into_any(),
            _ => el
                .child(k.next().unwrap())
                .child(k.next().unwrap())
                .child(k.next().unwrap())
                .child(k.next().unwrap())
                .child(k.next().unwrap())
                .child(k.next().unwrap())
                .into_any(),
        }
    }};
}

macro_rules! by_tag {
    ($tag:expr, $attrs:expr, $kids:expr; [$($name:ident),*]; [$($void:ident),*]) => {
        match $tag {
            $(stringify!($name) => Some(with_kids!(el::$name().add_any_attr($attrs), $kids)),)*
            $(stringify!($void) => if $kids.is_empty() { Some(el::$void().add_any_attr($attrs).into_any()) } else { None },)*
            t if html::is_custom_tag(t) => Some(with_kids!(custom(t.to_string()).add_any_attr($attrs), $kids)),
            _ => None,
        }
    };
}

fn build(n: &Node) -> Option<AnyView> {
    match n {
        Node::Text(s) => Some(s.clone().into_any()),
        Node::Elem { tag, attrs, kids } => {
            if kids.len() > MAX_KIDS {
                return None;
            }
            let attrs: Vec<AnyAttribute> = attrs.iter().map(build_attr).collect();
            let kids: Vec<AnyView> = kids.iter().map(build).collect::<Option<_>>()?;
            by_tag!(tag.as_str(), attrs, kids;
                [div, span, section, article, main, header, footer, aside, nav, blockquote, figure, label,
                 b, i, em, strong, small, code, p, a, h1, h2, h3, button,
                 title, textarea, script, style, noscript];
                [area, base, br, col, embed, hr, img, input, link, meta, source, track, wbr])
        }
    }
}

fn render_view(nodes: &[Node]) -> Option<String> {
    if nodes.len() > MAX_KIDS {
        return None;
    }
    let views: Vec<AnyView> = nodes.iter().map(build).collect::<Option<_>>()?;
    let mut k = views.into_iter();
    // a tuple of views, as a fragment / component body is
    Some(match k.len() {
        0 => String::new(),
        1 => (k.next().unwrap(),).to_html(),
        2 => (k.next().unwrap(), k.next().unwrap()).to_html(),
        3 => (k.next().unwrap(), k.next().unwrap(), k.next().unwrap()).to_html(),
        4 => (k.next().unwrap(), k.next().unwrap(), k.next().unwrap(), k.next().unwrap()).to_html(),
        5 => (k.next().unwrap(), k.next().unwrap(), k.next().unwrap(), k.next().unwrap(), k.next().unwrap())
            .to_html(),
        _ => (
            k.next().unwrap(),
            k.next().unwrap(),
            k.next().unwrap(),
            k.next().unwrap(),
            k.next().unwrap(),
            k.next().unwrap(),
        )
            .to_html(),
    })
}

#[derive(Clone, Debug)]
struct MetaOp {
    kind: char,
    a: String,
    b: String,
}

const SHELL_PRE: &str = "<!DOCTYPE html><html><head>";
const SHELL_POST: &str = "</head><body></body></html>";

/// the real leptos_meta SSR path: components register into the ServerMetaContext while the body
/// renders; the integration then calls `inject_meta_context` on the HTML stream
fn render_head(title: &Option<String>, metas: &[MetaOp]) -> Option<String> {
    let owner = Owner::new();
    let chunk = owner.with(|| {
        let (ctx, output) = leptos_meta::ServerMetaContext::new();
        provide_context(ctx);
        let mut body = String::new();
        if let Some(t) = title {
            let v = leptos_meta::Title(leptos_meta::TitleProps::builder().text(t.clone()).build());
            body.push_str(&v.into_view().to_html());
        }
        for m in metas {
            let (a, b) = (m.a.clone(), m.b.clone());
            let props = match m.kind {
                'n' => leptos_meta::MetaProps::builder().name(a).content(b).build(),
                'p' => leptos_meta::MetaProps::builder().property(a).content(b).build(),
                'c' => leptos_meta::MetaProps::builder().charset(a).build(),
                'h' => leptos_meta::MetaProps::builder().http_equiv(a).content(b).build(),
                _ => leptos_meta::MetaProps::builder().itemprop(a).content(b).build(),
            };
            body.push_str(&leptos_meta::Meta(props).into_view().to_html());
        }
        // the app shell's first chunk: <MetaTags/> renders the marker
        let shell = format!("{SHELL_PRE}<!--HEAD-->{SHELL_POST}");
        debug_assert!(body.is_empty());
        let stream = futures::stream::iter(vec![shell]);
        futures::executor::block_on(async move {
            output.inject_meta_context(stream).await.collect::<Vec<String>>().await.concat()
        })
    });
    let inner = chunk.strip_prefix(SHELL_PRE)?.strip_suffix(SHELL_POST)?;
    Some(inner.to_string())
}

fn meta_node(m: &MetaOp) -> Node {
    let p = |n: &str, v: &String| Attr::Plain(n.into(), v.clone());
    let attrs = match m.kind {
        'n' => vec![p("name", &m.a), p("content", &m.b)],
        'p' => vec![p("property", &m.a), p("content", &m.b)],
        'c' => vec![p("charset", &m.a)],
        'h' => vec![p("http-equiv", &m.a), p("content", &m.b)],
        _ => vec![p("itemprop", &m.a), p("content", &m.b)],
    };
    Node::Elem { tag: "meta".into(), attrs, kids: vec![] }
}

fn expected_head(title: &Option<String>, metas: &[MetaOp]) -> Vec<Tree> {
    let mut out = vec![];
    if let Some(t) = title {
        let kids = if t.is_empty() { vec![] } else { vec![Tree::Text(t.clone())] };
        out.push(Tree::Elem { tag: "title".into(), attrs: vec![], kids });
    }
    out.push(Tree::Comment("HEAD".into()));
    out.extend(enc::expected(&metas.iter().map(meta_node).collect::<Vec<_>>()));
    out
}

fn verdict(html_out: &str, want: &[Tree]) -> String {
    match html::parse(html_out) {
        Some(got) if got == want => "ok".into(),
        Some(_) => "fail structure-differs".into(),
        None => "fail not-in-subset".into(),
    }
}

fn unhex_field(h: &str) -> Option<String> {
    if h.is_empty() {
        Some(String::new())
    } else {
        unhex_str(h)
    }
}

fn parse_meta(w: &str) -> Option<MetaOp> {
    let mut cs = w.chars();
    if cs.next()? != 'm' {
        return None;
    }
    let kind = cs.next()?;
    if !"npchi".contains(kind) {
        return None;
    }
    let rest = cs.as_str().strip_prefix(',')?;
    let (a, b) = rest.split_once(',')?;
    if b.contains(',') {
        return None;
    }
    Some(MetaOp { kind, a: unhex_field(a)?, b: unhex_field(b)? })
}

fn op(line: &str, tags: &std::collections::HashMap<String, String>) -> String {
    let w: Vec<&str> = line.split_whitespace().collect();
    match w.as_slice() {
        ["case", n] => match tags.get(*n) {
            Some(t) if !t.is_empty() => format!("case {n} tags={t}"),
            _ => format!("case {n}"),
        },
        ["view", e] => {
            let Some(nodes) = enc::decode(e) else { return "bad-op".into() };
            match catch_unwind(AssertUnwindSafe(|| render_view(&nodes))) {
                Ok(Some(out)) => format!("{} ## {}", hex(out.as_bytes()), verdict(&out, &enc::expected(&nodes))),
                Ok(None) => "bad-op".into(),
                Err(_) => "panic ## fail panic".into(),
            }
        }
        ["head", t, ms @ ..] => {
            let title = if *t == "-" {
                None
            } else if let Some(h) = t.strip_prefix('t') {
                let Some(s) = unhex_field(h) else { return "bad-op".into() };
                Some(s)
            } else {
                return "bad-op".into();
            };
            let Some(metas) = ms.iter().map(|m| parse_meta(m)).collect::<Option<Vec<_>>>() else {
                return "bad-op".into();
            };
            match catch_unwind(AssertUnwindSafe(|| render_head(&title, &metas))) {
                Ok(Some(out)) => {
                    format!("{} ## {}", hex(out.as_bytes()), verdict(&out, &expected_head(&title, &metas)))
                }
                Ok(None) => "shell-lost ## fail shell-lost".into(),
                Err(_) => "panic ## fail panic".into(),
            }
        }
        _ => "bad-op".into(),
    }
}

// ---------------------------------------------------------------- generator

const HOSTILE: &[&str] = &[
    "<", ">", "&", "\"", "'", "/", "=", "`", "\u{a0}", "<!--", "-->", "]]>", "<![CDATA[", "</script", "</script>",
    "</title>", "</title", "</textarea>", "</style>", "</noscript>", "&amp;", "&#x3c;", "&lt", "&#60;", "&quot;",
    "é", "日本", "😀", "\u{2028}", " ", "\n", "\t", "a", "b", "x=1", "<b>", "<img src=x onerror=alert(1)>", "<!>",
    "<!", "</", "<?", "javascript:", "\u{feff}", "\u{1}", "\u{7f}", "\u{85}", "\u{fffd}", "--", "-", "!", ";", "#",
    "&#", "&a", "& ", "\u{3000}", "\u{10ffff}", "\u{e000}", "<script>", "<a href=\"", "\" onload=\"", "' x='",
    "\u{c}", "&gt", "<p>", "</div>", "<textarea>",
];
const DIRTY: &[&str] = &["\0", "\r", "\r\n", "a\0b", "\0<"];
const BENIGN: &[&str] = &["a", "b", "hello", "x1", "z", "ok", "var a=1;", "p{color:red}", " ", "A", "é", "日本"];

fn pk(r: &mut Rng, xs: &[&'static str]) -> &'static str {
    xs[r.below(xs.len())]
}

struct Ctx {
    raw_text: bool, // may raw-text elements get string children?
    dirty: bool,    // may strings contain NUL / CR?
    tags: std::collections::BTreeSet<String>,
}

fn gen_str(r: &mut Rng, c: &mut Ctx) -> String {
    let mut s = String::new();
    match r.below(10) {
        0 => {} // empty
        1 | 2 => s.push_str(pk(r, BENIGN)),
        3 => {
            // arbitrary scalar values
            for _ in 0..r.range(1, 4) {
                let cp = match r.below(4) {
                    0 => r.range(0x20, 0x7e) as u32,
                    1 => r.range(0xa0, 0x7ff) as u32,
                    2 => r.range(0x800, 0xffff) as u32,
                    _ => r.range(0x10000, 0x10ffff) as u32,
                };
                s.push(char::from_u32(cp).unwrap_or('\u{fffd}'));
            }
            c.tags.insert("unicode".into());
        }
        _ => {
            for _ in 0..r.range(1, 3) {
                if c.dirty && r.chance(1, 3) {
                    let d = pk(r, DIRTY);
                    c.tags.insert(if d.contains('\0') { "nul".into() } else { "cr".into() });
                    s.push_str(d);
                } else {
                    s.push_str(pk(r, HOSTILE));
                }
            }
            c.tags.insert("hostile".into());
        }
    }
    if s.is_empty() {
        c.tags.insert("empty-str".into());
    }
    s
}

const ATTR_NAMES: &[&str] =
    &["id", "title", "href", "value", "alt", "lang", "data-x", "aria-label", "name", "content", "xlink:href", "data_y"];
const BOOL_NAMES: &[&str] = &["hidden", "disabled", "checked"];
const GENERIC: &[&str] = html::GENERIC;
const CUSTOM: &[&str] = &["x-foo", "my-el2"];
const VOIDS: &[&str] = &["br", "hr", "img", "input", "meta", "link", "wbr", "source", "area", "embed", "track", "base"];
const RAWS: &[&str] = &["textarea", "script", "style", "noscript"];
const INNER: &[&str] = &["<b>x</b>", "a &amp; b", "<span class=\"q\">t</span><!--c-->", "plain", "<i>1</i><i>2</i>"];

fn gen_attrs(r: &mut Rng, c: &mut Ctx, allow_inner: bool) -> Vec<Attr> {
    let mut out = vec![];
    let mut used: Vec<&str> = vec![];
    for _ in 0..r.below(4) {
        match r.below(9) {
            0 | 1 | 2 => {
                let n = pk(r, ATTR_NAMES);
                if used.contains(&n) {
                    continue;
                }
                used.push(n);
                out.push(Attr::Plain(n.into(), gen_str(r, c)));
                c.tags.insert("attr".into());
            }
            3 => {
                let n = pk(r, BOOL_NAMES);
                if used.contains(&n) {
                    continue;
                }
                used.push(n);
                out.push(Attr::Bool(n.into(), r.chance(2, 3)));
                c.tags.insert("bool-attr".into());
            }
            4 => {
                out.push(Attr::Class(gen_str(r, c)));
                c.tags.insert("class".into());
            }
            5 => {
                out.push(Attr::ClassToggle(gen_str(r, c), r.chance(2, 3)));
                c.tags.insert("class-toggle".into());
            }
            6 => {
                out.push(Attr::Style(gen_str(r, c)));
                c.tags.insert("style".into());
            }
            7 => {
                out.push(Attr::StyleKV(pk(r, &["color", "--v", "width"]).to_string(), gen_str(r, c)));
                c.tags.insert("style-kv".into());
            }
            _ => {
                if allow_inner && !out.iter().any(|a| matches!(a, Attr::InnerHtml(_))) {
                    out.push(Attr::InnerHtml(pk(r, INNER).to_string()));
                    c.tags.insert("inner-html".into());
                }
            }
        }
    }
    out
}

fn gen_kids(r: &mut Rng, c: &mut Ctx, depth: usize, anc: &mut Vec<&'static str>, max: usize) -> Vec<Node> {
    let n = r.below(max + 1);
    let mut out: Vec<Node> = vec![];
    for _ in 0..n {
        let last_text = matches!(out.last(), Some(Node::Text(_)));
        let pick = if depth == 0 { r.below(4) } else { r.below(10) };
        match pick {
            0..=3 => {
                if last_text {
                    c.tags.insert("adjacent-text".into());
                }
                out.push(Node::Text(gen_str(r, c)));
                c.tags.insert("text".into());
            }
            4..=6 => {
                let tag: &'static str = if r.chance(1, 8) { pk(r, CUSTOM) } else { pk(r, GENERIC) };
                let a: Vec<&str> = anc.iter().rev().copied().collect();
                if !html::nest_ok(tag, &a) {
                    continue;
                }
                let inner = r.chance(1, 10);
                let attrs = gen_attrs(r, c, inner);
                let has_inner = attrs.iter().any(|a| matches!(a, Attr::InnerHtml(_)));
                anc.push(tag);
                let kids = if has_inner { vec![] } else { gen_kids(r, c, depth - 1, anc, 4) };
                anc.pop();
                if html::is_custom_tag(tag) {
                    c.tags.insert("custom-el".into());
                }
                c.tags.insert(format!("depth{}", 5 - depth));
                out.push(Node::Elem { tag: tag.into(), attrs, kids });
            }
            7 => {
                let tag = pk(r, VOIDS);
                let a: Vec<&str> = anc.iter().rev().copied().collect();
                if !html::nest_ok(tag, &a) {
                    continue;
                }
                c.tags.insert("void".into());
                out.push(Node::Elem { tag: tag.into(), attrs: gen_attrs(r, c, false), kids: vec![] });
            }
            8 => {
                let tag = pk(r, RAWS);
                let attrs = gen_attrs(r, c, false);
                let kids: Vec<Node> = if c.raw_text {
                    c.tags.insert("raw-text-child".into());
                    (0..r.range(1, 2)).map(|_| Node::Text(gen_str(r, c))).collect()
                } else if r.chance(1, 3) {
                    // harmless content: exercised on the passing side
                    c.tags.insert("raw-benign-child".into());
                    vec![Node::Text(pk(r, &["a", "var a=1;", "p{color:red}", "x y"]).to_string())]
                } else {
                    vec![]
                };
                c.tags.insert("raw-el".into());
                out.push(Node::Elem { tag: tag.into(), attrs, kids });
            }
            _ => {
                let kids = if r.chance(3, 4) { vec![Node::Text(gen_str(r, c))] } else { vec![] };
                c.tags.insert("title-el".into());
                out.push(Node::Elem { tag: "title".into(), attrs: gen_attrs(r, c, false), kids });
            }
        }
    }
    out
}

fn small_scope() -> Vec<(String, String)> {
    // every hostile atom in every kind of string position
    let mut out = vec![];
    let el = |tag: &str, attrs: Vec<Attr>, kids: Vec<Node>| Node::Elem { tag: tag.into(), attrs, kids };
    for (i, a) in HOSTILE.iter().chain(DIRTY.iter()).enumerate() {
        let s = a.to_string();
        let t = || Node::Text(s.clone());
        let views: Vec<(&str, Vec<Node>)> = vec![
            ("text", vec![el("div", vec![], vec![t()])]),
            ("adjacent-text", vec![el("p", vec![], vec![t(), t(), Node::Text(String::new()), t()])]),
            ("attr", vec![el("a", vec![Attr::Plain("href".into(), s.clone())], vec![])]),
            ("attr", vec![el("input", vec![Attr::Plain("value".into(), s.clone()), Attr::Bool("disabled".into(), true)], vec![])]),
            ("class", vec![el("span", vec![Attr::Class(s.clone()), Attr::ClassToggle(s.clone(), true), Attr::Class("k".into())], vec![])]),
            ("style", vec![el("div", vec![Attr::Style(s.clone()), Attr::StyleKV("color".into(), s.clone())], vec![])]),
            ("title-el", vec![el("title", vec![], vec![t()])]),
            ("raw-text-child", vec![el("textarea", vec![], vec![t()])]),
            ("raw-text-child", vec![el("script", vec![], vec![t()])]),
            ("raw-text-child", vec![el("style", vec![], vec![t()])]),
            ("raw-text-child", vec![el("noscript", vec![], vec![t()])]),
            ("custom-el", vec![el("x-foo", vec![Attr::Plain("data-x".into(), s.clone())], vec![t()]), t()]),
        ];
        for (j, (tag, v)) in views.into_iter().enumerate() {
            out.push((format!("case ss{i}-{j}\nview {}", enc::encode(&v)), format!("small-scope,{tag}")));
        }
        out.push((format!("case ssh{i}\nhead t{} mn,{},{} mc,{},", enc::hx(&s), enc::hx(&s), enc::hx(&s), enc::hx(&s)), "small-scope,head-title,meta".into()));
    }
    out
}

fn gen(seed: u64, n: usize, path: &str) -> std::io::Result<()> {
    use std::io::Write;
    let mut r = Rng::new(seed);
    let mut f = std::io::BufWriter::new(std::fs::File::create(path)?);
    for (ops, _) in small_scope() {
        writeln!(f, "{ops}")?;
    }
    for i in 0..n {
        let mut c = Ctx { raw_text: r.chance(1, 6), dirty: r.chance(1, 8), tags: Default::default() };
        writeln!(f, "case {i}")?;
        if r.chance(1, 6) {
            // head
            let title = match r.below(4) {
                0 => None,
                1 => Some(pk(&mut r, BENIGN).to_string()),
                _ => Some(gen_str(&mut r, &mut c)),
            };
            let mut line = String::from("head ");
            match &title {
                None => line.push('-'),
                Some(t) => {
                    c.tags.insert("head-title".into());
                    line.push('t');
                    line.push_str(&enc::hx(t));
                }
            }
            for _ in 0..r.below(4) {
                let k = *r.pick(&['n', 'p', 'c', 'h', 'i']);
                let a = if r.chance(1, 2) { pk(&mut r, &["description", "og:title", "utf-8", "refresh"]).to_string() } else { gen_str(&mut r, &mut c) };
                let b = if k == 'c' { String::new() } else { gen_str(&mut r, &mut c) };
                line.push_str(&format!(" m{k},{},{}", enc::hx(&a), enc::hx(&b)));
                c.tags.insert("meta".into());
            }
            c.tags.insert("head".into());
            writeln!(f, "{line}")?;
        } else {
            let mut anc: Vec<&'static str> = vec![];
            let mut v = gen_kids(&mut r, &mut c, 4, &mut anc, 3);
            if v.is_empty() {
                v.push(Node::Text(gen_str(&mut r, &mut c)));
                c.tags.insert("text".into());
            }
            writeln!(f, "view {}", enc::encode(&v))?;
        }
    }
    f.flush()
}

fn str_tags(s: &str, t: &mut std::collections::BTreeSet<String>) {
    if s.is_empty() {
        t.insert("empty-str".into());
    }
    if s.contains('\0') {
        t.insert("nul".into());
    }
    if s.contains('\r') {
        t.insert("cr".into());
    }
    if s.chars().any(|c| "<>&\"'/=`".contains(c)) {
        t.insert("markup-chars".into());
    }
    if s.contains("</") || s.contains("<!--") || s.contains("-->") || s.contains("]]>") {
        t.insert("closers".into());
    }
    if s.contains("&#") || s.contains("&amp") || s.contains("&lt") || s.contains("&gt") || s.contains("&quot") {
        t.insert("entity-like".into());
    }
    if !s.is_ascii() {
        t.insert("non-ascii".into());
    }
}

fn node_tags(nodes: &[Node], depth: usize, t: &mut std::collections::BTreeSet<String>) {
    let mut prev_text = false;
    for n in nodes {
        match n {
            Node::Text(s) => {
                t.insert("text".into());
                if prev_text {
                    t.insert("adjacent-text".into());
                }
                str_tags(s, t);
                prev_text = true;
            }
            Node::Elem { tag, attrs, kids } => {
                prev_text = false;
                t.insert(format!("depth{}", depth + 1));
                if enc::TACHYS_VOID.contains(&tag.as_str()) {
                    t.insert("void".into());
                } else if enc::TACHYS_RAW.contains(&tag.as_str()) {
                    t.insert("raw-el".into());
                    if kids.iter().any(|k| matches!(k, Node::Text(_))) {
                        t.insert("raw-text-child".into());
                    }
                } else if tag == "title" {
                    t.insert("title-el".into());
                } else if html::is_custom_tag(tag) {
                    t.insert("custom-el".into());
                }
                for a in attrs {
                    let (k, ss): (&str, Vec<&String>) = match a {
                        Attr::Plain(_, v) => ("attr", vec![v]),
                        Attr::Bool(..) => ("bool-attr", vec![]),
                        Attr::Class(v) => ("class", vec![v]),
                        Attr::ClassToggle(n, _) => ("class-toggle", vec![n]),
                        Attr::Style(v) => ("style", vec![v]),
                        Attr::StyleKV(_, v) => ("style-kv", vec![v]),
                        Attr::InnerHtml(_) => ("inner-html", vec![]),
                    };
                    t.insert(k.into());
                    for s in ss {
                        str_tags(s, t);
                    }
                }
                node_tags(kids, depth + 1, t);
            }
        }
    }
}

fn tags_of_op(w: &[&str]) -> String {
    let mut t = std::collections::BTreeSet::new();
    match w {
        ["view", e] => {
            if let Some(nodes) = enc::decode(e) {
                node_tags(&nodes, 0, &mut t);
            }
        }
        ["head", title, ms @ ..] => {
            t.insert("head".into());
            if let Some(h) = title.strip_prefix('t') {
                t.insert("head-title".into());
                if let Some(s) = unhex_field(h) {
                    str_tags(&s, &mut t);
                }
            }
            for m in ms {
                if let Some(m) = parse_meta(m) {
                    t.insert("meta".into());
                    str_tags(&m.a, &mut t);
                    str_tags(&m.b, &mut t);
                }
            }
        }
        _ => {}
    }
    // a case is trivial (`plain`) when no string in it carries anything a parser could react to
    let interesting = ["markup-chars", "closers", "entity-like", "nul", "cr", "empty-str", "non-ascii", "adjacent-text"];
    if !t.iter().any(|x| interesting.contains(&x.as_str())) {
        return "plain".into();
    }
    t.into_iter().collect::<Vec<_>>().join(",")
}

fn main() {
    match parse_cli() {
        Cmd::Gen { seed, n, ops, .. } => gen(seed, n, &ops).unwrap(),
        Cmd::Run { ops, out } => {
            quiet_panics();
            // first pass: tags of a case are derived from its op (positions and shapes hit)
            let mut tags = std::collections::HashMap::new();
            let text = std::fs::read_to_string(&ops).unwrap();
            let mut cur: Option<String> = None;
            for l in text.lines() {
                let w: Vec<&str> = l.split_whitespace().collect();
                match w.as_slice() {
                    ["case", n] => cur = Some(n.to_string()),
                    _ => {
                        if let Some(n) = &cur {
                            let t = tags_of_op(&w);
                            let e: &mut String = tags.entry(n.clone()).or_default();
                            if !e.is_empty() && !t.is_empty() {
                                e.push(',');
                            }
                            e.push_str(&t);
                        }
                    }
                }
            }
            run_ops(&ops, &out, |l| op(l, &tags)).unwrap()
        }
    }
}
