use leptos::prelude::*;
use leptos::tachys::html::element::*;
use leptos::tachys::view::RenderHtml;
fn main() {
    let s = "</textarea><img src=x onerror=alert(1)>".to_string();
    println!("{}", textarea().child(s.clone()).to_html());
    println!("{}", noscript().child(s.clone()).to_html());
    println!("{}", title().child(s.clone()).to_html());
    println!("{}", div().child(("a".to_string(), "".to_string(), "b<&>\"'".to_string(), span().child("x"), "y")).to_html());
    println!("{}", div().class("a\" b").class(" c ").style("x:y").style(("color", "r\"ed".to_string())).attr("data-x", "1\"<>&'").attr("hidden", true).to_html());
}
