//! C06 correspondence harness: real tachys `to_html()` and real leptos_meta `inject_meta_context`.
//!
//! Ops (encoding: hx_c06::enc):
//!   case <n>
//!   view <nodes>              build the views with the tachys builder API, `to_html()`
//!   head <title> <meta>*      `<Title text=…/>`, `<Meta …/>` under a `ServerMetaContext`, then
//!                             `inject_meta_context` on a one-chunk stream; observable = what ends
//!                             up between `<head>` and `</head>`
//!     <title> = `-` | `t` hex ;  <meta> = `m` kind `,` hex `,` hex, kind ∈ n p c h i
//!   doc <item>*               every leptos_meta component under a `ServerMetaContext`, then
//!                             `inject_meta_context` on the shell `<!DOCTYPE html><html><head><!--HEAD--></head>
//!                             <body></body></html>`; observable = the whole first chunk. Items: `T`hex Title
//!                             text, `F`hex,hex Title formatter (prefix,suffix), `m`… Meta, `l`k=hex,… Link,
//!                             `y`k=hex,…|child Style, `j`k=hex,…|child Script (child `-` | `c`hex),
//!                             `k`hex,(`-`|`i`hex) Stylesheet, `H`attrs`>` <Html/>, `B`attrs`>` <Body/>
//! Output: `<hex of the emitted HTML> ## ok | fail <why>`; the verdict re-parses the *real* output
//! with the independent tokenizer/tree builder (hx_c06::html) and compares with the expected tree
//! derived from the op (hx_c06::enc::expected).
use futures::StreamExt;
use hx_c06::enc::{self, Attr, Node, Ty};
use hx_c06::html::{self, Tree};
use hx_common::sched;
use hx_common::*;
use leptos::either::Either;
use leptos::oco::Oco;
use leptos::text_prop::TextProp;
use leptos::prelude::*;
use leptos::tachys::html::attribute::any_attribute::{AnyAttribute, IntoAnyAttribute};
use leptos::tachys::html::attribute::custom::custom_attribute;
use leptos::tachys::html::attribute as at;
use leptos::tachys::html::class::class as class_attr;
use leptos::tachys::html::element as el;
use leptos::tachys::html::element::{custom, inner_html, ElementChild};
use leptos::tachys::html::islands::{Island, IslandChildren};
use leptos::tachys::html::style::style as style_attr;
use leptos::tachys::view::add_attr::AddAnyAttr;
use leptos::tachys::view::any_view::{AnyView, IntoAny};
use leptos::tachys::view::fragment::Fragment;
use leptos::tachys::view::iterators::StaticVec;
use leptos::tachys::view::RenderHtml;
use std::borrow::Cow;
use std::net::{IpAddr, Ipv4Addr, Ipv6Addr, SocketAddr};
use std::num::{NonZeroI32, NonZeroU64, NonZeroU8, NonZeroUsize};
use std::panic::{catch_unwind, AssertUnwindSafe};
use std::sync::Arc;

const MAX_KIDS: usize = 8;

fn leak(s: &str) -> &'static str {
    Box::leak(s.to_string().into_boxed_str())
}

fn opt<T>(v: T, none: bool) -> Option<T> {
    if none {
        None
    } else {
        Some(v)
    }
}

/// `$m!(name Type, …)` over the primitives that are both views (view/primitives.rs) and attribute
/// values (attribute/value.rs `render_primitive!`); `bool` is a view only
macro_rules! for_prims {
    ($m:ident) => {
        $m!("u8" u8, "u16" u16, "u32" u32, "u64" u64, "u128" u128, "usize" usize, "i8" i8, "i16" i16,
            "i32" i32, "i64" i64, "i128" i128, "isize" isize, "f32" f32, "f64" f64, "char" char,
            "IpAddr" IpAddr, "Ipv4Addr" Ipv4Addr, "Ipv6Addr" Ipv6Addr, "SocketAddr" SocketAddr,
            "NonZeroU8" NonZeroU8, "NonZeroI32" NonZeroI32, "NonZeroU64" NonZeroU64,
            "NonZeroUsize" NonZeroUsize);
    };
}

/// the op carries the `Display` text; the typed value must print back to exactly that text
fn parse_prim<T: std::str::FromStr + ToString>(s: &str) -> Option<T> {
    let v: T = s.parse().ok()?;
    if v.to_string() == s {
        Some(v)
    } else {
        None
    }
}

macro_rules! def_prim_child {
    ($($name:literal $t:ty),*) => {
        fn prim_child(ty: &str, s: &str) -> Option<AnyView> {
            match ty {
                $($name => Some(parse_prim::<$t>(s)?.into_any()),)*
                "bool" => Some(parse_prim::<bool>(s)?.into_any()),
                _ => None,
            }
        }
    };
}
for_prims!(def_prim_child);

macro_rules! def_plain_attr {
    ($($name:literal $t:ty),*) => {
        /// `.attr(name, value)` with the value of the type the op names (`Option<…>` for `?` / `-`)
        fn plain_attr(n: &str, v: &str, t: &Ty) -> Option<AnyAttribute> {
            let name = n.to_string();
            let none = t.opt == '-';
            macro_rules! mk {
                ($val:expr) => {{
                    let val = $val;
                    Some(if t.opt == '=' {
                        custom_attribute(name, val).into_any_attr()
                    } else {
                        custom_attribute(name, opt(val, none)).into_any_attr()
                    })
                }};
            }
            match t.ty.as_str() {
                // a few typed attribute functions, the rest through `.attr(name, value)`
                "String" if t.opt == '=' => Some(match n {
                    "id" => at::id(v.to_string()).into_any_attr(),
                    "href" => at::href(v.to_string()).into_any_attr(),
                    "title" => at::title(v.to_string()).into_any_attr(),
                    "alt" => at::alt(v.to_string()).into_any_attr(),
                    "value" => at::value(v.to_string()).into_any_attr(),
                    "content" => at::content(v.to_string()).into_any_attr(),
                    _ => custom_attribute(name, v.to_string()).into_any_attr(),
                }),
                "String" => mk!(v.to_string()),
                "str" => mk!(leak(v)),
                "refString" => {
                    let r: &'static String = Box::leak(Box::new(v.to_string()));
                    mk!(r)
                }
                "Arc" => mk!(Arc::<str>::from(v)),
                "Oco" => mk!(Oco::<'static, str>::from(v.to_string())),
                "OcoB" => mk!(Oco::<'static, str>::Borrowed(leak(v))),
                "OcoC" => mk!(Oco::<'static, str>::Counted(Arc::<str>::from(v))),
                // TextProp (what `#[prop(into)] TextProp` component props hold): from a literal, a String, a closure
                "TpL" if t.opt == '=' => Some(custom_attribute(name, TextProp::from(leak(v)).into_attribute_value()).into_any_attr()),
                "TpS" if t.opt == '=' => Some(custom_attribute(name, TextProp::from(v.to_string()).into_attribute_value()).into_any_attr()),
                "TpF" if t.opt == '=' => {
                    let s = v.to_string();
                    Some(custom_attribute(name, TextProp::from(move || s.clone()).into_attribute_value()).into_any_attr())
                }
                "fn" => {
                    let s = v.to_string();
                    mk!(move || s.clone())
                }
                "typedchar" if t.opt == '=' => Some(at::value(parse_prim::<char>(v)?).into_any_attr()),
                $($name => mk!(parse_prim::<$t>(v)?),)*
                _ => None,
            }
        }
    };
}
for_prims!(def_plain_attr);

fn build_attr(a: &Attr) -> Option<AnyAttribute> {
    Some(match a {
        Attr::Plain(n, v, t) => plain_attr(n, v, t)?,
        Attr::Bool(n, b) => match n.as_str() {
            "hidden" => at::hidden(*b).into_any_attr(),
            _ => custom_attribute(n.clone(), *b).into_any_attr(),
        },
        Attr::Class(v, t) => {
            let none = t.opt == '-';
            macro_rules! mk {
                ($val:expr) => {{
                    let val = $val;
                    if t.opt == '=' {
                        class_attr(val).into_any_attr()
                    } else {
                        class_attr(opt(val, none)).into_any_attr()
                    }
                }};
            }
            match t.ty.as_str() {
                "String" => mk!(v.clone()),
                "str" => mk!(leak(v)),
                "Arc" => mk!(Arc::<str>::from(v.as_str())),
                "Cow" => mk!(Cow::<'static, str>::Owned(v.clone())),
                "CowB" => mk!(Cow::<'static, str>::Borrowed(leak(v))),
                "Oco" => mk!(Oco::<'static, str>::from(v.clone())),
                "OcoB" => mk!(Oco::<'static, str>::Borrowed(leak(v))),
                "OcoC" => mk!(Oco::<'static, str>::Counted(Arc::<str>::from(v.as_str()))),
                "fn" => {
                    let s = v.clone();
                    mk!(move || s.clone())
                }
                _ => return None,
            }
        }
        Attr::ClassToggle(n, b, false) => class_attr((leak(n), *b)).into_any_attr(),
        Attr::ClassToggle(n, b, true) => {
            let b = *b;
            class_attr((leak(n), move || b)).into_any_attr()
        }
        Attr::Style(v, t) => {
            let none = t.opt == '-';
            macro_rules! mk {
                ($val:expr) => {{
                    let val = $val;
                    if t.opt == '=' {
                        style_attr(val).into_any_attr()
                    } else {
                        style_attr(opt(val, none)).into_any_attr()
                    }
                }};
            }
            match t.ty.as_str() {
                "String" => mk!(v.clone()),
                "str" => mk!(leak(v)),
                "Arc" => mk!(Arc::<str>::from(v.as_str())),
                "Oco" => mk!(Oco::<'static, str>::from(v.clone())),
                "OcoB" => mk!(Oco::<'static, str>::Borrowed(leak(v))),
                "OcoC" => mk!(Oco::<'static, str>::Counted(Arc::<str>::from(v.as_str()))),
                "fn" => {
                    let s = v.clone();
                    mk!(move || s.clone())
                }
                _ => return None,
            }
        }
        Attr::StyleKV(n, v, t) => {
            let none = t.opt == '-';
            let name = n.clone();
            macro_rules! mk {
                ($val:expr) => {{
                    let val = $val;
                    if t.opt == '=' {
                        style_attr((name, val)).into_any_attr()
                    } else {
                        style_attr((name, opt(val, none))).into_any_attr()
                    }
                }};
            }
            match t.ty.as_str() {
                "String" => mk!(v.clone()),
                "str" => mk!(leak(v)),
                "Arc" => mk!(Arc::<str>::from(v.as_str())),
                "Oco" => mk!(Oco::<'static, str>::from(v.clone())),
                "OcoB" => mk!(Oco::<'static, str>::Borrowed(leak(v))),
                "OcoC" => mk!(Oco::<'static, str>::Counted(Arc::<str>::from(v.as_str()))),
                "fn" if t.opt == '=' => {
                    let s = v.clone();
                    style_attr((name, move || s.clone())).into_any_attr()
                }
                _ => return None,
            }
        }
        Attr::InnerHtml(v, t) => {
            let none = t.opt == '-';
            macro_rules! mk {
                ($val:expr) => {{
                    let val = $val;
                    if t.opt == '=' {
                        inner_html(val).into_any_attr()
                    } else {
                        inner_html(opt(val, none)).into_any_attr()
                    }
                }};
            }
            match t.ty.as_str() {
                "String" => mk!(v.clone()),
                "str" => mk!(leak(v)),
                "Arc" => mk!(Arc::<str>::from(v.as_str())),
                _ => return None,
            }
        }
    })
}

macro_rules! with_kids {
    ($el:expr, $kids:expr) => {{
        let el = $el;
        let mut k = $kids.into_iter();
        match k.len() {
            0 => el.into_any(),
            1 => el.child(k.next().unwrap()).into_any(),
            2 => el.child(k.next().unwrap()).child(k.next().unwrap()).into_any(),
            3 => el.child(k.next().unwrap()).child(k.next().unwrap()).child(k.next().unwrap()).into_any(),
            4 => el
                .child(k.next().unwrap())
                .child(k.next().unwrap())
                .child(k.next().unwrap())
                .child(k.next().unwrap())
                .into_any(),
            5 => el
                .child(k.next().unwrap())
                .child(k.next().unwrap())
                .child(k.next().unwrap())
                .child(k.next().unwrap())
                .child(k.next().unwrap())
                .into_any(),
            6 => el
                .child(k.next().unwrap())
                .child(k.next().unwrap())
                .child(k.next().unwrap())
                .child(k.next().unwrap())
                .child(k.next().unwrap())
                .child(k.next().unwrap())
                .into_any(),
            7 => el
                .child(k.next().unwrap())
                .child(k.next().unwrap())
                .child(k.next().unwrap())
                .child(k.next().unwrap())
                .child(k.next().unwrap())
                .child(k.next().unwrap())
                .child(k.next().unwrap())
                .into_any(),
            _ => el
                .child(k.next().unwrap())
                .child(k.next().unwrap())
                .child(k.next().unwrap())
                .child(k.next().unwrap())
                .child(k.next().unwrap())
                .child(k.next().unwrap())
                .child(k.next().unwrap())
                .child(k.next().unwrap())
                .into_any(),
        }
    }};
}

macro_rules! by_tag {
    ($tag:expr, $attrs:expr, $kids:expr; [$($name:ident),*]; [$($void:ident),*]) => {
        match $tag {
            $(stringify!($name) => Some(with_kids!(el::$name().add_any_attr($attrs), $kids)),)*
            $(stringify!($void) => if $kids.is_empty() { Some(el::$void().add_any_attr($attrs).into_any()) } else { None },)*
            t if html::is_custom_tag(t) => Some(with_kids!(custom(t.to_string()).add_any_attr($attrs), $kids)),
            _ => None,
        }
    };
}

/// a child of a string type
fn text_child(ty: &str, s: &str) -> Option<AnyView> {
    Some(match ty {
        "String" => s.to_string().into_any(),
        "str" => leak(s).into_any(),
        "Arc" => Arc::<str>::from(s).into_any(),
        "Cow" => Cow::<'static, str>::Owned(s.to_string()).into_any(),
        "CowB" => Cow::<'static, str>::Borrowed(leak(s)).into_any(),
        "Oco" => Oco::<'static, str>::from(s.to_string()).into_any(),
        "OcoB" => Oco::<'static, str>::Borrowed(leak(s)).into_any(),
        "OcoC" => Oco::<'static, str>::Counted(Arc::<str>::from(s)).into_any(),
        "fn" => {
            let s = s.to_string();
            (move || s.clone()).into_any()
        }
        _ => return None,
    })
}

/// a typed child container around its typed items
fn cont<T>(kind: char, items: Vec<T>) -> Option<AnyView>
where
    T: RenderHtml + Send + 'static,
{
    let n = items.len();
    let mut it = items.into_iter();
    let mut nx = move || it.next().unwrap();
    Some(match kind {
        'V' => {
            let v: Vec<T> = (0..n).map(|_| nx()).collect();
            v.into_any()
        }
        'W' => {
            let v: Vec<T> = (0..n).map(|_| nx()).collect();
            StaticVec::from(v).into_any()
        }
        'Y' => match n {
            0 => {
                let a: [T; 0] = [];
                a.into_any()
            }
            1 => [nx()].into_any(),
            2 => [nx(), nx()].into_any(),
            3 => [nx(), nx(), nx()].into_any(),
            4 => [nx(), nx(), nx(), nx()].into_any(),
            _ => return None,
        },
        'U' => match n {
            0 => ().into_any(),
            1 => (nx(),).into_any(),
            2 => (nx(), nx()).into_any(),
            3 => (nx(), nx(), nx()).into_any(),
            4 => (nx(), nx(), nx(), nx()).into_any(),
            _ => return None,
        },
        'O' if n == 1 => Some(nx()).into_any(),
        'N' if n == 0 => None::<T>.into_any(),
        'L' if n == 1 => Either::<T, AnyView>::Left(nx()).into_any(),
        'R' if n == 1 => Either::<AnyView, T>::Right(nx()).into_any(),
        _ => return None,
    })
}

fn strings_of(kids: &[Node]) -> Option<Vec<String>> {
    kids.iter().map(|k| if let Node::Text { s, .. } = k { Some(s.clone()) } else { None }).collect()
}

fn prims_of<T: std::str::FromStr + ToString>(kids: &[Node], want: &str) -> Option<Vec<T>> {
    kids.iter()
        .map(|k| match k {
            Node::Prim { ty, s } if ty == want => parse_prim::<T>(s),
            _ => None,
        })
        .collect()
}

fn build_cont(kind: char, ity: char, kids: &[Node]) -> Option<AnyView> {
    if kids.len() > MAX_KIDS {
        return None;
    }
    match ity {
        'S' => cont(kind, strings_of(kids)?),
        's' => cont(kind, strings_of(kids)?.iter().map(|s| leak(s)).collect::<Vec<&'static str>>()),
        'a' => cont(kind, strings_of(kids)?.iter().map(|s| Arc::<str>::from(s.as_str())).collect()),
        'w' => cont(kind, strings_of(kids)?.into_iter().map(Cow::<'static, str>::Owned).collect()),
        'o' => cont(kind, strings_of(kids)?.into_iter().map(Oco::<'static, str>::from).collect()),
        'c' => cont(kind, prims_of::<char>(kids, "char")?),
        'i' => cont(kind, prims_of::<i32>(kids, "i32")?),
        'q' => {
            let items: Option<Vec<Option<String>>> = kids
                .iter()
                .map(|k| match k {
                    Node::Cont { kind: 'O', ity: 'S', kids } => Some(Some(strings_of(kids)?.pop()?)),
                    Node::Cont { kind: 'N', ity: 'S', .. } => Some(None),
                    _ => None,
                })
                .collect();
            cont(kind, items?)
        }
        'v' => {
            let items: Option<Vec<Vec<String>>> = kids
                .iter()
                .map(|k| match k {
                    Node::Cont { kind: 'V', ity: 'S', kids } => strings_of(kids),
                    _ => None,
                })
                .collect();
            cont(kind, items?)
        }
        '*' => {
            let items: Vec<AnyView> = kids.iter().map(build).collect::<Option<_>>()?;
            if kind == 'F' {
                Some(AnyView::from(Fragment::new(items)))
            } else {
                cont(kind, items)
            }
        }
        _ => None,
    }
}

#[derive(Debug, Clone)]
struct MsgErr(String);
impl std::fmt::Display for MsgErr {
    fn fmt(&self, f: &mut std::fmt::Formatter<'_>) -> std::fmt::Result {
        f.write_str(&self.0)
    }
}
impl std::error::Error for MsgErr {}

/// the fallback of a boundary with the joined messages put where it shows them (children of the
/// wrappers are built lazily, so the text is substituted before anything is built; a nested boundary's
/// own fallback refers to its own messages)
fn subst_msgs(nodes: &[Node], m: &str) -> Vec<Node> {
    nodes
        .iter()
        .map(|n| match n {
            Node::ErrMsgs => Node::text(m),
            Node::Elem { tag, attrs, kids } => Node::Elem { tag: tag.clone(), attrs: attrs.clone(), kids: subst_msgs(kids, m) },
            Node::Cont { kind, ity, kids } => Node::Cont { kind: *kind, ity: *ity, kids: subst_msgs(kids, m) },
            Node::Show { cond, kids, fb } => Node::Show { cond: *cond, kids: subst_msgs(kids, m), fb: subst_msgs(fb, m) },
            Node::Suspense { transition, kids, fb } => {
                Node::Suspense { transition: *transition, kids: subst_msgs(kids, m), fb: subst_msgs(fb, m) }
            }
            Node::Suspend { delay, kids } => Node::Suspend { delay: *delay, kids: subst_msgs(kids, m) },
            Node::Boundary { kids, fb } => Node::Boundary { kids: subst_msgs(kids, m), fb: fb.clone() },
            other => other.clone(),
        })
        .collect()
}

fn join_errors(errors: ArcRwSignal<Errors>) -> String {
    let v: Vec<String> = errors.get_untracked().into_iter().map(|(_, e)| e.to_string()).collect();
    v.join(", ")
}

fn build_list(nodes: &[Node]) -> Option<AnyView> {
    if nodes.len() > MAX_KIDS {
        return None;
    }
    let views: Vec<AnyView> = nodes.iter().map(build).collect::<Option<_>>()?;
    Some(StaticVec::from(views).into_any())
}

/// can every node be built (the real components build their children lazily)?
fn buildable(nodes: &[Node]) -> bool {
    nodes.len() <= MAX_KIDS
        && nodes.iter().all(|n| match n {
            Node::Show { kids, fb, .. } | Node::Boundary { kids, fb } | Node::Suspense { kids, fb, .. } => {
                buildable(kids) && buildable(fb)
            }
            Node::Suspend { kids, .. } => buildable(kids),
            Node::Elem { kids, .. } if enc::has_wrappers(kids) => buildable(kids),
            Node::Cont { kids, ity: '*', .. } if enc::has_wrappers(kids) => buildable(kids),
            Node::OkStr(_) | Node::Err(_) | Node::ErrMsgs | Node::ForEach { .. } | Node::Await { .. } => true,
            other => !enc::has_wrappers(std::slice::from_ref(other)) && build(other).is_some(),
        })
}

fn build_wrapper(n: &Node) -> Option<AnyView> {
    Some(match n.clone() {
        Node::Show { cond, kids, fb } => view! {
            <Show when=move || cond fallback=move || build_list(&fb).unwrap()>{build_list(&kids).unwrap()}</Show>
        }
        .into_any(),
        Node::Boundary { kids, fb } => view! {
            <ErrorBoundary fallback=move |errors| {
                let m = join_errors(errors);
                build_list(&subst_msgs(&fb, &m)).unwrap()
            }>{build_list(&kids).unwrap()}</ErrorBoundary>
        }
        .into_any(),
        Node::OkStr(s) => Ok::<String, leptos::error::Error>(s).into_any(),
        Node::Err(m) => Err::<String, leptos::error::Error>(MsgErr(m).into()).into_any(),
        // (only reached outside any fallback: shows nothing to show)
        Node::ErrMsgs => String::new().into_any(),
        Node::ForEach { fam, rows } => {
            let rows: Vec<(usize, String)> = rows.into_iter().enumerate().collect();
            if fam == 0 {
                view! { <For each=move || rows.clone() key=|r| r.0 children=move |r| r.1 /> }.into_any()
            } else {
                view! { <For each=move || rows.clone() key=|r| r.0 children=move |r| view! { <i>{r.1}</i> } /> }.into_any()
            }
        }
        Node::Suspense { transition: false, kids, fb } => view! {
            <Suspense fallback=move || build_list(&fb).unwrap()>{build_list(&kids).unwrap()}</Suspense>
        }
        .into_any(),
        Node::Suspense { transition: true, kids, fb } => view! {
            <Transition fallback=move || build_list(&fb).unwrap()>{build_list(&kids).unwrap()}</Transition>
        }
        .into_any(),
        Node::Suspend { delay, kids } => Suspend::new(async move {
            for _ in 0..delay {
                leptos::task::tick().await;
            }
            build_list(&kids).unwrap()
        })
        .into_any(),
        Node::Await { delay, data } => view! {
            <Await
                future=async move {
                    for _ in 0..delay {
                        leptos::task::tick().await;
                    }
                    data
                }
                let:d
            >
                <b>{d.clone()}</b>
                {d.clone()}
            </Await>
        }
        .into_any(),
        _ => return None,
    })
}

fn build(n: &Node) -> Option<AnyView> {
    match n {
        Node::Show { .. }
        | Node::Boundary { .. }
        | Node::OkStr(_)
        | Node::Err(_)
        | Node::ErrMsgs
        | Node::ForEach { .. }
        | Node::Suspense { .. }
        | Node::Suspend { .. }
        | Node::Await { .. } => build_wrapper(n),
        Node::Text { ty, s } => text_child(ty, s),
        Node::Prim { ty, s } => prim_child(ty, s),
        Node::Unit => Some(().into_any()),
        Node::Cont { kind, ity, kids } => build_cont(*kind, *ity, kids),
        Node::Island { comp, props, kids } => {
            if kids.len() > MAX_KIDS {
                return None;
            }
            let views: Vec<AnyView> = kids.iter().map(build).collect::<Option<_>>()?;
            Some(Island::new(leak(comp), StaticVec::from(views)).with_props(props.clone()).into_any())
        }
        Node::IslandChildren { kids } => {
            if kids.len() > MAX_KIDS {
                return None;
            }
            let views: Vec<AnyView> = kids.iter().map(build).collect::<Option<_>>()?;
            Some(IslandChildren::new(StaticVec::from(views)).into_any())
        }
        Node::Elem { tag, attrs, kids } => {
            if kids.len() > MAX_KIDS {
                return None;
            }
            let attrs: Vec<AnyAttribute> = attrs.iter().map(build_attr).collect::<Option<_>>()?;
            let kids: Vec<AnyView> = kids.iter().map(build).collect::<Option<_>>()?;
            by_tag!(tag.as_str(), attrs, kids;
                [div, span, section, article, main, header, footer, aside, nav, blockquote, figure, label,
                 b, i, em, strong, small, code, p, a, h1, h2, h3, button,
                 title, textarea, script, style, noscript];
                [area, base, br, col, embed, hr, img, input, link, meta, source, track, wbr])
        }
    }
}

fn new_owner() -> Owner {
    use hydration_context::{SharedContext, SsrSharedContext};
    let sc = Arc::new(SsrSharedContext::new()) as Arc<dyn SharedContext + Send + Sync>;
    Owner::new_root(Some(sc))
}

fn collect_stream(mut s: impl futures::Stream<Item = String> + Unpin) -> Option<String> {
    let mut out = String::new();
    let w = sched::noop_waker();
    let mut cx = std::task::Context::from_waker(&w);
    for _ in 0..10_000 {
        match s.poll_next_unpin(&mut cx) {
            std::task::Poll::Ready(Some(c)) => out.push_str(&c),
            std::task::Poll::Ready(None) => return Some(out),
            std::task::Poll::Pending => {
                sched::run_until_idle(1000);
            }
        }
    }
    None
}

/// one paint: the real HTML parsed by the reference parser, normalised (comments dropped, text merged)
/// and compared with what the view is meant to show
fn paint(html_out: &str, want: &[Node]) -> (String, bool) {
    match html::parse(html_out) {
        Some(t) => {
            let n = enc::norm(&t);
            let ok = n == enc::norm(&enc::expected(want));
            (enc::canon(&n), ok)
        }
        None => ("none".into(), false),
    }
}

/// `wview <mode> <nodes>`: the view with real leptos components through `to_html()` (s), the in-order
/// stream (i) or the out-of-order stream with its scripts applied as the browser does (o)
fn render_wview(mode: &str, nodes: &[Node]) -> Option<String> {
    sched::reset();
    let owner = new_owner();
    let html_out = owner.with(|| {
        let v = build_list(nodes)?;
        match mode {
            "s" => Some(v.to_html()),
            "i" => collect_stream(v.to_html_stream_in_order()),
            _ => collect_stream(v.to_html_stream_out_of_order()),
        }
    });
    drop(owner);
    sched::reset();
    let html_out = html_out?;
    if std::env::var("C06_DEBUG").is_ok() {
        eprintln!("[{mode}] {html_out}");
    }
    let first = enc::shown(nodes, false, "");
    let settled = enc::shown(nodes, true, "");
    Some(match mode {
        "s" => {
            let (obs, ok) = paint(&html_out, &first);
            format!("{obs} ## {}", if ok { "ok" } else { "fail first-paint" })
        }
        "i" => {
            let (obs, ok) = paint(&html_out, &settled);
            format!("{obs} ## {}", if ok { "ok" } else { "fail settled" })
        }
        _ => {
            let (o1, ok1) = paint(hx_c06::stream::first_paint(&html_out), &first);
            // the scripts move nodes of separately parsed pieces; nothing is re-parsed
            let (o2, ok2) = match hx_c06::stream::settle(&html_out) {
                Some(t) => {
                    let n = enc::norm(&t);
                    let ok = n == enc::norm(&enc::expected(&settled));
                    (enc::canon(&n), ok)
                }
                None => ("none".to_string(), false),
            };
            let v = if !ok1 {
                "fail first-paint"
            } else if !ok2 {
                "fail settled"
            } else {
                "ok"
            };
            format!("{o1}|{o2} ## {v}")
        }
    })
}

fn render_view(nodes: &[Node]) -> Option<String> {
    if nodes.len() > MAX_KIDS {
        return None;
    }
    let views: Vec<AnyView> = nodes.iter().map(build).collect::<Option<_>>()?;
    let mut k = views.into_iter();
    // a tuple of views, as a fragment / component body is
    Some(match k.len() {
        0 => String::new(),
        1 => (k.next().unwrap(),).to_html(),
        2 => (k.next().unwrap(), k.next().unwrap()).to_html(),
        3 => (k.next().unwrap(), k.next().unwrap(), k.next().unwrap()).to_html(),
        4 => (k.next().unwrap(), k.next().unwrap(), k.next().unwrap(), k.next().unwrap()).to_html(),
        5 => (k.next().unwrap(), k.next().unwrap(), k.next().unwrap(), k.next().unwrap(), k.next().unwrap())
            .to_html(),
        6 => (
            k.next().unwrap(),
            k.next().unwrap(),
            k.next().unwrap(),
            k.next().unwrap(),
            k.next().unwrap(),
            k.next().unwrap(),
        )
            .to_html(),
        _ => {
            let v: Vec<AnyView> = k.collect();
            StaticVec::from(v).to_html()
        }
    })
}

#[derive(Clone, Debug)]
struct MetaOp {
    kind: char,
    a: String,
    b: String,
}

const SHELL_PRE: &str = "<!DOCTYPE html><html><head>";
const SHELL_POST: &str = "</head><body></body></html>";

/// the real leptos_meta SSR path: components register into the ServerMetaContext while the body
/// renders; the integration then calls `inject_meta_context` on the HTML stream
fn render_head(title: &Option<String>, metas: &[MetaOp]) -> Option<String> {
    let owner = Owner::new();
    let chunk = owner.with(|| {
        let (ctx, output) = leptos_meta::ServerMetaContext::new();
        provide_context(ctx);
        let mut body = String::new();
        if let Some(t) = title {
            let v = leptos_meta::Title(leptos_meta::TitleProps::builder().text(t.clone()).build());
            body.push_str(&v.into_view().to_html());
        }
        for m in metas {
            let (a, b) = (m.a.clone(), m.b.clone());
            let props = match m.kind {
                'n' => leptos_meta::MetaProps::builder().name(a).content(b).build(),
                'p' => leptos_meta::MetaProps::builder().property(a).content(b).build(),
                'c' => leptos_meta::MetaProps::builder().charset(a).build(),
                'h' => leptos_meta::MetaProps::builder().http_equiv(a).content(b).build(),
                _ => leptos_meta::MetaProps::builder().itemprop(a).content(b).build(),
            };
            body.push_str(&leptos_meta::Meta(props).into_view().to_html());
        }
        // the app shell's first chunk: <MetaTags/> renders the marker
        let shell = format!("{SHELL_PRE}<!--HEAD-->{SHELL_POST}");
        debug_assert!(body.is_empty());
        let stream = futures::stream::iter(vec![shell]);
        futures::executor::block_on(async move {
            output.inject_meta_context(stream).await.collect::<Vec<String>>().await.concat()
        })
    });
    let inner = chunk.strip_prefix(SHELL_PRE)?.strip_suffix(SHELL_POST)?;
    Some(inner.to_string())
}

fn meta_node(m: &MetaOp) -> Node {
    let p = |n: &str, v: &String| Attr::Plain(n.into(), v.clone(), Ty::string());
    let attrs = match m.kind {
        'n' => vec![p("name", &m.a), p("content", &m.b)],
        'p' => vec![p("property", &m.a), p("content", &m.b)],
        'c' => vec![p("charset", &m.a)],
        'h' => vec![p("http-equiv", &m.a), p("content", &m.b)],
        _ => vec![p("itemprop", &m.a), p("content", &m.b)],
    };
    Node::Elem { tag: "meta".into(), attrs, kids: vec![] }
}

fn expected_head(title: &Option<String>, metas: &[MetaOp]) -> Vec<Tree> {
    let mut out = vec![];
    if let Some(t) = title {
        let kids = if t.is_empty() { vec![] } else { vec![Tree::Text(t.clone())] };
        out.push(Tree::Elem { tag: "title".into(), attrs: vec![], kids });
    }
    out.push(Tree::Comment("HEAD".into()));
    out.extend(enc::expected(&metas.iter().map(meta_node).collect::<Vec<_>>()));
    out
}

// ------------------------------------------------------------------ `doc`: every leptos_meta component

const LINK_KEYS: &[&str] = &[
    "id", "as", "crossorigin", "fetchpriority", "href", "hreflang", "imagesizes", "imagesrcset", "integrity",
    "media", "referrerpolicy", "rel", "sizes", "title", "type", "blocking",
];
const SCRIPT_KEYS: &[&str] = &[
    "id", "async", "crossorigin", "defer", "fetchpriority", "integrity", "nomodule", "nonce", "referrerpolicy",
    "src", "type", "blocking",
];
const STYLE_KEYS: &[&str] = &["id", "media", "nonce", "title", "blocking"];

#[derive(Clone, Debug)]
enum DocItem {
    Text(String),
    Fmt(String, String),
    Meta(MetaOp),
    Link(Vec<(String, String)>),
    Style(Vec<(String, String)>, Option<String>),
    Script(Vec<(String, String)>, Option<String>),
    Stylesheet(String, Option<String>),
    Html(Vec<Attr>),
    Body(Vec<Attr>),
}

fn parse_kvs(keys: &[&str], w: &str) -> Option<Vec<(String, String)>> {
    let mut out = vec![];
    if w.is_empty() {
        return Some(out);
    }
    let mut from = 0;
    for it in w.split(',') {
        let (k, h) = it.split_once('=')?;
        let i = keys.iter().position(|x| *x == k)?;
        if i < from {
            return None;
        }
        from = i + 1;
        out.push((k.to_string(), unhex_field(h)?));
    }
    Some(out)
}

fn parse_child(w: &str) -> Option<Option<String>> {
    if w == "-" {
        Some(None)
    } else {
        Some(Some(unhex_field(w.strip_prefix('c')?)?))
    }
}

fn parse_attr_word(w: &str) -> Option<Vec<Attr>> {
    // reuse the element decoder: attributes of a dummy element
    match enc::decode(&format!("Ex-a;{w}<"))?.pop()? {
        Node::Elem { attrs, kids, .. } if kids.is_empty() => Some(attrs),
        _ => None,
    }
}

fn parse_doc_item(w: &str) -> Option<DocItem> {
    let (k, rest) = w.split_at(1);
    Some(match k {
        "T" => DocItem::Text(unhex_field(rest)?),
        "F" => {
            let (a, b) = rest.split_once(',')?;
            DocItem::Fmt(unhex_field(a)?, unhex_field(b)?)
        }
        "m" => DocItem::Meta(parse_meta(w)?),
        "l" => DocItem::Link(parse_kvs(LINK_KEYS, rest)?),
        "y" => {
            let (kv, ch) = rest.split_once('|')?;
            DocItem::Style(parse_kvs(STYLE_KEYS, kv)?, parse_child(ch)?)
        }
        "j" => {
            let (kv, ch) = rest.split_once('|')?;
            DocItem::Script(parse_kvs(SCRIPT_KEYS, kv)?, parse_child(ch)?)
        }
        "k" => {
            let (h, i) = rest.split_once(',')?;
            let id = if i == "-" { None } else { Some(unhex_field(i.strip_prefix('i')?)?) };
            DocItem::Stylesheet(unhex_field(h)?, id)
        }
        "H" => DocItem::Html(parse_attr_word(rest)?),
        "B" => DocItem::Body(parse_attr_word(rest)?),
        _ => return None,
    })
}

fn oco(kv: &[(String, String)], k: &str) -> Option<Oco<'static, str>> {
    kv.iter().find(|x| x.0 == k).map(|x| Oco::from(x.1.clone()))
}

fn children_of(s: &Option<String>) -> Option<Children> {
    s.clone().map(|s| Box::new(move || s.into_any()) as Children)
}

const DOC_SHELL: &str = "<!DOCTYPE html><html><head><!--HEAD--></head><body></body></html>";

/// every component registers into the ServerMetaContext while the app renders; the integration
/// then calls `inject_meta_context` on the HTML stream whose first chunk holds the shell
fn render_doc(items: &[DocItem]) -> Option<String> {
    let owner = Owner::new();
    owner.with(|| {
        let (ctx, output) = leptos_meta::ServerMetaContext::new();
        provide_context(ctx);
        for it in items {
            let html = match it.clone() {
                DocItem::Text(t) => {
                    leptos_meta::Title(leptos_meta::TitleProps::builder().text(t).build()).into_view().to_html()
                }
                DocItem::Fmt(a, b) => leptos_meta::Title(
                    leptos_meta::TitleProps::builder().formatter(move |t: String| format!("{a}{t}{b}")).build(),
                )
                .into_view()
                .to_html(),
                DocItem::Meta(m) => {
                    let (a, b) = (m.a.clone(), m.b.clone());
                    let props = match m.kind {
                        'n' => leptos_meta::MetaProps::builder().name(a).content(b).build(),
                        'p' => leptos_meta::MetaProps::builder().property(a).content(b).build(),
                        'c' => leptos_meta::MetaProps::builder().charset(a).build(),
                        'h' => leptos_meta::MetaProps::builder().http_equiv(a).content(b).build(),
                        _ => leptos_meta::MetaProps::builder().itemprop(a).content(b).build(),
                    };
                    leptos_meta::Meta(props).into_view().to_html()
                }
                DocItem::Link(kv) => leptos_meta::Link(leptos_meta::LinkProps {
                    id: oco(&kv, "id"),
                    as_: oco(&kv, "as"),
                    crossorigin: oco(&kv, "crossorigin"),
                    fetchpriority: oco(&kv, "fetchpriority"),
                    href: oco(&kv, "href"),
                    hreflang: oco(&kv, "hreflang"),
                    imagesizes: oco(&kv, "imagesizes"),
                    imagesrcset: oco(&kv, "imagesrcset"),
                    integrity: oco(&kv, "integrity"),
                    media: oco(&kv, "media"),
                    referrerpolicy: oco(&kv, "referrerpolicy"),
                    rel: oco(&kv, "rel"),
                    sizes: oco(&kv, "sizes"),
                    title: oco(&kv, "title"),
                    type_: oco(&kv, "type"),
                    blocking: oco(&kv, "blocking"),
                })
                .into_view()
                .to_html(),
                DocItem::Style(kv, ch) => leptos_meta::Style(leptos_meta::StyleProps {
                    id: oco(&kv, "id"),
                    media: oco(&kv, "media"),
                    nonce: oco(&kv, "nonce"),
                    title: oco(&kv, "title"),
                    blocking: oco(&kv, "blocking"),
                    children: children_of(&ch),
                })
                .into_view()
                .to_html(),
                DocItem::Script(kv, ch) => leptos_meta::Script(leptos_meta::ScriptProps {
                    id: oco(&kv, "id"),
                    async_: oco(&kv, "async"),
                    crossorigin: oco(&kv, "crossorigin"),
                    defer: oco(&kv, "defer"),
                    fetchpriority: oco(&kv, "fetchpriority"),
                    integrity: oco(&kv, "integrity"),
                    nomodule: oco(&kv, "nomodule"),
                    nonce: oco(&kv, "nonce"),
                    referrerpolicy: oco(&kv, "referrerpolicy"),
                    src: oco(&kv, "src"),
                    type_: oco(&kv, "type"),
                    blocking: oco(&kv, "blocking"),
                    children: children_of(&ch),
                })
                .into_view()
                .to_html(),
                DocItem::Stylesheet(href, id) => {
                    leptos_meta::Stylesheet(leptos_meta::StylesheetProps { href, id }).into_view().to_html()
                }
                DocItem::Html(attrs) => {
                    let attrs: Vec<AnyAttribute> = attrs.iter().map(build_attr).collect::<Option<_>>()?;
                    leptos_meta::Html().into_view().add_any_attr(attrs).to_html()
                }
                DocItem::Body(attrs) => {
                    let attrs: Vec<AnyAttribute> = attrs.iter().map(build_attr).collect::<Option<_>>()?;
                    leptos_meta::Body().into_view().add_any_attr(attrs).to_html()
                }
            };
            // none of these components renders anything in place
            if !html.is_empty() {
                return None;
            }
        }
        let stream = futures::stream::iter(vec![DOC_SHELL.to_string()]);
        Some(futures::executor::block_on(async move {
            output.inject_meta_context(stream).await.collect::<Vec<String>>().await.concat()
        }))
    })
}

fn kv_node(tag: &str, kv: &[(String, String)], child: &Option<String>) -> Node {
    Node::Elem {
        tag: tag.into(),
        attrs: kv.iter().map(|(k, v)| Attr::Plain(k.clone(), v.clone(), Ty::string())).collect(),
        kids: child.iter().map(|s| Node::text(s)).collect(),
    }
}

/// the oracle for a document: split the real output at the shell's own tags, parse each inserted
/// piece on its own (an attribute string after a dummy tag name, the head insertion as a fragment)
fn doc_verdict(out: &str, items: &[DocItem]) -> String {
    let mut texts = vec![];
    let mut fmt: Option<(String, String)> = None;
    let mut tags: Vec<Node> = vec![];
    let (mut ha, mut ba): (Vec<Attr>, Vec<Attr>) = (vec![], vec![]);
    for it in items {
        match it {
            DocItem::Text(t) => texts.push(t.clone()),
            DocItem::Fmt(a, b) => fmt = Some((a.clone(), b.clone())),
            DocItem::Meta(m) => tags.push(meta_node(m)),
            DocItem::Link(kv) => tags.push(kv_node("link", kv, &None)),
            DocItem::Style(kv, ch) => tags.push(kv_node("style", kv, ch)),
            DocItem::Script(kv, ch) => tags.push(kv_node("script", kv, ch)),
            DocItem::Stylesheet(href, id) => {
                let mut kv = vec![];
                if let Some(i) = id {
                    kv.push(("id".to_string(), i.clone()));
                }
                kv.push(("rel".into(), "stylesheet".into()));
                kv.push(("href".into(), href.clone()));
                tags.push(kv_node("link", &kv, &None));
            }
            DocItem::Html(a) => ha.extend(a.iter().cloned()),
            DocItem::Body(a) => ba.extend(a.iter().cloned()),
        }
    }
    // the document title: the innermost text through the innermost formatter
    let title = texts.last().map(|t| match &fmt {
        Some((a, b)) => format!("{a}{t}{b}"),
        None => t.clone(),
    });
    let mut want_head = vec![];
    if let Some(t) = &title {
        let kids = if t.is_empty() { vec![] } else { vec![Tree::Text(t.clone())] };
        want_head.push(Tree::Elem { tag: "title".into(), attrs: vec![], kids });
    }
    want_head.push(Tree::Comment("HEAD".into()));
    want_head.extend(enc::expected(&tags));
    let Some(rest) = out.strip_prefix("<!DOCTYPE html><html") else { return "fail shell-lost".into() };
    let Some(rest) = rest.strip_suffix("></body></html>") else { return "fail shell-lost".into() };
    let Some(cut) = rest.rfind("</head><body") else { return "fail shell-lost".into() };
    let (before, z) = (&rest[..cut], &rest[cut + "</head><body".len()..]);
    let Some(cut) = before.find("><head>") else { return "fail shell-lost".into() };
    let (x, y) = (&before[..cut], &before[cut + "><head>".len()..]);
    let probe = |attrs_html: &str, want: &[Attr]| -> bool {
        html::parse(&format!("<x-a{attrs_html}></x-a>"))
            == Some(vec![Tree::Elem { tag: "x-a".into(), attrs: enc::expected_attrs(want), kids: vec![] }])
    };
    if !probe(x, &ha) {
        return "fail html-attrs".into();
    }
    if !probe(z, &ba) {
        return "fail body-attrs".into();
    }
    verdict(y, &want_head)
}

fn verdict(html_out: &str, want: &[Tree]) -> String {
    match html::parse(html_out) {
        Some(got) if got == want => "ok".into(),
        Some(_) => "fail structure-differs".into(),
        None => "fail not-in-subset".into(),
    }
}

fn unhex_field(h: &str) -> Option<String> {
    if h.is_empty() {
        Some(String::new())
    } else {
        unhex_str(h)
    }
}

fn parse_meta(w: &str) -> Option<MetaOp> {
    let mut cs = w.chars();
    if cs.next()? != 'm' {
        return None;
    }
    let kind = cs.next()?;
    if !"npchi".contains(kind) {
        return None;
    }
    let rest = cs.as_str().strip_prefix(',')?;
    let (a, b) = rest.split_once(',')?;
    if b.contains(',') {
        return None;
    }
    Some(MetaOp { kind, a: unhex_field(a)?, b: unhex_field(b)? })
}

fn op(line: &str, tags: &std::collections::HashMap<String, String>) -> String {
    let w: Vec<&str> = line.split_whitespace().collect();
    match w.as_slice() {
        ["case", n] => match tags.get(*n) {
            Some(t) if !t.is_empty() => format!("case {n} tags={t}"),
            _ => format!("case {n}"),
        },
        ["view", e] => {
            let Some(nodes) = enc::decode(e) else { return "bad-op".into() };
            if enc::has_wrappers(&nodes) {
                return "bad-op".into();
            }
            match catch_unwind(AssertUnwindSafe(|| render_view(&nodes))) {
                Ok(Some(out)) => format!("{} ## {}", hex(out.as_bytes()), verdict(&out, &enc::expected(&nodes))),
                Ok(None) => "bad-op".into(),
                Err(_) => "panic ## fail panic".into(),
            }
        }
        ["head", t, ms @ ..] => {
            let title = if *t == "-" {
                None
            } else if let Some(h) = t.strip_prefix('t') {
                let Some(s) = unhex_field(h) else { return "bad-op".into() };
                Some(s)
            } else {
                return "bad-op".into();
            };
            let Some(metas) = ms.iter().map(|m| parse_meta(m)).collect::<Option<Vec<_>>>() else {
                return "bad-op".into();
            };
            match catch_unwind(AssertUnwindSafe(|| render_head(&title, &metas))) {
                Ok(Some(out)) => {
                    format!("{} ## {}", hex(out.as_bytes()), verdict(&out, &expected_head(&title, &metas)))
                }
                Ok(None) => "shell-lost ## fail shell-lost".into(),
                Err(_) => "panic ## fail panic".into(),
            }
        }
        ["wview", mode, e] => {
            let Some(nodes) = enc::decode(e) else { return "bad-op".into() };
            if !["s", "i", "o"].contains(mode) || !buildable(&nodes) {
                return "bad-op".into();
            }
            match catch_unwind(AssertUnwindSafe(|| render_wview(mode, &nodes))) {
                Ok(Some(out)) => out,
                Ok(None) => "bad-op".into(),
                Err(_) => "panic ## fail panic".into(),
            }
        }
        ["doc", its @ ..] => {
            let Some(items) = its.iter().map(|w| parse_doc_item(w)).collect::<Option<Vec<_>>>() else {
                return "bad-op".into();
            };
            if items.iter().filter(|i| matches!(i, DocItem::Html(_))).count() > 1
                || items.iter().filter(|i| matches!(i, DocItem::Body(_))).count() > 1
            {
                return "bad-op".into();
            }
            match catch_unwind(AssertUnwindSafe(|| render_doc(&items))) {
                Ok(Some(out)) => format!("{} ## {}", hex(out.as_bytes()), doc_verdict(&out, &items)),
                Ok(None) => "bad-op".into(),
                Err(_) => "panic ## fail panic".into(),
            }
        }
        _ => "bad-op".into(),
    }
}

// ---------------------------------------------------------------- generator

const HOSTILE: &[&str] = &[
    "<", ">", "&", "\"", "'", "/", "=", "`", "\u{a0}", "<!--", "-->", "]]>", "<![CDATA[", "</script", "</script>",
    "</title>", "</title", "</textarea>", "</style>", "</noscript>", "&amp;", "&#x3c;", "&lt", "&#60;", "&quot;",
    "é", "日本", "😀", "\u{2028}", " ", "\n", "\t", "a", "b", "x=1", "<b>", "<img src=x onerror=alert(1)>", "<!>",
    "<!", "</", "<?", "javascript:", "\u{feff}", "\u{1}", "\u{7f}", "\u{85}", "\u{fffd}", "--", "-", "!", ";", "#",
    "&#", "&a", "& ", "\u{3000}", "\u{10ffff}", "\u{e000}", "<script>", "<a href=\"", "\" onload=\"", "' x='",
    "\u{c}", "&gt", "<p>", "</div>", "<textarea>",
    // character references and nothing else that needs escaping (no `<`, `>`, quote or line feed)
    "&lt;", "&gt;", "&#38;", "5 &lt; 6 &amp; so on", "&amp;lt;", "&notit;",
    // style / url() values
    "url(", "url(a?x=1&y=2)", "background:url(/i?w=1&amp;h=2)", "url(\"a\")&quot;", "color:red;&#59;", "url(&quot;)",
];
const DIRTY: &[&str] = &["\0", "\r", "\r\n", "a\0b", "\0<"];
const BENIGN: &[&str] = &["a", "b", "hello", "x1", "z", "ok", "var a=1;", "p{color:red}", " ", "A", "é", "日本"];
const HOSTILE_CHARS: &[char] =
    &['<', '>', '&', '"', '\'', '/', '=', '`', ' ', 'a', 'é', '日', '😀', '\u{a0}', ';', '#', '!', '-', '?', '\n'];

/// string types per position (the first one is the plain `String`)
/// (every variant of the enum types: Cow Owned / Borrowed, Oco Owned / Borrowed / Counted, TextProp from literal / String / closure)
const TEXT_TYS: &[&str] = &["String", "str", "Arc", "Cow", "CowB", "Oco", "OcoB", "OcoC", "fn"];
const ATTR_STR_TYS: &[&str] = &["String", "str", "refString", "Arc", "Oco", "OcoB", "OcoC", "TpL", "TpS", "TpF", "fn"];
const CLASS_TYS: &[&str] = &["String", "str", "Arc", "Cow", "CowB", "Oco", "OcoB", "OcoC", "fn"];
const STYLE_TYS: &[&str] = &["String", "str", "Arc", "Oco", "OcoB", "OcoC", "fn"];
const KV_TYS: &[&str] = &["String", "str", "Arc", "Oco", "OcoB", "OcoC"];
const INNER_TYS: &[&str] = &["String", "str", "Arc"];
const STR_ITEM_TYS: &[char] = &['S', 's', 'a', 'w', 'o'];

/// sample values of every primitive type (Display text)
const PRIMS: &[(&str, &[&str])] = &[
    ("u8", &["0", "255"]), ("u16", &["65535"]), ("u32", &["7", "4294967295"]), ("u64", &["18446744073709551615"]),
    ("u128", &["340282366920938463463374607431768211455"]), ("usize", &["42"]), ("i8", &["-128"]), ("i16", &["-1"]),
    ("i32", &["-2147483648", "0", "13"]), ("i64", &["-9223372036854775808"]), ("i128", &["-5"]), ("isize", &["-7"]),
    ("f32", &["1.5", "-0", "NaN", "inf", "0.1"]), ("f64", &["-inf", "2.5", "100000000000000000000", "0.000001", "NaN"]),
    ("IpAddr", &["127.0.0.1", "::1"]), ("Ipv4Addr", &["10.0.0.255"]), ("Ipv6Addr", &["2001:db8::1"]),
    ("SocketAddr", &["127.0.0.1:80", "[::1]:8080"]), ("NonZeroU8", &["1"]), ("NonZeroI32", &["-3"]),
    ("NonZeroU64", &["9"]), ("NonZeroUsize", &["5"]),
];

fn pk(r: &mut Rng, xs: &[&'static str]) -> &'static str {
    xs[r.below(xs.len())]
}

struct Ctx {
    raw_text: bool, // may raw-text elements get string children?
    dirty: bool,    // may strings contain NUL / CR?
}

fn gen_str(r: &mut Rng, c: &mut Ctx) -> String {
    let mut s = String::new();
    match r.below(10) {
        0 => {} // empty
        1 | 2 => s.push_str(pk(r, BENIGN)),
        3 => {
            // arbitrary scalar values
            for _ in 0..r.range(1, 4) {
                let cp = match r.below(4) {
                    0 => r.range(0x20, 0x7e) as u32,
                    1 => r.range(0xa0, 0x7ff) as u32,
                    2 => r.range(0x800, 0xffff) as u32,
                    _ => r.range(0x10000, 0x10ffff) as u32,
                };
                s.push(char::from_u32(cp).unwrap_or('\u{fffd}'));
            }
        }
        _ => {
            for _ in 0..r.range(1, 3) {
                if c.dirty && r.chance(1, 3) {
                    s.push_str(pk(r, DIRTY));
                } else {
                    s.push_str(pk(r, HOSTILE));
                }
            }
        }
    }
    s
}

/// a value type for a position: mostly `String`, otherwise any of `tys`, sometimes behind `Option`
fn gen_ty(r: &mut Rng, tys: &[&'static str], allow_opt: bool) -> Ty {
    let ty = if r.chance(2, 5) { tys[0] } else { pk(r, tys) };
    let opt = if allow_opt && ty != "fn" && ty != "refString" && !ty.starts_with("Tp") && r.chance(1, 5) {
        if r.chance(1, 3) {
            '-'
        } else {
            '?'
        }
    } else {
        '='
    };
    Ty { opt, ty: ty.into() }
}

fn gen_text(r: &mut Rng, c: &mut Ctx) -> Node {
    let ty = if r.chance(1, 2) { "String" } else { pk(r, TEXT_TYS) };
    Node::Text { ty: ty.into(), s: gen_str(r, c) }
}

fn gen_char(r: &mut Rng, c: &Ctx) -> char {
    match r.below(4) {
        0 => char::from_u32(r.range(0x20, 0x2fff) as u32).unwrap_or('x'),
        1 if c.dirty => *r.pick(&['\0', '\r']),
        _ => *r.pick(HOSTILE_CHARS),
    }
}

fn gen_prim(r: &mut Rng, c: &Ctx) -> Node {
    if r.chance(1, 2) {
        Node::Prim { ty: "char".into(), s: gen_char(r, c).to_string() }
    } else if r.chance(1, 8) {
        Node::Prim { ty: "bool".into(), s: pk(r, &["true", "false"]).into() }
    } else {
        let (ty, vals) = PRIMS[r.below(PRIMS.len())];
        Node::Prim { ty: ty.into(), s: pk(r, vals).into() }
    }
}

const ATTR_NAMES: &[&str] =
    &["id", "title", "href", "value", "alt", "lang", "data-x", "aria-label", "name", "content", "xlink:href", "data_y"];
const BOOL_NAMES: &[&str] = &["hidden", "disabled", "checked"];
const GENERIC: &[&str] = html::GENERIC;
const CUSTOM: &[&str] = &["x-foo", "my-el2"];
const VOIDS: &[&str] = &["br", "hr", "img", "input", "meta", "link", "wbr", "source", "area", "embed", "track", "base"];
const RAWS: &[&str] = &["textarea", "script", "style", "noscript"];
const INNER: &[&str] = &["<b>x</b>", "a &amp; b", "<span class=\"q\">t</span><!--c-->", "plain", "<i>1</i><i>2</i>"];

fn gen_attrs(r: &mut Rng, c: &mut Ctx, allow_inner: bool) -> Vec<Attr> {
    let mut out = vec![];
    let mut used: Vec<&str> = vec![];
    for _ in 0..r.below(4) {
        match r.below(10) {
            0 | 1 | 2 => {
                let n = pk(r, ATTR_NAMES);
                if used.contains(&n) {
                    continue;
                }
                used.push(n);
                out.push(Attr::Plain(n.into(), gen_str(r, c), gen_ty(r, ATTR_STR_TYS, true)));
            }
            3 => {
                // a primitive as attribute value
                let n = pk(r, ATTR_NAMES);
                if used.contains(&n) {
                    continue;
                }
                used.push(n);
                let (ty, v) = if r.chance(1, 2) {
                    ("char", gen_char(r, c).to_string())
                } else {
                    let (ty, vals) = PRIMS[r.below(PRIMS.len())];
                    (ty, pk(r, vals).to_string())
                };
                let opt = *r.pick(&['=', '=', '=', '?', '-']);
                out.push(Attr::Plain(n.into(), v, Ty { opt, ty: ty.into() }));
            }
            4 => {
                let n = pk(r, BOOL_NAMES);
                if used.contains(&n) {
                    continue;
                }
                used.push(n);
                out.push(Attr::Bool(n.into(), r.chance(2, 3)));
            }
            5 => out.push(Attr::Class(gen_str(r, c), gen_ty(r, CLASS_TYS, true))),
            6 => out.push(Attr::ClassToggle(gen_str(r, c), r.chance(2, 3), r.chance(1, 3))),
            7 => out.push(Attr::Style(gen_str(r, c), gen_ty(r, STYLE_TYS, true))),
            8 => {
                let mut t = gen_ty(r, KV_TYS, true);
                if r.chance(1, 8) {
                    t = Ty { opt: '=', ty: "fn".into() };
                }
                out.push(Attr::StyleKV(pk(r, &["color", "--v", "width"]).to_string(), gen_str(r, c), t))
            }
            _ => {
                if allow_inner && !out.iter().any(|a| matches!(a, Attr::InnerHtml(..))) {
                    let t = gen_ty(r, INNER_TYS, false);
                    out.push(Attr::InnerHtml(pk(r, INNER).to_string(), t));
                }
            }
        }
    }
    out
}

/// a child container; `strings_only`: inside a raw-text element
fn gen_cont(r: &mut Rng, c: &mut Ctx, depth: usize, anc: &mut Vec<&'static str>, strings_only: bool) -> Node {
    let kind = if strings_only { *r.pick(&['V', 'V', 'Y', 'W', 'U', 'O', 'N', 'L', 'R']) } else { *r.pick(&['V', 'V', 'V', 'Y', 'W', 'U', 'O', 'N', 'L', 'R', 'F']) };
    let single = matches!(kind, 'O' | 'L' | 'R');
    let n = match kind {
        'N' => 0,
        _ if single => 1,
        _ => r.below(4),
    };
    // item type: direct strings most of the time
    let ity = match r.below(10) {
        0..=4 => *r.pick(STR_ITEM_TYS),
        5 => 'c',
        6 => 'i',
        7 if !single && kind != 'N' => *r.pick(&['q', 'v']),
        _ if strings_only => 'S',
        _ => '*',
    };
    let ity = if kind == 'F' { '*' } else { ity };
    let ity = if strings_only && ity == '*' { 'S' } else { ity };
    let kids: Vec<Node> = match ity {
        'c' => (0..n).map(|_| Node::Prim { ty: "char".into(), s: gen_char(r, c).to_string() }).collect(),
        'i' => (0..n).map(|_| Node::Prim { ty: "i32".into(), s: pk(r, &["-2147483648", "0", "13"]).into() }).collect(),
        'q' => (0..n)
            .map(|_| {
                if r.chance(1, 3) {
                    Node::Cont { kind: 'N', ity: 'S', kids: vec![] }
                } else {
                    Node::Cont { kind: 'O', ity: 'S', kids: vec![Node::text(&gen_str(r, c))] }
                }
            })
            .collect(),
        'v' => (0..n)
            .map(|_| Node::Cont { kind: 'V', ity: 'S', kids: (0..r.below(3)).map(|_| Node::text(&gen_str(r, c))).collect() })
            .collect(),
        '*' => {
            let mut k = gen_kids(r, c, depth.saturating_sub(1), anc, if single { 1 } else { 3 });
            if single {
                if k.is_empty() {
                    k.push(gen_text(r, c));
                }
                k.truncate(1);
            } else if kind == 'N' {
                k.clear();
            }
            k
        }
        _ => (0..n).map(|_| Node::text(&gen_str(r, c))).collect(),
    };
    Node::Cont { kind, ity, kids }
}

/// serialized island props: a JSON object around arbitrary strings, or any string at all
fn gen_props(r: &mut Rng, c: &mut Ctx) -> String {
    fn json_str(s: &str) -> String {
        let mut o = String::from("\"");
        for ch in s.chars() {
            match ch {
                '"' => o.push_str("\\\""),
                '\\' => o.push_str("\\\\"),
                '\n' => o.push_str("\\n"),
                '\t' => o.push_str("\\t"),
                '\r' => o.push_str("\\r"),
                ch if (ch as u32) < 0x20 => o.push_str(&format!("\\u{:04x}", ch as u32)),
                ch => o.push(ch),
            }
        }
        o.push('"');
        o
    }
    match r.below(5) {
        0 => String::new(),
        1 => gen_str(r, c),
        _ => {
            let n = r.range(1, 3);
            let fields: Vec<String> =
                (0..n).map(|i| format!("{}:{}", json_str(&format!("f{i}")), json_str(&gen_str(r, c)))).collect();
            format!("{{{}}}", fields.join(","))
        }
    }
}

fn gen_island(r: &mut Rng, c: &mut Ctx, depth: usize, anc: &mut Vec<&'static str>) -> Node {
    let comp = pk(r, &["Counter", "my_app::Island_1", "C"]).to_string();
    let props = gen_props(r, c);
    anc.push("leptos-island");
    let mut kids = gen_kids(r, c, depth - 1, anc, 3);
    if r.chance(1, 3) {
        anc.push("leptos-children");
        let inner = gen_kids(r, c, depth.saturating_sub(2), anc, 2);
        anc.pop();
        kids.push(Node::IslandChildren { kids: inner });
    }
    anc.pop();
    Node::Island { comp, props, kids }
}

fn gen_kvs(r: &mut Rng, c: &mut Ctx, keys: &[&str], max: usize) -> String {
    let mut picked: Vec<usize> = (0..r.below(max + 1)).map(|_| r.below(keys.len())).collect();
    picked.sort();
    picked.dedup();
    picked.iter().map(|i| format!("{}={}", keys[*i], enc::hx(&gen_str(r, c)))).collect::<Vec<_>>().join(",")
}

fn attrs_word(attrs: &[Attr]) -> String {
    // the attribute part of the element encoding: between `E<tag>;` and the closing `<`
    let e = enc::encode(&[Node::Elem { tag: "x".into(), attrs: attrs.to_vec(), kids: vec![] }]);
    e["Ex;".len()..e.len() - 1].to_string()
}

fn gen_doc(r: &mut Rng, c: &mut Ctx) -> String {
    let mut items: Vec<String> = vec![];
    for _ in 0..r.below(3) {
        let t = if r.chance(1, 3) { pk(r, BENIGN).to_string() } else { gen_str(r, c) };
        items.push(format!("T{}", enc::hx(&t)));
    }
    if r.chance(1, 2) {
        let (a, b) = match r.below(3) {
            0 => (String::new(), format!(" | {}", gen_str(r, c))),
            1 => (gen_str(r, c), String::new()),
            _ => (gen_str(r, c), gen_str(r, c)),
        };
        items.push(format!("F{},{}", enc::hx(&a), enc::hx(&b)));
    }
    for _ in 0..r.below(4) {
        match r.below(6) {
            0 | 1 => {
                let k = *r.pick(&['n', 'p', 'c', 'h', 'i']);
                let a = if r.chance(1, 2) { pk(r, &["description", "og:title", "utf-8", "refresh"]).to_string() } else { gen_str(r, c) };
                let b = if k == 'c' { String::new() } else { gen_str(r, c) };
                items.push(format!("m{k},{},{}", enc::hx(&a), enc::hx(&b)));
            }
            2 => items.push(format!("l{}", gen_kvs(r, c, LINK_KEYS, 5))),
            3 | 4 => {
                let script = r.chance(1, 2);
                let kv = gen_kvs(r, c, if script { SCRIPT_KEYS } else { STYLE_KEYS }, 3);
                let child = if c.raw_text {
                    format!("c{}", enc::hx(&gen_str(r, c)))
                } else if r.chance(1, 2) {
                    "-".to_string()
                } else if r.chance(1, 12) {
                    // F-C06-5: harmless script/style text that happens to contain `<body`
                    format!("c{}", enc::hx(pk(r, &["if (a<body.length) f()", "/* <body> */"])))
                } else {
                    format!("c{}", enc::hx(pk(r, &["var a=1;", "p{color:red}", "x y", "a<b", "if(a&&b){}", "<html"])))
                };
                items.push(format!("{}{kv}|{child}", if script { 'j' } else { 'y' }));
            }
            _ => {
                let id = if r.chance(1, 2) { "-".to_string() } else { format!("i{}", enc::hx(&gen_str(r, c))) };
                items.push(format!("k{},{id}", enc::hx(&gen_str(r, c))));
            }
        }
    }
    if r.chance(1, 2) {
        items.push(format!("H{}", attrs_word(&gen_attrs(r, c, false))));
    }
    if r.chance(1, 2) {
        items.push(format!("B{}", attrs_word(&gen_attrs(r, c, false))));
    }
    format!("doc {}", items.join(" ")).trim_end().to_string()
}

/// children with leptos wrapper components among them (for `wview`)
fn gen_wkids(r: &mut Rng, c: &mut Ctx, depth: usize, anc: &mut Vec<&'static str>, max: usize, in_susp: bool, in_fb: bool) -> Vec<Node> {
    let n = r.range(1, max);
    let mut out = vec![];
    for _ in 0..n {
        let pick = if depth == 0 { r.below(4) } else { r.below(12) };
        match pick {
            0 | 1 => out.push(gen_text(r, c)),
            2 if r.chance(1, 3) => {
                // a text-bearing element of its own kind: RCDATA
                let a: Vec<&str> = anc.iter().rev().copied().collect();
                if html::nest_ok("textarea", &a) {
                    out.push(Node::Elem { tag: "textarea".into(), attrs: gen_attrs(r, c, false), kids: vec![gen_text(r, c)] });
                }
            }
            2 => out.extend(gen_kids(r, c, depth.min(1), anc, 1)),
            3 => {
                if in_fb && r.chance(1, 2) {
                    out.push(Node::ErrMsgs)
                } else {
                    out.push(Node::OkStr(gen_str(r, c)))
                }
            }
            4 => {
                // an ordinary element around more wrappers
                let tag: &'static str = pk(r, &["div", "span", "p", "b", "section", "x-foo"]);
                let a: Vec<&str> = anc.iter().rev().copied().collect();
                if !html::nest_ok(tag, &a) {
                    continue;
                }
                anc.push(tag);
                let kids = gen_wkids(r, c, depth - 1, anc, 3, in_susp, in_fb);
                anc.pop();
                out.push(Node::Elem { tag: tag.into(), attrs: gen_attrs(r, c, false), kids });
            }
            5 => out.push(Node::Show {
                cond: r.chance(1, 2),
                kids: gen_wkids(r, c, depth - 1, anc, 2, in_susp, in_fb),
                fb: gen_wkids(r, c, depth - 1, anc, 2, in_susp, in_fb),
            }),
            6 | 7 => {
                // a boundary; its children throw in half of the cases (one error: the order of several is unspecified)
                let mut kids = gen_wkids(r, c, depth - 1, anc, 2, in_susp, false);
                if r.chance(1, 2) {
                    let at = r.below(kids.len() + 1);
                    kids.insert(at, Node::Err(gen_str(r, c)));
                }
                // (a boundary's fallback is rendered synchronously even in a stream: no <Suspense> in it)
                let mut fb = gen_wkids(r, c, depth - 1, anc, 2, true, true);
                if r.chance(2, 3) {
                    let at = r.below(fb.len() + 1);
                    fb.insert(at, Node::ErrMsgs);
                }
                out.push(Node::Boundary { kids, fb });
            }
            8 => out.push(Node::ForEach { fam: r.below(2) as u8, rows: (0..r.below(4)).map(|_| gen_str(r, c)).collect() }),
            9 | 10 if !in_susp => {
                let mut kids = gen_wkids(r, c, depth - 1, anc, 2, true, in_fb);
                for _ in 0..r.range(1, 2) {
                    let at = r.below(kids.len() + 1);
                    let inner = gen_wkids(r, c, depth.saturating_sub(2), anc, 2, true, in_fb)
                        .into_iter()
                        .filter(|n| !matches!(n, Node::Err(_)))
                        .collect();
                    kids.insert(at, Node::Suspend { delay: r.below(3) as u8, kids: inner });
                }
                kids.truncate(MAX_KIDS);
                let fb = gen_wkids(r, c, 0, anc, 2, true, in_fb);
                out.push(Node::Suspense { transition: r.chance(1, 3), kids, fb });
            }
            11 if !in_susp => out.push(Node::Await { delay: r.below(3) as u8, data: gen_str(r, c) }),
            _ => out.push(gen_text(r, c)),
        }
    }
    out.truncate(MAX_KIDS);
    out
}

fn gen_kids(r: &mut Rng, c: &mut Ctx, depth: usize, anc: &mut Vec<&'static str>, max: usize) -> Vec<Node> {
    let n = r.below(max + 1);
    let mut out: Vec<Node> = vec![];
    for _ in 0..n {
        let pick = if depth == 0 { r.below(6) } else { r.below(14) };
        match pick {
            0..=2 => out.push(gen_text(r, c)),
            3 => out.push(gen_prim(r, c)),
            4 | 5 | 12 => {
                if r.chance(1, 8) {
                    out.push(Node::Unit)
                } else if depth > 0 && r.chance(1, 5) {
                    out.push(gen_island(r, c, depth, anc))
                } else {
                    out.push(gen_cont(r, c, depth, anc, false))
                }
            }
            6..=8 | 13 => {
                let tag: &'static str = if r.chance(1, 8) { pk(r, CUSTOM) } else { pk(r, GENERIC) };
                let a: Vec<&str> = anc.iter().rev().copied().collect();
                if !html::nest_ok(tag, &a) {
                    continue;
                }
                let inner = r.chance(1, 10);
                let attrs = gen_attrs(r, c, inner);
                let has_inner = !enc::inner_of(&attrs).is_empty();
                anc.push(tag);
                let kids = if has_inner { vec![] } else { gen_kids(r, c, depth - 1, anc, 4) };
                anc.pop();
                out.push(Node::Elem { tag: tag.into(), attrs, kids });
            }
            9 => {
                let tag = pk(r, VOIDS);
                let a: Vec<&str> = anc.iter().rev().copied().collect();
                if !html::nest_ok(tag, &a) {
                    continue;
                }
                out.push(Node::Elem { tag: tag.into(), attrs: gen_attrs(r, c, false), kids: vec![] });
            }
            10 => {
                let tag = pk(r, RAWS);
                let attrs = gen_attrs(r, c, false);
                let kids: Vec<Node> = if tag == "textarea" && r.chance(2, 3) {
                    // the usual shape: one string as the initial value (sometimes starting with a line feed)
                    let mut t = gen_text(r, c);
                    if r.chance(1, 6) {
                        if let Node::Text { s, .. } = &mut t {
                            s.insert(0, '\n');
                        }
                    }
                    vec![t]
                } else if c.raw_text {
                    (0..r.range(1, 2))
                        .map(|_| match r.below(4) {
                            0 => gen_cont(r, c, 0, anc, true),
                            1 => gen_prim(r, c),
                            _ => gen_text(r, c),
                        })
                        .collect()
                } else if r.chance(1, 3) {
                    // harmless content: exercised on the passing side
                    vec![Node::text(pk(r, &["a", "var a=1;", "p{color:red}", "x y"]))]
                } else if r.chance(1, 4) {
                    // containers without any string print nothing here
                    vec![Node::Cont { kind: *r.pick(&['V', 'Y', 'N', 'U']), ity: 'S', kids: vec![] }]
                } else {
                    vec![]
                };
                out.push(Node::Elem { tag: tag.into(), attrs, kids });
            }
            _ => {
                let kids = if r.chance(3, 4) { vec![gen_text(r, c)] } else { vec![] };
                out.push(Node::Elem { tag: "title".into(), attrs: gen_attrs(r, c, false), kids });
            }
        }
    }
    out
}

fn el(tag: &str, attrs: Vec<Attr>, kids: Vec<Node>) -> Node {
    Node::Elem { tag: tag.into(), attrs, kids }
}

fn ty(opt: char, t: &str) -> Ty {
    Ty { opt, ty: t.into() }
}

/// every hostile atom in every kind of string position and through every value type / container
fn small_scope() -> Vec<String> {
    let mut out: Vec<String> = vec![];
    for (i, a) in HOSTILE.iter().chain(DIRTY.iter()).enumerate() {
        let mut views: Vec<Vec<Node>> = vec![];
        let s = a.to_string();
        let t = || Node::text(&s);
        let tt = |ty: &str| Node::Text { ty: ty.into(), s: s.clone() };
        let c = |kind: char, ity: char, kids: Vec<Node>| Node::Cont { kind, ity, kids };
        let mut p = |v: Vec<Node>| views.push(v);
        // positions, `String`
        p(vec![el("div", vec![], vec![t()])]);
        p(vec![el("p", vec![], vec![t(), t(), Node::text(""), t()])]);
        p(vec![el("a", vec![Attr::Plain("href".into(), s.clone(), Ty::string())], vec![])]);
        p(vec![el("input", vec![Attr::Plain("value".into(), s.clone(), Ty::string()), Attr::Bool("disabled".into(), true)], vec![])]);
        p(vec![el("span", vec![Attr::Class(s.clone(), Ty::string()), Attr::ClassToggle(s.clone(), true, false), Attr::Class("k".into(), Ty::string())], vec![])]);
        p(vec![el("div", vec![Attr::Style(s.clone(), Ty::string()), Attr::StyleKV("color".into(), s.clone(), Ty::string())], vec![])]);
        p(vec![el("title", vec![], vec![t()])]);
        for raw in RAWS {
            p(vec![el(raw, vec![], vec![t()])]);
        }
        p(vec![el("x-foo", vec![Attr::Plain("data-x".into(), s.clone(), Ty::string())], vec![t()]), t()]);
        // every string type in a text position
        p(vec![el("div", vec![], TEXT_TYS.iter().skip(1).map(|ty| tt(ty)).collect())]);
        for ty_ in &TEXT_TYS[1..] {
            p(vec![el("span", vec![], vec![tt(ty_)])]);
        }
        // every value type of an attribute, a class, a style
        p(vec![el(
            "a",
            ATTR_STR_TYS.iter().zip(ATTR_NAMES).map(|(t_, n)| Attr::Plain(n.to_string(), s.clone(), ty('=', t_))).collect(),
            vec![],
        )]);
        p(vec![el(
            "a",
            vec![
                Attr::Plain("id".into(), s.clone(), ty('?', "String")),
                Attr::Plain("href".into(), s.clone(), ty('?', "str")),
                Attr::Plain("lang".into(), s.clone(), ty('?', "Arc")),
                Attr::Plain("alt".into(), s.clone(), ty('?', "Oco")),
                Attr::Plain("name".into(), s.clone(), ty('-', "String")),
                Attr::Plain("title".into(), s.clone(), ty('?', "OcoB")),
                Attr::Plain("data-x".into(), s.clone(), ty('?', "OcoC")),
            ],
            vec![],
        )]);
        // the style attribute is one merged string: the atom next to a url(), in either part
        p(vec![el("div", vec![Attr::Style(s.clone(), Ty::string()), Attr::StyleKV("background".into(), "url(x.png)".into(), Ty::string())], vec![])]);
        p(vec![el("div", vec![Attr::Style("background:url(x.png)".into(), ty('=', "str")), Attr::StyleKV("--v".into(), s.clone(), ty('=', "OcoB"))], vec![])]);
        p(vec![el("div", vec![Attr::StyleKV("background-image".into(), format!("url({s})"), Ty::string()), Attr::StyleKV("--w".into(), s.clone(), ty('=', "OcoC"))], vec![])]);
        p(vec![el("div", vec![Attr::Style(format!("background:url(a?b=1&c=2);--v:{s}"), Ty::string()), Attr::Class(format!("url( {s}"), ty('=', "OcoB"))], vec![])]);
        p(vec![el("b", CLASS_TYS.iter().map(|t_| Attr::Class(s.clone(), ty('=', t_))).collect(), vec![])]);
        p(vec![el(
            "b",
            vec![Attr::Class(s.clone(), ty('?', "String")), Attr::Class(s.clone(), ty('-', "String")), Attr::Class(s.clone(), ty('?', "Arc")), Attr::ClassToggle(s.clone(), true, true)],
            vec![],
        )]);
        p(vec![el("i", STYLE_TYS.iter().map(|t_| Attr::Style(s.clone(), ty('=', t_))).collect(), vec![])]);
        p(vec![el(
            "i",
            vec![Attr::Style(s.clone(), ty('?', "String")), Attr::Style(s.clone(), ty('-', "String")), Attr::Style(s.clone(), ty('?', "Oco"))],
            vec![],
        )]);
        p(vec![el(
            "em",
            KV_TYS
                .iter()
                .map(|t_| Attr::StyleKV("color".into(), s.clone(), ty('=', t_)))
                .chain([
                    Attr::StyleKV("width".into(), s.clone(), ty('=', "fn")),
                    Attr::StyleKV("--v".into(), s.clone(), ty('?', "String")),
                    Attr::StyleKV("--w".into(), s.clone(), ty('-', "str")),
                ])
                .collect(),
            vec![],
        )]);
        // child containers with direct string items
        for kind in ['V', 'Y', 'W', 'U'] {
            for ity in STR_ITEM_TYS {
                p(vec![el("p", vec![], vec![c(kind, *ity, vec![Node::text("safe"), t()]), t()])]);
            }
        }
        for kind in ['O', 'L', 'R'] {
            for ity in ['S', 's', 'a'] {
                p(vec![el("p", vec![], vec![t(), c(kind, ity, vec![t()]), c('N', ity, vec![]), t()])]);
            }
        }
        p(vec![el("div", vec![], vec![c('F', '*', vec![t(), el("b", vec![], vec![t()]), t()])])]);
        p(vec![el("div", vec![], vec![c('V', 'q', vec![c('O', 'S', vec![t()]), c('N', 'S', vec![]), c('O', 'S', vec![t()])])])]);
        p(vec![el("div", vec![], vec![c('V', 'v', vec![c('V', 'S', vec![t(), t()]), c('V', 'S', vec![])]), t()])]);
        p(vec![el("div", vec![], vec![c('V', '*', vec![c('O', 'S', vec![t()]), c('Y', 's', vec![t(), t()]), el("i", vec![], vec![c('W', 'a', vec![t()])]), Node::Unit])])]);
        p(vec![c('V', 'S', vec![t(), t()]), t(), c('U', 'S', vec![t()])]);
        p(vec![el("textarea", vec![], vec![c('V', 'S', vec![t()])])]);
        p(vec![el("textarea", vec![], vec![Node::text(&format!("\n{s}"))])]);
        p(vec![el("textarea", vec![], vec![t(), t()])]);
        p(vec![el("textarea", vec![Attr::Plain("name".into(), s.clone(), Ty::string())], vec![tt("Arc")]), t()]);
        p(vec![el("script", vec![], vec![c('O', 'S', vec![t()])])]);
        // a single character: `char` as child, as attribute value, in containers
        let mut cs = s.chars();
        if let (Some(ch), None) = (cs.next(), cs.next()) {
            let pc = || Node::Prim { ty: "char".into(), s: ch.to_string() };
            p(vec![el("div", vec![], vec![pc()])]);
            p(vec![el("div", vec![], vec![pc(), t(), pc(), el("b", vec![], vec![]), pc()]), pc()]);
            p(vec![el("p", vec![], vec![c('V', 'c', vec![pc(), pc()]), c('O', 'c', vec![pc()]), c('Y', 'c', vec![pc()])])]);
            p(vec![el(
                "input",
                vec![
                    Attr::Plain("value".into(), ch.to_string(), ty('=', "char")),
                    Attr::Plain("alt".into(), ch.to_string(), ty('?', "char")),
                    Attr::Plain("lang".into(), ch.to_string(), ty('-', "char")),
                ],
                vec![],
            )]);
            p(vec![el("input", vec![Attr::Plain("value".into(), ch.to_string(), ty('=', "typedchar"))], vec![])]);
        }
        for (j, v) in views.iter().enumerate() {
            out.push(format!("case ss{i}-{j}\nview {}", enc::encode(v)));
        }
        // islands: the props string as it is, and inside a JSON object
        let json = format!("{{\"label\":\"{}\"}}", s.replace('\\', "\\\\").replace('"', "\\\""));
        let isl = |props: &str, kids: Vec<Node>| Node::Island { comp: "Counter".into(), props: props.into(), kids };
        let mut k2 = 0;
        for v in [
            vec![isl(&s, vec![])],
            vec![el("div", vec![], vec![t(), isl(&json, vec![t(), Node::IslandChildren { kids: vec![t()] }]), t()])],
            vec![isl(&json, vec![isl(&s, vec![t()])]), t()],
        ] {
            out.push(format!("case ssi{i}-{k2}\nview {}", enc::encode(&v)));
            k2 += 1;
        }
        // leptos wrapper components around the atom, through to_html / in-order / out-of-order
        let ok = |x: &str| Node::OkStr(x.into());
        let er = |x: &str| Node::Err(x.into());
        let sus = |d: u8, kids: Vec<Node>| Node::Suspend { delay: d, kids };
        let wviews: Vec<Vec<Node>> = vec![
            vec![el("p", vec![], vec![t(), Node::Show { cond: true, kids: vec![t()], fb: vec![Node::text("fb")] }, Node::Show { cond: false, kids: vec![Node::text("k")], fb: vec![t(), el("b", vec![], vec![t()])] }, t()])],
            vec![el("p", vec![], vec![Node::Boundary { kids: vec![ok(&s)], fb: vec![Node::ErrMsgs] }, t()])],
            vec![el("p", vec![], vec![t(), Node::Boundary { kids: vec![er(&s)], fb: vec![Node::ErrMsgs] }, t()])],
            vec![el("div", vec![], vec![Node::Boundary { kids: vec![el("b", vec![], vec![er(&s)]), Node::text("tail")], fb: vec![Node::text("Errors: "), Node::ErrMsgs, el("span", vec![Attr::Plain("title".into(), s.clone(), Ty::string())], vec![Node::ErrMsgs])] }])],
            vec![Node::Boundary { kids: vec![Node::Show { cond: true, kids: vec![er(&s)], fb: vec![] }], fb: vec![t(), Node::ErrMsgs] }, t()],
            vec![el("p", vec![], vec![t(), Node::ForEach { fam: 0, rows: vec![s.clone(), "k".into(), s.clone()] }, t()]), el("div", vec![], vec![Node::ForEach { fam: 1, rows: vec![s.clone(), s.clone()] }])],
            vec![el("p", vec![], vec![t(), Node::Suspense { transition: false, kids: vec![sus(0, vec![t()]), el("b", vec![], vec![t()]), sus(1, vec![t(), t()])], fb: vec![t()] }, t()])],
            vec![el("div", vec![], vec![Node::Suspense { transition: true, kids: vec![Node::text("k"), sus(2, vec![el("i", vec![], vec![t()])])], fb: vec![el("i", vec![], vec![t()]), t()] }])],
            vec![el("div", vec![], vec![Node::Await { delay: 0, data: s.clone() }, Node::Await { delay: 1, data: s.clone() }])],
            vec![el("div", vec![], vec![Node::Suspense { transition: false, kids: vec![Node::Boundary { kids: vec![er(&s)], fb: vec![Node::ErrMsgs] }, sus(1, vec![Node::Show { cond: false, kids: vec![], fb: vec![t()] }])], fb: vec![Node::Boundary { kids: vec![er(&s)], fb: vec![Node::ErrMsgs, t()] }] }])],
            // every text-bearing node kind and every attribute kind without any wrapper: the streaming renderers
            // have their own element code (to_html_async_with_buf)
            vec![el("textarea", vec![Attr::Plain("name".into(), s.clone(), Ty::string())], vec![t()]), el("title", vec![], vec![t()]), t()],
            vec![el("div", vec![], vec![el("textarea", vec![], vec![tt("OcoB")]), el("textarea", vec![], vec![tt("fn")]), el("textarea", vec![], vec![c('V', 'S', vec![t()])]), el("textarea", vec![], vec![Node::text(&format!("\n{s}"))])])],
            vec![el(
                "p",
                vec![
                    Attr::Class(s.clone(), ty('=', "OcoC")),
                    Attr::Style(s.clone(), ty('=', "OcoB")),
                    Attr::StyleKV("background".into(), "url(x)".into(), Ty::string()),
                    Attr::Plain("title".into(), s.clone(), ty('=', "OcoB")),
                    Attr::Plain("lang".into(), s.clone(), ty('=', "TpL")),
                ],
                TEXT_TYS.iter().skip(1).map(|ty| tt(ty)).collect(),
            )],
            vec![el("div", vec![], vec![Node::Suspense { transition: false, kids: vec![sus(1, vec![el("textarea", vec![], vec![t()])]), el("textarea", vec![], vec![t()])], fb: vec![el("textarea", vec![], vec![t()])] }, Node::Show { cond: true, kids: vec![el("textarea", vec![], vec![t()])], fb: vec![] }])],
        ];
        for (k4, v) in wviews.iter().enumerate() {
            let e = enc::encode(v);
            for m in ["s", "i", "o"] {
                out.push(format!("case ssw{i}-{k4}{m}\nwview {m} {e}"));
            }
        }
        // every string leptos_meta injects into <html>, <head>, <body>
        let h = enc::hx(&s);
        let docs = [
            format!("doc T{h}"),
            format!("doc T{} F{h},", enc::hx("Home")),
            format!("doc T{} F,{h}", enc::hx("Home")),
            format!("doc T{h} F{h},{h}"),
            format!("doc F{h},{h} T{} T{h}", enc::hx("outer")),
            format!("doc l{}", LINK_KEYS.iter().map(|k| format!("{k}={h}")).collect::<Vec<_>>().join(",")),
            format!("doc j{}|-", SCRIPT_KEYS.iter().map(|k| format!("{k}={h}")).collect::<Vec<_>>().join(",")),
            format!("doc y{}|-", STYLE_KEYS.iter().map(|k| format!("{k}={h}")).collect::<Vec<_>>().join(",")),
            format!("doc jsrc={h}|c{h}"),
            format!("doc yid={h}|c{h}"),
            format!("doc k{h},i{h} k{h},-"),
            format!("doc H{}", attrs_word(&[Attr::Plain("lang".into(), s.clone(), Ty::string()), Attr::Class(s.clone(), Ty::string()), Attr::Plain("data-x".into(), s.clone(), ty('?', "str"))])),
            format!("doc B{}", attrs_word(&[Attr::Plain("id".into(), s.clone(), ty('=', "Arc")), Attr::Style(s.clone(), Ty::string()), Attr::StyleKV("color".into(), s.clone(), Ty::string()), Attr::ClassToggle(s.clone(), true, false)])),
            format!("doc T{h} mn,{h},{h} H{} B{}", attrs_word(&[Attr::Plain("lang".into(), s.clone(), Ty::string())]), attrs_word(&[Attr::Class(s.clone(), Ty::string())])),
            format!("doc H{}", attrs_word(&[Attr::Style(s.clone(), ty('=', "OcoB")), Attr::StyleKV("background".into(), "url(x.png)".into(), Ty::string()), Attr::Plain("lang".into(), s.clone(), ty('=', "OcoB"))])),
            format!("doc B{}", attrs_word(&[Attr::Style("background:url(x.png)".into(), Ty::string()), Attr::StyleKV("--v".into(), s.clone(), ty('=', "OcoC")), Attr::Class(s.clone(), ty('=', "OcoB")), Attr::Plain("title".into(), s.clone(), ty('=', "TpS"))])),
        ];
        for (k3, d) in docs.iter().enumerate() {
            out.push(format!("case ssd{i}-{k3}\n{d}"));
        }
        out.push(format!(
            "case ssh{i}\nhead t{} mn,{},{} mc,{},",
            enc::hx(&s),
            enc::hx(&s),
            enc::hx(&s),
            enc::hx(&s)
        ));
    }
    // every primitive type as child, as attribute value (plain / Some / None), in a Vec
    for (i, (t_, vals)) in PRIMS.iter().enumerate() {
        for (j, v) in vals.iter().enumerate() {
            let pr = || Node::Prim { ty: t_.to_string(), s: v.to_string() };
            let view = vec![el(
                "div",
                vec![
                    Attr::Plain("data-x".into(), v.to_string(), ty('=', t_)),
                    Attr::Plain("title".into(), v.to_string(), ty('?', t_)),
                    Attr::Plain("lang".into(), v.to_string(), ty('-', t_)),
                ],
                vec![pr(), Node::text("<"), pr(), Node::Cont { kind: 'V', ity: '*', kids: vec![pr(), pr()] }],
            )];
            out.push(format!("case prim{i}-{j}\nview {}", enc::encode(&view)));
        }
    }
    out.push(format!(
        "case prim-bool\nview {}",
        enc::encode(&[el(
            "p",
            vec![],
            vec![Node::Prim { ty: "bool".into(), s: "true".into() }, Node::Prim { ty: "bool".into(), s: "false".into() }]
        )])
    ));
    out
}

fn gen(seed: u64, n: usize, path: &str) -> std::io::Result<()> {
    use std::io::Write;
    let mut r = Rng::new(seed);
    let mut f = std::io::BufWriter::new(std::fs::File::create(path)?);
    for ops in small_scope() {
        writeln!(f, "{ops}")?;
    }
    for i in 0..n {
        let mut c = Ctx { raw_text: r.chance(1, 6), dirty: r.chance(1, 8) };
        writeln!(f, "case {i}")?;
        if r.chance(1, 5) {
            // leptos wrapper components: the same view through the three rendering entry points
            c.raw_text = false;
            let mut anc: Vec<&'static str> = vec![];
            let mut v = gen_wkids(&mut r, &mut c, 3, &mut anc, 3, false, false);
            if v.is_empty() {
                v.push(gen_text(&mut r, &mut c));
            }
            let e = enc::encode(&v);
            writeln!(f, "wview s {e}")?;
            for m in ["i", "o"] {
                writeln!(f, "case {i}{m}")?;
                writeln!(f, "wview {m} {e}")?;
            }
        } else if r.chance(1, 6) {
            let line = gen_doc(&mut r, &mut c);
            writeln!(f, "{line}")?;
        } else {
            let mut anc: Vec<&'static str> = vec![];
            let mut v = gen_kids(&mut r, &mut c, 4, &mut anc, 3);
            if v.is_empty() {
                v.push(gen_text(&mut r, &mut c));
            }
            writeln!(f, "view {}", enc::encode(&v))?;
        }
    }
    f.flush()
}

// ---------------------------------------------------------------- tags (positions / shapes / types hit)

type Tags = std::collections::BTreeSet<String>;

fn str_tags(s: &str, t: &mut Tags) {
    if s.is_empty() {
        t.insert("empty-str".into());
    }
    if s.contains('\0') {
        t.insert("nul".into());
    }
    if s.contains('\r') {
        t.insert("cr".into());
    }
    if s.chars().any(|c| "<>&\"'/=`".contains(c)) {
        t.insert("markup-chars".into());
    }
    if s.contains("</") || s.contains("<!--") || s.contains("-->") || s.contains("]]>") {
        t.insert("closers".into());
    }
    if s.contains("&#") || s.contains("&amp") || s.contains("&lt") || s.contains("&gt") || s.contains("&quot") {
        t.insert("entity-like".into());
    }
    if !s.is_ascii() {
        t.insert("non-ascii".into());
    }
}

fn ty_tag(prefix: &str, ty: &Ty, t: &mut Tags) {
    t.insert(format!("{prefix}:{}", ty.ty));
    match ty.opt {
        '?' => {
            t.insert(format!("{prefix}:Some"));
        }
        '-' => {
            t.insert(format!("{prefix}:None"));
        }
        _ => {}
    }
}

fn node_tags(nodes: &[Node], depth: usize, in_raw: bool, t: &mut Tags) {
    let mut prev_text = false;
    for n in nodes {
        match n {
            Node::Text { ty, s } => {
                t.insert("text".into());
                t.insert(format!("text:{ty}"));
                if prev_text {
                    t.insert("adjacent-text".into());
                }
                if in_raw {
                    t.insert("raw-text-child".into());
                }
                str_tags(s, t);
                prev_text = true;
            }
            Node::Prim { ty, s } => {
                t.insert(format!("prim:{ty}"));
                if in_raw {
                    t.insert("raw-text-child".into());
                }
                str_tags(s, t);
                prev_text = true;
            }
            Node::Unit => {
                t.insert("unit".into());
                prev_text = false;
            }
            Node::Cont { kind, ity, kids } => {
                t.insert(format!("cont:{kind}"));
                t.insert(format!("cont:{kind}{ity}"));
                node_tags(kids, depth, in_raw, t);
                prev_text = false;
            }
            Node::Island { props, kids, .. } => {
                t.insert("island".into());
                if !props.is_empty() {
                    t.insert("island-props".into());
                }
                str_tags(props, t);
                node_tags(kids, depth + 1, in_raw, t);
                prev_text = false;
            }
            Node::IslandChildren { kids } => {
                t.insert("island-children".into());
                node_tags(kids, depth + 1, in_raw, t);
                prev_text = false;
            }
            Node::Show { cond, kids, fb } => {
                t.insert(if *cond { "show:children".into() } else { "show:fallback".into() });
                node_tags(kids, depth, in_raw, t);
                node_tags(fb, depth, in_raw, t);
                prev_text = false;
            }
            Node::Boundary { kids, fb } => {
                t.insert("error-boundary".into());
                node_tags(kids, depth, in_raw, t);
                node_tags(fb, depth, in_raw, t);
                prev_text = false;
            }
            Node::OkStr(s) => {
                t.insert("result:ok".into());
                str_tags(s, t);
                prev_text = true;
            }
            Node::Err(s) => {
                t.insert("result:err".into());
                str_tags(s, t);
                prev_text = false;
            }
            Node::ErrMsgs => {
                t.insert("error-messages".into());
                prev_text = true;
            }
            Node::ForEach { fam, rows } => {
                t.insert(format!("for:{fam}"));
                rows.iter().for_each(|r| str_tags(r, t));
                prev_text = false;
            }
            Node::Suspense { transition, kids, fb } => {
                t.insert(if *transition { "transition".into() } else { "suspense".into() });
                node_tags(kids, depth, in_raw, t);
                node_tags(fb, depth, in_raw, t);
                prev_text = false;
            }
            Node::Suspend { delay, kids } => {
                t.insert(format!("suspend:{delay}"));
                node_tags(kids, depth, in_raw, t);
                prev_text = false;
            }
            Node::Await { delay, data } => {
                t.insert(format!("await:{delay}"));
                str_tags(data, t);
                prev_text = false;
            }
            Node::Elem { tag, attrs, kids } => {
                prev_text = false;
                t.insert(format!("depth{}", depth + 1));
                let raw = enc::TACHYS_RAW.contains(&tag.as_str());
                if enc::TACHYS_VOID.contains(&tag.as_str()) {
                    t.insert("void".into());
                } else if raw {
                    t.insert("raw-el".into());
                } else if tag == "title" {
                    t.insert("title-el".into());
                } else if html::is_custom_tag(tag) {
                    t.insert("custom-el".into());
                }
                for a in attrs {
                    match a {
                        Attr::Plain(_, v, ty) => {
                            t.insert("attr".into());
                            ty_tag("attr", ty, t);
                            str_tags(v, t);
                        }
                        Attr::Bool(..) => {
                            t.insert("bool-attr".into());
                        }
                        Attr::Class(v, ty) => {
                            ty_tag("class", ty, t);
                            str_tags(v, t);
                        }
                        Attr::ClassToggle(n, _, f) => {
                            t.insert(if *f { "class-toggle:fn".into() } else { "class-toggle".into() });
                            str_tags(n, t);
                        }
                        Attr::Style(v, ty) => {
                            ty_tag("style", ty, t);
                            str_tags(v, t);
                        }
                        Attr::StyleKV(_, v, ty) => {
                            ty_tag("style-kv", ty, t);
                            str_tags(v, t);
                        }
                        Attr::InnerHtml(_, ty) => ty_tag("inner-html", ty, t),
                    }
                }
                node_tags(kids, depth + 1, raw, t);
            }
        }
    }
}

fn tags_of_op(w: &[&str]) -> String {
    let mut t = Tags::new();
    match w {
        ["view", e] => {
            if let Some(nodes) = enc::decode(e) {
                node_tags(&nodes, 0, false, &mut t);
            }
        }
        ["wview", mode, e] => {
            t.insert(format!("wview:{mode}"));
            if let Some(nodes) = enc::decode(e) {
                node_tags(&nodes, 0, false, &mut t);
            }
        }
        ["doc", its @ ..] => {
            t.insert("doc".into());
            for w in its.iter() {
                if let Some(it) = parse_doc_item(w) {
                    match it {
                        DocItem::Text(s) => {
                            t.insert("doc-title".into());
                            str_tags(&s, &mut t);
                        }
                        DocItem::Fmt(a, b) => {
                            t.insert("doc-formatter".into());
                            str_tags(&a, &mut t);
                            str_tags(&b, &mut t);
                        }
                        DocItem::Meta(m) => {
                            t.insert("meta".into());
                            str_tags(&m.a, &mut t);
                            str_tags(&m.b, &mut t);
                        }
                        DocItem::Link(kv) => {
                            t.insert("doc-link".into());
                            kv.iter().for_each(|x| str_tags(&x.1, &mut t));
                        }
                        DocItem::Style(kv, ch) | DocItem::Script(kv, ch) => {
                            t.insert("doc-style-script".into());
                            kv.iter().for_each(|x| str_tags(&x.1, &mut t));
                            if let Some(ch) = ch {
                                t.insert("doc-raw-child".into());
                                str_tags(&ch, &mut t);
                            }
                        }
                        DocItem::Stylesheet(h, i) => {
                            t.insert("doc-stylesheet".into());
                            str_tags(&h, &mut t);
                            i.iter().for_each(|x| str_tags(x, &mut t));
                        }
                        DocItem::Html(a) | DocItem::Body(a) => {
                            t.insert("doc-html-body-attrs".into());
                            node_tags(&[Node::Elem { tag: "x-a".into(), attrs: a, kids: vec![] }], 0, false, &mut t);
                        }
                    }
                }
            }
        }
        ["head", title, ms @ ..] => {
            t.insert("head".into());
            if let Some(h) = title.strip_prefix('t') {
                t.insert("head-title".into());
                if let Some(s) = unhex_field(h) {
                    str_tags(&s, &mut t);
                }
            }
            for m in ms {
                if let Some(m) = parse_meta(m) {
                    t.insert("meta".into());
                    str_tags(&m.a, &mut t);
                    str_tags(&m.b, &mut t);
                }
            }
        }
        _ => {}
    }
    // a case is trivial (`plain`) when no string in it carries anything a parser could react to
    let interesting = ["markup-chars", "closers", "entity-like", "nul", "cr", "empty-str", "non-ascii", "adjacent-text"];
    if !t.iter().any(|x| interesting.contains(&x.as_str())) {
        return "plain".into();
    }
    t.into_iter().collect::<Vec<_>>().join(",")
}

fn main() {
    match parse_cli() {
        Cmd::Gen { seed, n, ops, .. } => gen(seed, n, &ops).unwrap(),
        Cmd::Run { ops, out } => {
            quiet_panics();
            sched::install();
            // first pass: tags of a case are derived from its op (positions and shapes hit)
            let mut tags = std::collections::HashMap::new();
            let text = std::fs::read_to_string(&ops).unwrap();
            let mut cur: Option<String> = None;
            for l in text.lines() {
                let w: Vec<&str> = l.split_whitespace().collect();
                match w.as_slice() {
                    ["case", n] => cur = Some(n.to_string()),
                    _ => {
                        if let Some(n) = &cur {
                            let t = tags_of_op(&w);
                            let e: &mut String = tags.entry(n.clone()).or_default();
                            if !e.is_empty() && !t.is_empty() {
                                e.push(',');
                            }
                            e.push_str(&t);
                        }
                    }
                }
            }
            run_ops(&ops, &out, |l| op(l, &tags)).unwrap()
        }
    }
}
