// Compiles the fixed template family (src/shape.rs) with the real `view!` macro: writes
// $OUT_DIR/templates.rs with three functions per shape (0 as written, 1 forced-dynamic twin, 2 one extra
// dynamic sibling) and the table TEMPLATES.  The family does not depend on the run's seed (VERIF_SEED only
// chooses hole values and which shapes a run exercises); HX_C18_N sets the number of pseudo-random shapes after the systematic ones.
#![allow(dead_code)]
include!("src/shape.rs");

fn main() {
    println!("cargo:rerun-if-changed=src/shape.rs");
    println!("cargo:rerun-if-changed=build.rs");
    println!("cargo:rerun-if-env-changed=HX_C18_N");
    let n: usize = std::env::var("HX_C18_N").ok().and_then(|s| s.parse().ok()).unwrap_or(170);
    let shapes = shapes(n);
    let mut o = String::new();
    o.push_str(&format!("pub const N_SHAPES: usize = {};\npub const N_RANDOM: usize = {};\n", shapes.len(), n));
    for (k, sh) in shapes.iter().enumerate() {
        let variants = [sh.roots.clone(), dynamize(&sh.roots), add_extra(&sh.roots, sh.site, "")];
        for (v, roots) in variants.iter().enumerate() {
            o.push_str(&format!(
                "#[allow(unused)]\npub fn t_{k}_{v}(s: &[String], b: &[bool]) -> [String; 3] {{\n    let s: &'static [String] = Box::leak(s.to_vec().into_boxed_slice());\n    let b: &'static [bool] = Box::leak(b.to_vec().into_boxed_slice());\n    let mk = move || view! {{ {} }};\n    [mk().to_html(), collect(mk().to_html_stream_in_order()), collect(mk().to_html_stream_out_of_order())]\n}}\n",
                rust_src(roots)
            ));
        }
    }
    o.push_str("pub type TFn = fn(&[String], &[bool]) -> [String; 3];\npub static TEMPLATES: &[[TFn; 3]] = &[\n");
    for k in 0..shapes.len() {
        o.push_str(&format!("    [t_{k}_0, t_{k}_1, t_{k}_2],\n"));
    }
    o.push_str("];\n");
    let out = std::path::Path::new(&std::env::var("OUT_DIR").unwrap()).join("templates.rs");
    std::fs::write(out, o).unwrap();
}
