//! C18 correspondence harness: the REAL `view!` expansions of a fixed template family (compiled by
//! build.rs from src/shape.rs) rendered with `to_html()`.
//!
//!   case <name>
//!   tmpl <k> <variant> <ast>     render shape k, variant 0 (as written) | 1 (forced-dynamic twin) |
//!                                2 (one extra dynamic sibling) with the hole values found in <ast>
//!   agree <site|-> <hex>         the three renders of this case agree after normalisation (variant 2
//!                                modulo its extra text `hex`, appended in the site-th element)
//!
//! `<ast>` (grammar: src/shape.rs) is the template with every value filled in; the model prints from it,
//! the harness checks that it is shape k / variant v up to hole values, takes the hole values from it and
//! calls the compiled function.  Observable: hex of the HTML.  Oracle (independent of the model): the
//! HTML, parsed by the hx-c06 tokenizer/tree builder and normalised (markers dropped, adjacent text merged,
//! attributes as ordinary ones + class tokens + style declarations), equals the tree the generator expects
//! for the template (`denote`); `agree` compares the three parses with each other.
use hx_c06::html::{self, Tree};
use hx_common::*;
use leptos::prelude::*;
use std::collections::{BTreeSet, HashMap};
use std::panic::{catch_unwind, AssertUnwindSafe};

#[allow(dead_code)]
mod shape {
    include!("../shape.rs");
}
use shape::*;

#[component]
fn Wrap(children: Children) -> impl IntoView {
    view! { <section>{children()}</section> }
}

/// a second component: forwards spread attributes to its own root element, which has attributes of its own
#[component]
fn Card(children: Children) -> impl IntoView {
    view! { <article role="group" class="card"><Wrap>{children()}</Wrap></article> }
}

mod templates {
    use super::{Card, Wrap};
    use futures::StreamExt;
    use leptos::prelude::*;
    use leptos::tachys::ssr::StreamBuilder;
    /// everything a (synchronous) view streams, concatenated
    fn collect(sb: StreamBuilder) -> String {
        futures::executor::block_on(sb.collect::<String>())
    }
    include!(concat!(env!("OUT_DIR"), "/templates.rs"));
}
use templates::{N_RANDOM, N_SHAPES, TEMPLATES};

// ---------------------------------------------------------------- expected tree (generator side)

fn ren(tag: &str) -> String {
    if parse_renamed(tag) {
        format!("x-{tag}")
    } else {
        tag.to_string()
    }
}

fn push_text(out: &mut Vec<Tree>, s: &str) {
    if s.is_empty() {
        return;
    }
    if let Some(Tree::Text(t)) = out.last_mut() {
        t.push_str(s);
    } else {
        out.push(Tree::Text(s.to_string()));
    }
}

fn class_tokens(v: &str) -> Vec<String> {
    v.split(|c| matches!(c, ' ' | '\t' | '\n' | '\x0c' | '\r')).filter(|t| !t.is_empty()).map(String::from).collect()
}

fn style_norm(v: &str) -> String {
    v.trim_start().split(';').filter(|p| !p.is_empty()).collect::<Vec<_>>().join(";")
}

/// the attributes a template gives an element: ordinary ones in source order, then the class list
/// (`class` value, `class:` toggles, tuple toggles), then the style declarations (`style`, `style:`)
fn den_attrs(attrs: &[TAttr]) -> Vec<(String, String)> {
    let mut out = vec![];
    for a in attrs {
        match a {
            TAttr::Plain(_, n, v) => out.push((n.clone(), v.clone())),
            TAttr::Flag(n) | TAttr::BoolDyn(n, true) | TAttr::LitBool(n, true) => out.push((n.clone(), String::new())),
            TAttr::LitVal(n, v) => out.push((n.clone(), lit_rendered(v))),
            _ => {}
        }
    }
    // the class value: the pieces joined by spaces, trimmed (leptos trims it with str::trim on both paths
    // since fix-c18-3), then read as the DOM reads it (ASCII-whitespace separated tokens)
    let mut cls = String::new();
    for a in attrs {
        if let TAttr::Cls(_, v) = a {
            cls.push(' ');
            cls.push_str(v);
        }
    }
    for a in attrs {
        if let TAttr::ClsToggle(n, true) = a {
            cls.push(' ');
            cls.push_str(n);
        }
    }
    for a in attrs {
        if let TAttr::ClsTuple(n, true) = a {
            cls.push(' ');
            cls.push_str(n);
        }
    }
    let toks = class_tokens(cls.trim());
    if !toks.is_empty() {
        out.push(("class".into(), toks.join(" ")));
    }
    let mut st = String::new();
    for a in attrs {
        if let TAttr::Style(_, v) = a {
            st.push_str(v);
            st.push(';');
        }
    }
    for a in attrs {
        if let TAttr::StyleKV(_, n, v) = a {
            st.push_str(&format!("{n}:{v};"));
        }
    }
    let st = style_norm(&st);
    if !st.is_empty() {
        out.push(("style".into(), st));
    }
    out
}

/// `esc`: the strings here are children of an element that escapes its children; there an empty string
/// stands for one space (leptos keeps a text node for it, on both paths since fix-c18-4)
/// attributes spread onto a component's root element: ordinary ones in order, the class pieces and the style
/// declarations in SOURCE order (the macro sorts class/style first only on elements)
fn spread_attrs(attrs: &[TAttr]) -> Vec<(String, String)> {
    let mut out = vec![];
    let mut cls = String::new();
    let mut st = String::new();
    for a in attrs {
        match a {
            TAttr::Plain(_, n, v) => out.push((n.clone(), v.clone())),
            TAttr::Flag(n) | TAttr::BoolDyn(n, true) | TAttr::LitBool(n, true) => out.push((n.clone(), String::new())),
            TAttr::LitVal(n, v) => out.push((n.clone(), lit_rendered(v))),
            TAttr::Cls(_, v) => {
                cls.push(' ');
                cls.push_str(v);
            }
            TAttr::ClsToggle(n, true) | TAttr::ClsTuple(n, true) => {
                cls.push(' ');
                cls.push_str(n);
            }
            TAttr::Style(_, v) => {
                st.push_str(v);
                st.push(';');
            }
            TAttr::StyleKV(_, n, v) => st.push_str(&format!("{n}:{v};")),
            _ => {}
        }
    }
    let toks = class_tokens(cls.trim());
    if !toks.is_empty() {
        out.push(("class".into(), toks.join(" ")));
    }
    let st = style_norm(&st);
    if !st.is_empty() {
        out.push(("style".into(), st));
    }
    out
}

fn den(nodes: &[Tmpl], esc: bool, out: &mut Vec<Tree>) {
    for n in nodes {
        match n {
            Tmpl::Text(s, _) | Tmpl::Block(s) => push_text(out, if esc && s.is_empty() { " " } else { s }),
            Tmpl::Elem(tag, attrs, kids) => {
                let mut k = vec![];
                if !VOID.contains(&tag.as_str()) {
                    den(kids, !is_raw_tag(tag), &mut k);
                }
                out.push(Tree::Elem { tag: ren(tag), attrs: den_attrs(attrs), kids: k });
            }
            Tmpl::Frag(kids) => den(kids, esc, out),
            Tmpl::Comp(kids) => {
                let mut k = vec![];
                den(kids, true, &mut k);
                out.push(Tree::Elem { tag: "section".into(), attrs: vec![], kids: k });
            }
            // a comment is not part of the view; the doctype is not part of the tree; a unit block renders no node
            Tmpl::Comment(_) | Tmpl::Doctype | Tmpl::Unit(_) => {}
            Tmpl::CompA(card, attrs, kids) => {
                let mut k = vec![];
                den(kids, true, &mut k);
                if *card {
                    // <article role="group" class="card"> + the spread attributes, around the <section>
                    let mut all = vec![TAttr::Plain(false, "role".into(), "group".into()), TAttr::Cls(false, "card".into())];
                    all.extend(attrs.iter().cloned());
                    let inner = Tree::Elem { tag: "section".into(), attrs: vec![], kids: k };
                    out.push(Tree::Elem { tag: "article".into(), attrs: spread_attrs(&all), kids: vec![inner] });
                } else {
                    out.push(Tree::Elem { tag: "section".into(), attrs: spread_attrs(attrs), kids: k });
                }
            }
        }
    }
}

fn denote(nodes: &[Tmpl]) -> Vec<Tree> {
    let mut out = vec![];
    den(nodes, true, &mut out);
    out
}

// ---------------------------------------------------------------- normal form of a parsed document

fn norm_attrs(attrs: &[(String, String)]) -> Vec<(String, String)> {
    let mut out: Vec<(String, String)> =
        attrs.iter().filter(|(n, _)| n != "class" && n != "style").cloned().collect();
    for (n, v) in attrs {
        if n == "class" {
            let t = class_tokens(v);
            if !t.is_empty() {
                out.push(("class".into(), t.join(" ")));
            }
        }
    }
    for (n, v) in attrs {
        if n == "style" {
            let s = style_norm(v);
            if !s.is_empty() {
                out.push(("style".into(), s));
            }
        }
    }
    out
}

fn normalise(ts: &[Tree]) -> Vec<Tree> {
    let mut out = vec![];
    for t in ts {
        match t {
            Tree::Text(s) => push_text(&mut out, s),
            Tree::Comment(c) if c.is_empty() => {}
            Tree::Comment(c) => out.push(Tree::Comment(c.clone())),
            Tree::Elem { tag, attrs, kids } => {
                out.push(Tree::Elem { tag: tag.clone(), attrs: norm_attrs(attrs), kids: normalise(kids) })
            }
        }
    }
    out
}

/// SVG and MathML elements are outside the parser subset (foreign content); leptos never emits `/>` or CDATA, so
/// they tokenise like unknown HTML elements: parse them as custom elements `x-<tag>`
fn rename_svg(h: &str) -> String {
    let cs: Vec<char> = h.chars().collect();
    let mut o = String::with_capacity(h.len() + 16);
    let mut i = 0;
    while i < cs.len() {
        if cs[i] == '<' {
            let mut j = i + 1;
            if j < cs.len() && cs[j] == '/' {
                j += 1;
            }
            let start = j;
            while j < cs.len() && (cs[j].is_ascii_alphanumeric() || cs[j] == '-') {
                j += 1;
            }
            let name: String = cs[start..j].iter().collect();
            o.extend(&cs[i..start]);
            if parse_renamed(&name) {
                o.push_str("x-");
            }
            o.push_str(&name);
            i = j;
        } else {
            o.push(cs[i]);
            i += 1;
        }
    }
    o
}

/// one flag per `<noscript>` of the template, in document order: does it have element children?  Such a
/// noscript is read as a user agent WITHOUT scripting reads it (its content is markup); a noscript with only
/// strings as the parser with scripting reads it (raw text).
fn noscript_flags(nodes: &[Tmpl]) -> Vec<bool> {
    fn has_elem(nodes: &[Tmpl]) -> bool {
        nodes.iter().any(|n| match n {
            Tmpl::Elem(..) | Tmpl::Comp(_) | Tmpl::CompA(..) => true,
            Tmpl::Frag(k) => has_elem(k),
            _ => false,
        })
    }
    fn go(nodes: &[Tmpl], out: &mut Vec<bool>) {
        for n in nodes {
            match n {
                Tmpl::Elem(tag, _, kids) => {
                    if tag == "noscript" {
                        out.push(has_elem(kids));
                    }
                    go(kids, out);
                }
                Tmpl::Frag(k) | Tmpl::Comp(k) | Tmpl::CompA(_, _, k) => go(k, out),
                _ => {}
            }
        }
    }
    let mut out = vec![];
    go(nodes, &mut out);
    out
}

/// re-parse the raw text of the flagged `<noscript>` elements as markup (document order)
fn reparse_noscript(ts: Vec<Tree>, flags: &mut std::collections::VecDeque<bool>) -> Option<Vec<Tree>> {
    let mut out = vec![];
    for t in ts {
        match t {
            Tree::Elem { tag, attrs, kids } => {
                let kids = if tag == "noscript" && flags.pop_front().unwrap_or(false) {
                    let raw: String = match kids.as_slice() {
                        [] => String::new(),
                        [Tree::Text(t)] => t.clone(),
                        _ => return None,
                    };
                    html::parse(&raw)?
                } else {
                    kids
                };
                out.push(Tree::Elem { tag, attrs, kids: reparse_noscript(kids, flags)? });
            }
            t => out.push(t),
        }
    }
    Some(out)
}

fn parse_norm(h: &str, flags: &[bool]) -> Option<Vec<Tree>> {
    // a leading doctype is outside the parser subset and not part of the tree
    let h = h.strip_prefix("<!DOCTYPE html>").unwrap_or(h);
    let t = html::parse(&rename_svg(h))?;
    let mut f: std::collections::VecDeque<bool> = flags.iter().copied().collect();
    Some(normalise(&reparse_noscript(t, &mut f)?))
}

/// append `v` as text to the children of the `site`-th element (pre-order), or to the roots
fn append_text_at(ts: &mut Vec<Tree>, site: Option<usize>, v: &str) -> bool {
    fn go(ts: &mut Vec<Tree>, next: &mut usize, site: usize, v: &str) -> bool {
        for t in ts.iter_mut() {
            if let Tree::Elem { kids, .. } = t {
                let me = *next;
                *next += 1;
                if me == site {
                    push_text(kids, v);
                    return true;
                }
                if go(kids, next, site, v) {
                    return true;
                }
            }
        }
        false
    }
    match site {
        None => {
            push_text(ts, v);
            true
        }
        Some(s) => {
            let mut next = 0;
            go(ts, &mut next, s, v)
        }
    }
}

// ---------------------------------------------------------------- running

fn variant_roots(k: usize, v: usize, family: &[Shape]) -> Vec<Tmpl> {
    let sh = &family[k];
    match v {
        0 => sh.roots.clone(),
        1 => dynamize(&sh.roots),
        _ => add_extra(&sh.roots, sh.site, ""),
    }
}

struct St {
    /// normalised parse of each variant rendered in this case
    seen: HashMap<usize, Option<Vec<Tree>>>,
}

fn op(line: &str, st: &mut St, family: &[Shape], tags: &HashMap<String, String>) -> String {
    let w: Vec<&str> = line.split_whitespace().collect();
    match w.as_slice() {
        ["case", n] => {
            st.seen.clear();
            match tags.get(*n) {
                Some(t) if !t.is_empty() => format!("case {n} tags={t}"),
                _ => format!("case {n}"),
            }
        }
        ["tmpl", k, v, ast] => {
            let (Ok(k), Ok(v)) = (k.parse::<usize>(), v.parse::<usize>()) else { return "bad-op".into() };
            if k >= N_SHAPES || v > 2 {
                return "bad-op".into();
            }
            let Some(t) = decode(ast) else { return "bad-op".into() };
            if !same_shape(&t, &variant_roots(k, v, family)) {
                return "bad-op".into();
            }
            let h = holes_of(&t);
            let f = TEMPLATES[k][v];
            let out = match catch_unwind(AssertUnwindSafe(|| f(&h.strs, &h.bools))) {
                Ok(o) => o,
                Err(_) => return "panic ## fail panic".into(),
            };
            // every rendering entry point must yield the document the template denotes
            let want = denote(&t);
            let flags = noscript_flags(&t);
            let mut verdict = "ok".to_string();
            let mut first = None;
            for (i, o) in out.iter().enumerate() {
                let got = parse_norm(o, &flags);
                if verdict == "ok" {
                    match &got {
                        Some(g) if *g == want => {}
                        Some(g) => {
                            verdict = format!(
                                "fail mismatch entry={} got={} want={}",
                                ["to_html", "stream_in_order", "stream_out_of_order"][i],
                                html::show(g).replace(' ', "_"),
                                html::show(&want).replace(' ', "_")
                            )
                        }
                        None => verdict = format!("fail unparsable entry={}", ["to_html", "stream_in_order", "stream_out_of_order"][i]),
                    }
                }
                if i == 0 {
                    first = Some(got);
                }
            }
            st.seen.insert(v, first.unwrap());
            // observable: to_html(), then the two streams (`=` when byte-identical to to_html())
            let show = |o: &String| if *o == out[0] { "=".to_string() } else { hex(o.as_bytes()) };
            format!("{} {} {} ## {}", hex(out[0].as_bytes()), show(&out[1]), show(&out[2]), verdict)
        }
        ["agree", site, extra] => {
            let site = if *site == "-" {
                None
            } else {
                match site.parse::<usize>() {
                    Ok(s) => Some(s),
                    Err(_) => return "bad-op".into(),
                }
            };
            let Some(extra) = unhex_str(extra) else { return "bad-op".into() };
            let (Some(n0), Some(n1), Some(n2)) = (st.seen.get(&0), st.seen.get(&1), st.seen.get(&2)) else {
                return "bad-op".into();
            };
            let ok = match (n0, n1, n2) {
                (Some(n0), Some(n1), Some(n2)) => {
                    let mut n0x = n0.clone();
                    n0 == n1 && append_text_at(&mut n0x, site, &extra) && n0x == *n2
                }
                _ => false,
            };
            format!("agree ## {}", if ok { "ok" } else { "fail variants-differ" })
        }
        _ => "bad-op".into(),
    }
}

// ---------------------------------------------------------------- tags (distribution histogram)

const MACRO_VOID: &[&str] =
    &["area", "base", "br", "col", "embed", "hr", "img", "input", "link", "meta", "param", "source", "track", "wbr"];

fn attr_inert(a: &TAttr) -> bool {
    matches!(a, TAttr::Plain(false, ..) | TAttr::Flag(_) | TAttr::Cls(false, _) | TAttr::Style(false, _))
}

fn inert_node(t: &Tmpl) -> bool {
    match t {
        Tmpl::Text(..) => true,
        Tmpl::Elem(_, attrs, kids) => attrs.iter().all(attr_inert) && kids.iter().all(inert_node),
        _ => false,
    }
}

fn is_inert(t: &Tmpl) -> bool {
    match t {
        Tmpl::Elem(tag, attrs, kids) => {
            !(attrs.is_empty() && kids.is_empty()) && !is_foreign(tag) && inert_node(t)
        }
        _ => false,
    }
}

fn special(s: &str) -> bool {
    s.contains(|c| matches!(c, '<' | '>' | '&' | '"'))
}

fn uni_ws_only(c: char) -> bool {
    c.is_whitespace() && !matches!(c, ' ' | '\t' | '\n' | '\x0c' | '\r')
}

fn node_tags(nodes: &[Tmpl], top: bool, in_inert: bool, escape: bool, t: &mut BTreeSet<String>) {
    for n in nodes {
        match n {
            Tmpl::Text(s, _) | Tmpl::Block(s) => {
                if matches!(n, Tmpl::Block(_)) {
                    t.insert("block".into());
                } else if matches!(n, Tmpl::Text(_, true)) {
                    t.insert("unquoted".into());
                }
                if special(s) {
                    t.insert("hostile".into());
                }
                if !s.is_empty() && s.trim().is_empty() && s != " " {
                    t.insert("ws-only-text".into());
                }
                if s.is_empty() && !in_inert && escape {
                    t.insert("empty-str".into());
                }
            }
            Tmpl::Elem(tag, attrs, kids) => {
                let inert = in_inert || (!top && is_inert(n));
                t.insert(if inert { "inert".into() } else { "builder".into() });
                if SVG_ALL.contains(&tag.as_str()) {
                    t.insert("svg".into());
                } else if MATH_ALL.contains(&tag.as_str()) {
                    t.insert("math".into());
                } else if tag == "pre" {
                    t.insert("pre".into());
                } else if tag.contains('-') {
                    t.insert("custom".into());
                } else if MACRO_VOID.contains(&tag.as_str()) {
                    t.insert("void".into());
                } else if is_raw_tag(tag) || tag == "title" {
                    t.insert("rawtext".into());
                    let texts = kids.iter().filter(|k| matches!(k, Tmpl::Text(..) | Tmpl::Block(_))).count();
                    if texts >= 2 && !inert {
                        t.insert("rawtext-marker".into());
                    }
                    if tag == "noscript"
                        && inert
                        && kids.iter().any(|k| matches!(k, Tmpl::Text(s, _) if s.contains(|c| matches!(c, '<' | '>' | '&'))))
                    {
                        t.insert("noscript-static".into());
                    }
                }
                for a in attrs {
                    match a {
                        TAttr::Plain(d, _, v) => {
                            t.insert(if *d { "attr-dyn".into() } else { "attr-static".into() });
                            if special(v) {
                                t.insert("hostile".into());
                            }
                        }
                        TAttr::Flag(_) | TAttr::BoolDyn(..) => {
                            t.insert("attr-bool".into());
                        }
                        TAttr::LitBool(..) | TAttr::LitVal(..) => {
                            t.insert("attr-literal".into());
                        }
                        TAttr::Cls(_, v) | TAttr::ClsToggle(v, _) | TAttr::ClsTuple(v, _) => {
                            t.insert("classforms".into());
                            if special(v) {
                                t.insert("hostile".into());
                            }
                            if !inert && v.chars().any(uni_ws_only) {
                                t.insert("class-uniws".into());
                            }
                        }
                        TAttr::Style(_, v) | TAttr::StyleKV(_, _, v) => {
                            t.insert("styleforms".into());
                            if special(v) {
                                t.insert("hostile".into());
                            }
                        }
                    }
                }
                if kids.is_empty() && self_closed_syntax(tag, attrs, kids) {
                    t.insert("self-closed-syntax".into());
                }
                if kids.len() > 16 {
                    t.insert("chunked".into());
                }
                node_tags(kids, false, inert, !is_raw_tag(tag), t);
            }
            Tmpl::Frag(kids) => {
                t.insert(if top { "frag".into() } else { format!("frag-nested{}", kids.len().min(2)) });
                node_tags(kids, true, in_inert, escape, t);
            }
            Tmpl::Comment(_) => {
                t.insert("comment".into());
            }
            Tmpl::Unit(k) => {
                t.insert(format!("unit-block{k}"));
            }
            Tmpl::CompA(card, attrs, kids) => {
                t.insert(if *card { "comp-attrs-card".into() } else { "comp-attrs".into() });
                for a in attrs {
                    if let TAttr::Plain(_, n, _) | TAttr::LitVal(n, _) = a {
                        t.insert(match n.matches('-').count() {
                            0 => "spread-word".into(),
                            1 => "spread-dash1".into(),
                            _ => "spread-dashN".to_string(),
                        });
                    }
                }
                node_tags(kids, true, false, true, t);
            }
            Tmpl::Doctype => {
                t.insert("doctype".into());
            }
            Tmpl::Comp(kids) => {
                t.insert("comp".into());
                node_tags(kids, true, false, true, t);
            }
        }
    }
}

fn scan_tags(ops_path: &str) -> HashMap<String, String> {
    let mut m = HashMap::new();
    let Ok(txt) = std::fs::read_to_string(ops_path) else { return m };
    let mut cur: Option<(String, BTreeSet<String>)> = None;
    let mut flush = |cur: &mut Option<(String, BTreeSet<String>)>, m: &mut HashMap<String, String>| {
        if let Some((n, t)) = cur.take() {
            let t = if t.is_empty() { "plain".to_string() } else { t.into_iter().collect::<Vec<_>>().join(",") };
            m.insert(n, t);
        }
    };
    for line in txt.lines() {
        let w: Vec<&str> = line.split_whitespace().collect();
        match w.as_slice() {
            ["case", n] => {
                flush(&mut cur, &mut m);
                cur = Some((n.to_string(), BTreeSet::new()));
            }
            ["tmpl", _, v, ast] => {
                if let (Some((_, t)), Some(nodes)) = (cur.as_mut(), decode(ast)) {
                    t.insert(format!("v{v}"));
                    node_tags(&nodes, true, false, true, t);
                }
            }
            ["agree", ..] => {
                if let Some((_, t)) = cur.as_mut() {
                    t.insert("triple".into());
                }
            }
            _ => {}
        }
    }
    flush(&mut cur, &mut m);
    m
}

// ---------------------------------------------------------------- generator

const HOSTILE: &[&str] = &[
    "<", ">", "&", "\"", "'", "/", "=", "`", "<!--", "-->", "]]>", "<![CDATA[", "</script", "</script>", "</title>",
    "</textarea>", "</style>", "</noscript>", "&amp;", "&#x3c;", "&lt", "&#60;", "&quot;", "é", "日本", "😀", "\u{2028}",
    " ", "\n", "\t", "a", "b", "x=1", "<b>", "<img src=x onerror=alert(1)>", "<!>", "<!", "</", "<?", "javascript:",
    "\u{feff}", "\u{1}", "\u{7f}", "\u{fffd}", "--", "-", "!", ";", "#", "&#", "&a", "& ", "\u{10ffff}", "\u{e000}",
    "<script>", "<a href=\"", "\" onload=\"", "' x='", "&gt", "<p>", "</div>", "</p>", "</section>",
];
const BENIGN: &[&str] = &["a", "b", "hello", "x1", "z", "ok", "some words here", "A", "é", "日本", "42"];
const CLASSY: &[&str] = &["a", "a b", " k  j ", "x\"y", "<c>", "btn btn-lg", "é", "a\tb", "a&b", "c1 c2 c3", "\n x \n"];
const STYLEY: &[&str] = &[
    "color:red", "color:red;left:1px", " margin:0 ", "a:b;;", "x:\"<&>", "color:red;", "top:1px ; left:2px", "1px", "red",
    "\"<&>", "a;b", " 2em ", ";", "</style>",
];
const RAW_SAFE: &[&str] = &["a", "var a=1;", "p{color:red}", "x y", "if (a > b) {}", "1 < 2", "\"q\"", "é", "a & b", "{}"];

fn gen_value(r: &mut Rng, k: HoleKind) -> String {
    let mut s = String::new();
    match k {
        HoleKind::RawText => s.push_str(*r.pick(RAW_SAFE)),
        HoleKind::Class => match r.below(40) {
            0 => s.push_str("\u{a0}x"),
            1 => {}
            _ => s.push_str(*r.pick(CLASSY)),
        },
        HoleKind::Style => match r.below(12) {
            0 => {}
            1 => {
                s.push_str(*r.pick(HOSTILE));
                s.push_str(*r.pick(STYLEY));
            }
            _ => s.push_str(*r.pick(STYLEY)),
        },
        HoleKind::Text | HoleKind::Attr => match r.below(20) {
            0 => {
                // the empty string: an attribute value like any other; as text it is rendered as one space
                if k == HoleKind::Attr || r.chance(1, 2) {
                } else {
                    s.push(' ');
                }
            }
            1..=4 => s.push_str(*r.pick(BENIGN)),
            5 => s.push_str(*r.pick(&["  ", "\t", "\n", " \n ", "\u{a0}", "\u{a0} \u{a0}", "\u{2003}", "\n\n\n"])),
            6 | 7 => {
                for _ in 0..r.range(1, 4) {
                    let cp = match r.below(4) {
                        0 => r.range(0x20, 0x7e) as u32,
                        1 => r.range(0xa0, 0x7ff) as u32,
                        2 => r.range(0x800, 0xffff) as u32,
                        _ => r.range(0x10000, 0x10ffff) as u32,
                    };
                    s.push(char::from_u32(cp).unwrap_or('\u{fffd}'));
                }
            }
            _ => {
                for _ in 0..r.range(1, 3) {
                    s.push_str(*r.pick(HOSTILE));
                }
            }
        },
    }
    s
}

fn random_holes(r: &mut Rng, roots: &[Tmpl]) -> Holes {
    let kinds = hole_kinds(roots);
    let nb = holes_of(roots).bools.len();
    Holes { strs: kinds.iter().map(|k| gen_value(r, *k)).collect(), bools: (0..nb).map(|_| r.chance(3, 5)).collect() }
}

fn gen(seed: u64, n: usize, path: &str, family: &[Shape]) -> std::io::Result<()> {
    use std::io::Write;
    let mut r = Rng::new(seed ^ 0xC18);
    let mut f = std::io::BufWriter::new(std::fs::File::create(path)?);
    let off = r.below(N_SHAPES);
    for i in 0..n {
        // every shape in turn (starting at a seed-chosen one), values from the seed
        let k = (off + i) % N_SHAPES;
        let sh = &family[k];
        writeln!(f, "case g{i}")?;
        match r.below(10) {
            0 => {
                // the twin alone, every hole (also the former literals) with a generated value
                let t = dynamize(&sh.roots);
                let t = fill(&t, &random_holes(&mut r, &t));
                writeln!(f, "tmpl {k} 1 {}", encode(&t))?;
            }
            1 => {
                let t = fill(&sh.roots, &random_holes(&mut r, &sh.roots));
                writeln!(f, "tmpl {k} 0 {}", encode(&t))?;
            }
            _ => {
                let t0 = fill(&sh.roots, &random_holes(&mut r, &sh.roots));
                let t1 = dynamize(&t0);
                let extra = loop {
                    let e = gen_value(&mut r, HoleKind::Text);
                    if !e.is_empty() {
                        break e;
                    }
                };
                let t2 = add_extra(&t0, sh.site, &extra);
                writeln!(f, "tmpl {k} 0 {}", encode(&t0))?;
                writeln!(f, "tmpl {k} 1 {}", encode(&t1))?;
                writeln!(f, "tmpl {k} 2 {}", encode(&t2))?;
                let site = sh.site.map_or("-".to_string(), |s| s.to_string());
                writeln!(f, "agree {site} {}", hex(extra.as_bytes()))?;
            }
        }
    }
    f.flush()
}

fn main() {
    let family = shapes(N_RANDOM);
    assert_eq!(family.len(), N_SHAPES);
    match parse_cli() {
        Cmd::Gen { seed, n, ops, .. } => gen(seed, n, &ops, &family).expect("gen"),
        Cmd::Run { ops, out } => {
            quiet_panics();
            let tags = scan_tags(&ops);
            let mut st = St { seen: HashMap::new() };
            run_ops(&ops, &out, |l| op(l, &mut st, &family, &tags)).expect("run");
        }
    }
}
