// Template shapes of the C18 harness: AST, op encoding, the fixed (seed-independent) shape family and
// its Rust source.  `include!`d by build.rs (which compiles every shape with the real `view!`) and by
// src/bin/c18.rs (generator, runner), so both always see the same family.
//
// Encoding (one word; lean/Driver/C18.lean decodes the same grammar):
//   node := 'T' hex ';'                       "…" literal / unquoted text
//         | 'B' hex ';'                       {expr} with this String value
//         | 'E' tag ';' attr* '>' node* '<'   element
//         | 'F' node* '<'                     <>…</>
//         | 'W' node* '<'                     <Wrap>…</Wrap>
//         | 'M' hex ';'                       <!-- "…" -->
//         | 'Y'                               <!DOCTYPE html>   (only as the first root node)
//         | 'V' digit                         a block of unit type: 0 {()} 1 {} 2 {let _ = 1;} 3 {None::<String>} 4 {Vec::<String>::new()}
//         | 'Q' bit attr* '>' node* '<'       a component with spread attributes: <Wrap …> (0) / <Card …> (1); the attr forms
//                                             are written attr:name=… / attr:class=… / attr:style=… / class:n=… / style:n=…
//   attr := 'A' d hex ';' hex ';'             name="v" (d=0) / name={v} (d=1)
//         | 'G' hex ';'                       name            (no value)
//         | 'b' hex ';' bit                   name={bool}
//         | 'C' d hex ';'                     class="v" / class={v}
//         | 'S' d hex ';'                     style="v" / style={v}
//         | 'D' hex ';' bit                   class:name={bool}
//         | 'U' hex ';' bit                   class=("name", bool)
//         | 'K' d hex ';' hex ';'             style:name="v" / style:name={v}
//         | 'L' hex ';' bit                   name=true / name=false        (boolean LITERAL: no hole)
//         | 'N' hex ';' hex ';'               name=2 / name=1.5 / name='c'   (int / float / char LITERAL; 2nd = source text)
// hex = lower-case hex of the UTF-8 bytes (may be empty); d, bit = '0' | '1'; tag = [a-z0-9-]+.

#[derive(Clone, Debug, PartialEq)]
pub enum TAttr {
    Plain(bool, String, String),
    Flag(String),
    BoolDyn(String, bool),
    Cls(bool, String),
    Style(bool, String),
    ClsToggle(String, bool),
    ClsTuple(String, bool),
    StyleKV(bool, String, String),
    /// `name=true` / `name=false`: a literal, but not a string literal (never static for the macro)
    LitBool(String, bool),
    /// `name=2`, `name=1.5`, `name='c'`: the source text of an int / float / char literal
    LitVal(String, String),
}

/// what a non-string literal renders as (`to_string()` of the value)
pub fn lit_rendered(src: &str) -> String {
    match src.strip_prefix('\'').and_then(|r| r.strip_suffix('\'')) {
        Some(c) => c.to_string(),
        None => src.to_string(),
    }
}

#[derive(Clone, Debug, PartialEq)]
pub enum Tmpl {
    /// literal text; the flag asks the code generator for unquoted text (same meaning)
    Text(String, bool),
    Block(String),
    Elem(String, Vec<TAttr>, Vec<Tmpl>),
    Frag(Vec<Tmpl>),
    Comp(Vec<Tmpl>),
    Comment(String),
    Doctype,
    /// a `{block}` whose value renders as the unit view (see the encoding for the five source forms)
    Unit(u8),
    /// `<Wrap attrs…>` (false) / `<Card attrs…>` (true) with `attr:` / `class:` / `style:` attributes
    CompA(bool, Vec<TAttr>, Vec<Tmpl>),
}

pub fn hx(s: &str) -> String {
    s.bytes().map(|b| format!("{:02x}", b)).collect()
}

fn unhx(s: &str) -> Option<String> {
    if s.len() % 2 != 0 {
        return None;
    }
    let bytes: Option<Vec<u8>> =
        (0..s.len()).step_by(2).map(|i| u8::from_str_radix(s.get(i..i + 2)?, 16).ok()).collect();
    String::from_utf8(bytes?).ok()
}

pub fn encode(nodes: &[Tmpl]) -> String {
    let mut o = String::new();
    enc(nodes, &mut o);
    if o.is_empty() {
        o.push('-');
    }
    o
}

fn enc(nodes: &[Tmpl], o: &mut String) {
    for n in nodes {
        match n {
            Tmpl::Text(s, _) => o.push_str(&format!("T{};", hx(s))),
            Tmpl::Block(s) => o.push_str(&format!("B{};", hx(s))),
            Tmpl::Elem(tag, attrs, kids) => {
                o.push_str(&format!("E{};", tag));
                enc_attrs(attrs, o);
                o.push('>');
                enc(kids, o);
                o.push('<');
            }
            Tmpl::Frag(kids) => {
                o.push('F');
                enc(kids, o);
                o.push('<');
            }
            Tmpl::Comp(kids) => {
                o.push('W');
                enc(kids, o);
                o.push('<');
            }
            Tmpl::Comment(c) => o.push_str(&format!("M{};", hx(c))),
            Tmpl::Doctype => o.push('Y'),
            Tmpl::Unit(k) => o.push_str(&format!("V{}", k)),
            Tmpl::CompA(card, attrs, kids) => {
                o.push_str(&format!("Q{}", *card as u8));
                enc_attrs(attrs, o);
                o.push('>');
                enc(kids, o);
                o.push('<');
            }
        }
    }
}

fn enc_attrs(attrs: &[TAttr], o: &mut String) {
    for a in attrs {
        match a {
            TAttr::Plain(d, n, v) => o.push_str(&format!("A{}{};{};", *d as u8, hx(n), hx(v))),
            TAttr::Flag(n) => o.push_str(&format!("G{};", hx(n))),
            TAttr::BoolDyn(n, b) => o.push_str(&format!("b{};{}", hx(n), *b as u8)),
            TAttr::Cls(d, v) => o.push_str(&format!("C{}{};", *d as u8, hx(v))),
            TAttr::Style(d, v) => o.push_str(&format!("S{}{};", *d as u8, hx(v))),
            TAttr::ClsToggle(n, b) => o.push_str(&format!("D{};{}", hx(n), *b as u8)),
            TAttr::ClsTuple(n, b) => o.push_str(&format!("U{};{}", hx(n), *b as u8)),
            TAttr::StyleKV(d, n, v) => o.push_str(&format!("K{}{};{};", *d as u8, hx(n), hx(v))),
            TAttr::LitBool(n, b) => o.push_str(&format!("L{};{}", hx(n), *b as u8)),
            TAttr::LitVal(n, v) => o.push_str(&format!("N{};{};", hx(n), hx(v))),
        }
    }
}

struct Dec<'a> {
    s: &'a [u8],
    i: usize,
}

impl<'a> Dec<'a> {
    fn field(&mut self) -> Option<&'a str> {
        let start = self.i;
        while *self.s.get(self.i)? != b';' {
            self.i += 1;
        }
        let r = std::str::from_utf8(&self.s[start..self.i]).ok()?;
        self.i += 1;
        Some(r)
    }
    fn hex(&mut self) -> Option<String> {
        unhx(self.field()?)
    }
    fn bit(&mut self) -> Option<bool> {
        let b = *self.s.get(self.i)?;
        self.i += 1;
        match b {
            b'0' => Some(false),
            b'1' => Some(true),
            _ => None,
        }
    }
    fn nodes(&mut self, top: bool) -> Option<Vec<Tmpl>> {
        let mut out = vec![];
        loop {
            match self.s.get(self.i).copied() {
                None => return if top { Some(out) } else { None },
                Some(b'<') => {
                    if top {
                        return None;
                    }
                    self.i += 1;
                    return Some(out);
                }
                Some(b'T') => {
                    self.i += 1;
                    out.push(Tmpl::Text(self.hex()?, false));
                }
                Some(b'B') => {
                    self.i += 1;
                    out.push(Tmpl::Block(self.hex()?));
                }
                Some(b'F') => {
                    self.i += 1;
                    out.push(Tmpl::Frag(self.nodes(false)?));
                }
                Some(b'W') => {
                    self.i += 1;
                    out.push(Tmpl::Comp(self.nodes(false)?));
                }
                Some(b'M') => {
                    self.i += 1;
                    out.push(Tmpl::Comment(self.hex()?));
                }
                Some(b'Y') => {
                    self.i += 1;
                    out.push(Tmpl::Doctype);
                }
                Some(b'E') => {
                    self.i += 1;
                    let tag = self.field()?.to_string();
                    if tag.is_empty()
                        || !tag.bytes().all(|b| b.is_ascii_lowercase() || b.is_ascii_digit() || b == b'-')
                    {
                        return None;
                    }
                    let attrs = self.attrs()?;
                    let kids = self.nodes(false)?;
                    out.push(Tmpl::Elem(tag, attrs, kids));
                }
                Some(b'V') => {
                    let k = *self.s.get(self.i + 1)?;
                    if !(b'0'..=b'4').contains(&k) {
                        return None;
                    }
                    self.i += 2;
                    out.push(Tmpl::Unit(k - b'0'));
                }
                Some(b'Q') => {
                    self.i += 1;
                    let card = self.bit()?;
                    let attrs = self.attrs()?;
                    let kids = self.nodes(false)?;
                    out.push(Tmpl::CompA(card, attrs, kids));
                }
                _ => return None,
            }
        }
    }
    fn attrs(&mut self) -> Option<Vec<TAttr>> {
        let mut attrs = vec![];
        loop {
            {
                {
                    {
                        let k = *self.s.get(self.i)?;
                        self.i += 1;
                        attrs.push(match k {
                            b'>' => break,
                            b'A' => TAttr::Plain(self.bit()?, self.hex()?, self.hex()?),
                            b'G' => TAttr::Flag(self.hex()?),
                            b'b' => TAttr::BoolDyn(self.hex()?, self.bit()?),
                            b'C' => TAttr::Cls(self.bit()?, self.hex()?),
                            b'S' => TAttr::Style(self.bit()?, self.hex()?),
                            b'D' => TAttr::ClsToggle(self.hex()?, self.bit()?),
                            b'U' => TAttr::ClsTuple(self.hex()?, self.bit()?),
                            b'K' => TAttr::StyleKV(self.bit()?, self.hex()?, self.hex()?),
                            b'L' => TAttr::LitBool(self.hex()?, self.bit()?),
                            b'N' => TAttr::LitVal(self.hex()?, self.hex()?),
                            _ => return None,
                        });
                    }
                }
            }
        }
        Some(attrs)
    }
}

pub fn decode(w: &str) -> Option<Vec<Tmpl>> {
    if w == "-" {
        return Some(vec![]);
    }
    Dec { s: w.as_bytes(), i: 0 }.nodes(true)
}

// ---------------------------------------------------------------- holes

/// values of the dynamic positions, in traversal order (attributes of an element before its children)
#[derive(Default, Clone, Debug)]
pub struct Holes {
    pub strs: Vec<String>,
    pub bools: Vec<bool>,
}

/// what a string hole is used for (the generator picks values accordingly)
#[derive(Clone, Copy, Debug, PartialEq)]
pub enum HoleKind {
    Text,
    RawText, // child of script / style / textarea / noscript
    Attr,
    Class,
    Style,
}

pub fn is_raw_tag(t: &str) -> bool {
    matches!(t, "script" | "style" | "textarea" | "noscript")
}

fn walk_attr_holes(attrs: &mut [TAttr], f: &mut dyn FnMut(HoleKind, &mut String), g: &mut dyn FnMut(&mut bool)) {
    for a in attrs.iter_mut() {
        match a {
            TAttr::Plain(true, _, v) => f(HoleKind::Attr, v),
            TAttr::BoolDyn(_, b) => g(b),
            TAttr::Cls(true, v) => f(HoleKind::Class, v),
            TAttr::Style(true, v) => f(HoleKind::Style, v),
            TAttr::ClsToggle(_, b) => g(b),
            TAttr::ClsTuple(_, b) => g(b),
            TAttr::StyleKV(true, _, v) => f(HoleKind::Style, v),
            _ => {}
        }
    }
}

fn walk_holes(nodes: &mut [Tmpl], raw: bool, f: &mut dyn FnMut(HoleKind, &mut String), g: &mut dyn FnMut(&mut bool)) {
    for n in nodes.iter_mut() {
        match n {
            Tmpl::Text(..) | Tmpl::Comment(_) | Tmpl::Doctype | Tmpl::Unit(_) => {}
            Tmpl::CompA(_, attrs, kids) => {
                walk_attr_holes(attrs, f, g);
                walk_holes(kids, false, f, g);
            }
            Tmpl::Block(s) => f(if raw { HoleKind::RawText } else { HoleKind::Text }, s),
            Tmpl::Elem(tag, attrs, kids) => {
                walk_attr_holes(attrs, f, g);
                // the text of <textarea> is escaped (and read back through character references): any string goes
                let r = is_raw_tag(tag) && tag != "textarea";
                walk_holes(kids, r, f, g);
            }
            Tmpl::Frag(kids) => walk_holes(kids, raw, f, g),
            Tmpl::Comp(kids) => walk_holes(kids, false, f, g),
        }
    }
}

pub fn holes_of(nodes: &[Tmpl]) -> Holes {
    let mut c = nodes.to_vec();
    let mut h = Holes::default();
    let mut bs = vec![];
    walk_holes(&mut c, false, &mut |_, s| h.strs.push(s.clone()), &mut |b| bs.push(*b));
    h.bools = bs;
    h
}

pub fn hole_kinds(nodes: &[Tmpl]) -> Vec<HoleKind> {
    let mut c = nodes.to_vec();
    let mut ks = vec![];
    walk_holes(&mut c, false, &mut |k, _| ks.push(k), &mut |_| {});
    ks
}

/// the same shape with the given hole values
pub fn fill(nodes: &[Tmpl], h: &Holes) -> Vec<Tmpl> {
    let mut c = nodes.to_vec();
    let (mut i, mut j) = (0, 0);
    walk_holes(
        &mut c,
        false,
        &mut |_, s| {
            *s = h.strs[i].clone();
            i += 1;
        },
        &mut |b| {
            *b = h.bools[j];
            j += 1;
        },
    );
    c
}

pub fn blank(nodes: &[Tmpl]) -> Vec<Tmpl> {
    let mut c = nodes.to_vec();
    walk_holes(&mut c, false, &mut |_, s| s.clear(), &mut |b| *b = false);
    strip_flags(&mut c);
    c
}

fn strip_flags(nodes: &mut [Tmpl]) {
    for n in nodes.iter_mut() {
        match n {
            Tmpl::Text(_, u) => *u = false,
            Tmpl::Block(_) | Tmpl::Comment(_) | Tmpl::Doctype | Tmpl::Unit(_) => {}
            Tmpl::Elem(_, _, k) | Tmpl::Frag(k) | Tmpl::Comp(k) | Tmpl::CompA(_, _, k) => strip_flags(k),
        }
    }
}

pub fn same_shape(a: &[Tmpl], b: &[Tmpl]) -> bool {
    blank(a) == blank(b)
}

// ---------------------------------------------------------------- variants

/// forced-dynamic twin: every literal becomes a `{…}` / dynamic attribute with the same value
pub fn dynamize(nodes: &[Tmpl]) -> Vec<Tmpl> {
    nodes
        .iter()
        .map(|n| match n {
            Tmpl::Text(s, _) => Tmpl::Block(s.clone()),
            Tmpl::Block(s) => Tmpl::Block(s.clone()),
            Tmpl::Unit(k) => Tmpl::Unit(*k),
            Tmpl::CompA(card, attrs, kids) => Tmpl::CompA(*card, dyn_attrs(attrs), dynamize(kids)),
            Tmpl::Elem(tag, attrs, kids) => Tmpl::Elem(tag.clone(), dyn_attrs(attrs), dynamize(kids)),
            Tmpl::Frag(k) => Tmpl::Frag(dynamize(k)),
            Tmpl::Comp(k) => Tmpl::Comp(dynamize(k)),
            Tmpl::Comment(c) => Tmpl::Comment(c.clone()),
            Tmpl::Doctype => Tmpl::Doctype,
        })
        .collect()
}

fn dyn_attrs(attrs: &[TAttr]) -> Vec<TAttr> {
    attrs
        .iter()
        .map(|a| match a {
            TAttr::Plain(_, n, v) => TAttr::Plain(true, n.clone(), v.clone()),
            TAttr::Flag(n) => TAttr::BoolDyn(n.clone(), true),
            TAttr::Cls(_, v) => TAttr::Cls(true, v.clone()),
            TAttr::Style(_, v) => TAttr::Style(true, v.clone()),
            TAttr::StyleKV(_, n, v) => TAttr::StyleKV(true, n.clone(), v.clone()),
            TAttr::LitBool(n, b) => TAttr::BoolDyn(n.clone(), *b),
            TAttr::LitVal(n, v) => TAttr::Plain(true, n.clone(), lit_rendered(v)),
            a => a.clone(),
        })
        .collect()
}

pub const VOID: &[&str] =
    &["area", "base", "br", "col", "embed", "hr", "img", "input", "link", "meta", "source", "track", "wbr"];

/// may an extra `{block}` child be appended to this element? (not void, not raw text, not title)
fn eligible(tag: &str) -> bool {
    !VOID.contains(&tag) && !is_raw_tag(tag) && tag != "title"
}

/// pre-order ordinals (over all elements incl. `<Wrap>`'s section, fragments transparent) of the
/// elements an extra child may be appended to
pub fn eligible_sites(nodes: &[Tmpl]) -> Vec<usize> {
    fn go(nodes: &[Tmpl], next: &mut usize, out: &mut Vec<usize>) {
        for n in nodes {
            match n {
                Tmpl::Elem(tag, _, kids) => {
                    if eligible(tag) {
                        out.push(*next);
                    }
                    *next += 1;
                    go(kids, next, out);
                }
                Tmpl::Comp(kids) => {
                    out.push(*next);
                    *next += 1;
                    go(kids, next, out);
                }
                // <Card> renders two nested elements; the children sit in the inner one
                Tmpl::CompA(card, _, kids) => {
                    *next += *card as usize;
                    out.push(*next);
                    *next += 1;
                    go(kids, next, out);
                }
                Tmpl::Frag(kids) => go(kids, next, out),
                _ => {}
            }
        }
    }
    let (mut next, mut out) = (0, vec![]);
    go(nodes, &mut next, &mut out);
    out
}

/// one extra dynamic sibling: `{block}` appended as last child of the `site`-th element (pre-order),
/// or after the roots when there is no site
pub fn add_extra(nodes: &[Tmpl], site: Option<usize>, value: &str) -> Vec<Tmpl> {
    fn go(nodes: &mut Vec<Tmpl>, next: &mut usize, site: usize, value: &str) {
        for n in nodes.iter_mut() {
            let is_card = matches!(n, Tmpl::CompA(true, ..));
            match n {
                Tmpl::Elem(_, _, kids) | Tmpl::Comp(kids) | Tmpl::CompA(_, _, kids) => {
                    if is_card {
                        *next += 1;
                    }
                    let me = *next;
                    *next += 1;
                    go(kids, next, site, value);
                    if me == site {
                        kids.push(Tmpl::Block(value.to_string()));
                    }
                }
                Tmpl::Frag(kids) => go(kids, next, site, value),
                _ => {}
            }
        }
    }
    let mut c = nodes.to_vec();
    match site {
        Some(s) => {
            let mut next = 0;
            go(&mut c, &mut next, s, value);
        }
        None => c.push(Tmpl::Block(value.to_string())),
    }
    c
}

// ---------------------------------------------------------------- Rust source of a template

/// childless non-void elements are written `<tag …/>` in about half of the places (a fixed function of the
/// element, so that the source is reproducible): the self-closing syntax must mean the same as `<tag …></tag>`
pub fn self_closed_syntax(tag: &str, attrs: &[TAttr], kids: &[Tmpl]) -> bool {
    kids.is_empty() && !VOID.contains(&tag) && (tag.len() + attrs.len()) % 2 == 1
}

fn unquotable(s: &str) -> bool {
    // words of ASCII letters/digits separated by single spaces: rstml's raw text keeps exactly that
    !s.is_empty()
        && s.split(' ').all(|w| !w.is_empty() && w.bytes().all(|b| b.is_ascii_alphanumeric()))
        && !s.split(' ').any(|w| w.bytes().next().map_or(false, |b| b.is_ascii_digit()))
}

struct Src {
    o: String,
    si: usize,
    bi: usize,
}

impl Src {
    fn s(&mut self) -> String {
        self.si += 1;
        format!("{{s[{}].clone()}}", self.si - 1)
    }
    fn b(&mut self) -> String {
        self.bi += 1;
        format!("b[{}]", self.bi - 1)
    }
    fn nodes(&mut self, nodes: &[Tmpl]) {
        // two adjacent unquoted texts would be ONE raw-text node for rstml: quote the second
        let mut prev_unq = false;
        for n in nodes {
            let was_unq = prev_unq;
            prev_unq = false;
            match n {
                Tmpl::Text(s, unq) => {
                    if *unq && unquotable(s) && !was_unq {
                        self.o.push_str(&format!(" {} ", s));
                        prev_unq = true;
                    } else {
                        self.o.push_str(&format!(" {:?} ", s));
                    }
                }
                Tmpl::Block(_) => {
                    let h = self.s();
                    self.o.push_str(&h);
                }
                Tmpl::Elem(tag, attrs, kids) => {
                    self.o.push_str(&format!("<{}", tag));
                    for a in attrs {
                        self.o.push(' ');
                        match a {
                            TAttr::Plain(false, n, v) => self.o.push_str(&format!("{}={:?}", n, v)),
                            TAttr::Plain(true, n, _) => {
                                let h = self.s();
                                self.o.push_str(&format!("{}={}", n, h));
                            }
                            TAttr::Flag(n) => self.o.push_str(n),
                            TAttr::BoolDyn(n, _) => {
                                let h = self.b();
                                self.o.push_str(&format!("{}={{{}}}", n, h));
                            }
                            TAttr::Cls(false, v) => self.o.push_str(&format!("class={:?}", v)),
                            TAttr::Cls(true, _) => {
                                let h = self.s();
                                self.o.push_str(&format!("class={}", h));
                            }
                            TAttr::Style(false, v) => self.o.push_str(&format!("style={:?}", v)),
                            TAttr::Style(true, _) => {
                                let h = self.s();
                                self.o.push_str(&format!("style={}", h));
                            }
                            TAttr::ClsToggle(n, _) => {
                                let h = self.b();
                                self.o.push_str(&format!("class:{}={{{}}}", n, h));
                            }
                            TAttr::ClsTuple(n, _) => {
                                let h = self.b();
                                self.o.push_str(&format!("class=({:?}, {})", n, h));
                            }
                            TAttr::StyleKV(false, n, v) => self.o.push_str(&format!("style:{}={:?}", n, v)),
                            TAttr::StyleKV(true, n, _) => {
                                let h = self.s();
                                self.o.push_str(&format!("style:{}={}", n, h));
                            }
                            TAttr::LitBool(n, b) => self.o.push_str(&format!("{}={}", n, b)),
                            TAttr::LitVal(n, v) => self.o.push_str(&format!("{}={}", n, v)),
                        }
                    }
                    if VOID.contains(&tag.as_str()) || self_closed_syntax(tag, attrs, kids) {
                        self.o.push_str("/>");
                    } else {
                        self.o.push('>');
                        self.nodes(kids);
                        self.o.push_str(&format!("</{}>", tag));
                    }
                }
                Tmpl::Frag(kids) => {
                    self.o.push_str("<>");
                    self.nodes(kids);
                    self.o.push_str("</>");
                }
                Tmpl::Comp(kids) => {
                    self.o.push_str("<Wrap>");
                    self.nodes(kids);
                    self.o.push_str("</Wrap>");
                }
                Tmpl::Unit(k) => self.o.push_str(["{()}", "{}", "{let _ = 1;}", "{None::<String>}", "{Vec::<String>::new()}"][*k as usize % 5]),
                Tmpl::CompA(card, attrs, kids) => {
                    let name = if *card { "Card" } else { "Wrap" };
                    self.o.push_str(&format!("<{}", name));
                    for a in attrs {
                        self.o.push(' ');
                        match a {
                            TAttr::Plain(false, n, v) => self.o.push_str(&format!("attr:{}={:?}", n, v)),
                            TAttr::Plain(true, n, _) => {
                                let h = self.s();
                                self.o.push_str(&format!("attr:{}={}", n, h));
                            }
                            TAttr::Flag(n) => self.o.push_str(&format!("attr:{}", n)),
                            TAttr::BoolDyn(n, _) => {
                                let h = self.b();
                                self.o.push_str(&format!("attr:{}={{{}}}", n, h));
                            }
                            TAttr::Cls(false, v) => self.o.push_str(&format!("attr:class={:?}", v)),
                            TAttr::Cls(true, _) => {
                                let h = self.s();
                                self.o.push_str(&format!("attr:class={}", h));
                            }
                            TAttr::Style(false, v) => self.o.push_str(&format!("attr:style={:?}", v)),
                            TAttr::Style(true, _) => {
                                let h = self.s();
                                self.o.push_str(&format!("attr:style={}", h));
                            }
                            TAttr::ClsToggle(n, _) | TAttr::ClsTuple(n, _) => {
                                let h = self.b();
                                self.o.push_str(&format!("class:{}={{{}}}", n, h));
                            }
                            TAttr::StyleKV(false, n, v) => self.o.push_str(&format!("style:{}={:?}", n, v)),
                            TAttr::StyleKV(true, n, _) => {
                                let h = self.s();
                                self.o.push_str(&format!("style:{}={}", n, h));
                            }
                            TAttr::LitBool(n, b) => self.o.push_str(&format!("attr:{}={}", n, b)),
                            TAttr::LitVal(n, v) => self.o.push_str(&format!("attr:{}={}", n, v)),
                        }
                    }
                    self.o.push('>');
                    self.nodes(kids);
                    self.o.push_str(&format!("</{}>", name));
                }
                Tmpl::Comment(c) => self.o.push_str(&format!("<!-- {:?} -->", c)),
                Tmpl::Doctype => self.o.push_str("<!DOCTYPE html>"),
            }
        }
    }
}

/// the body of `view!{ … }` for these roots; string holes are `s[i].clone()`, bool holes `b[j]`
pub fn rust_src(nodes: &[Tmpl]) -> String {
    let mut s = Src { o: String::new(), si: 0, bi: 0 };
    s.nodes(nodes);
    s.o
}

// ---------------------------------------------------------------- the fixed shape family

/// SplitMix64 with a constant seed: the family does not depend on the run's seed
struct Sm(u64);
impl Sm {
    fn next(&mut self) -> u64 {
        self.0 = self.0.wrapping_add(0x9E3779B97F4A7C15);
        let mut z = self.0;
        z = (z ^ (z >> 30)).wrapping_mul(0xBF58476D1CE4E5B9);
        z = (z ^ (z >> 27)).wrapping_mul(0x94D049BB133111EB);
        z ^ (z >> 31)
    }
    fn below(&mut self, n: usize) -> usize {
        if n == 0 {
            0
        } else {
            (self.next() % n as u64) as usize
        }
    }
    fn chance(&mut self, num: usize, den: usize) -> bool {
        self.below(den) < num
    }
    fn pick<'a>(&mut self, xs: &[&'a str]) -> &'a str {
        xs[self.below(xs.len())]
    }
}

pub const BLOCK: &[&str] =
    &["div", "section", "article", "main", "header", "footer", "aside", "nav", "blockquote", "figure"];
pub const INLINE: &[&str] = &["span", "b", "i", "em", "strong", "small", "code", "label"];
pub const PARA: &[&str] = &["p", "h1", "h2", "h3"];
pub const INTER: &[&str] = &["a", "button"];
pub const VOID_INLINE: &[&str] = &["br", "img", "input", "wbr"];
pub const CUSTOM: &[&str] = &["x-foo", "my-el2"];
pub const RAWS: &[&str] = &["textarea", "script", "style", "noscript", "title"];
pub const SVG_LEAF: &[&str] = &["circle", "rect", "path"];
/// SVG tags of the family (all lower case); parsed as custom elements `x-<tag>` by the oracle
pub const SVG_ALL: &[&str] = &["svg", "g", "circle", "rect", "path"];
/// MathML tags of the family; attributes only through `.attr` names with a dash and `class`
pub const MATH_ALL: &[&str] = &["math", "mrow", "mi", "mo", "mn"];
pub const MATH_LEAF: &[&str] = &["mi", "mo", "mn"];
pub fn is_foreign(t: &str) -> bool {
    SVG_ALL.contains(&t) || MATH_ALL.contains(&t)
}
/// tags the oracle's parser does not know: read as custom elements `x-<tag>`
pub fn parse_renamed(t: &str) -> bool {
    is_foreign(t) || t == "pre"
}

const TEXTS: &[&str] = &[
    "a", "hello world", "t<&>\"'", "</div>", "<!--", "&amp;", " ", "  x  ", "日本", "é", "a\nb", "<script>",
    "]]>", "<b>bold</b>", "x=1", "&lt", "<!>", "-->", "q", "Zz", "\u{a0}", "1 < 2 && 3 > 2", "it's", "`",
    "<img src=x onerror=alert(1)>", "&#x3c;", "tab\there", "😀", "  ", "\t", " \n ", "\u{a0}\u{a0}", " \u{a0} ", "\n\n",
];
const UNQUOTED: &[&str] = &["plain", "two words", "Hello there World", "x"];
const ATTR_VALS: &[&str] = &[
    "a", "v 1", "q\"<&>", "'", "x\"y", "</p>", "&quot;", "", " ", "é日本", "a=b", "\" onload=\"x", "<", ">", "&",
    "javascript:alert(1)", "/x?a=1&b=2", "`", "a\nb",
];
const CLASS_VALS: &[&str] = &["a", "a b", " k  j ", "x\"y", "<c>", "", "btn btn-lg", "é", "a\tb", "a&b"];
const STYLE_VALS: &[&str] =
    &["color:red", "color:red;left:1px", " margin:0 ", "", "a:b;;", "x:\"<&>", "color:red;", "top:1px ; left:2px"];
const STYLE_KV_VALS: &[&str] = &["1px", "red", "\"<&>", "", "a;b", " 2em "];
/// strings that read back unchanged from an unescaped raw-text element
const RAW_TEXTS: &[&str] = &["a", "var a=1;", "p{color:red}", "x y", "if (a > b) {}", "1 < 2", "\"q\"", "é", "a & b"];
const NOSCRIPT_HOSTILE: &[&str] = &["a<b", "x&y", "1 > 0", "<b>t</b>"];
const PLAIN_NAMES: &[&str] = &["id", "title", "lang", "data-k", "data-v2", "aria-label", "dir", "role"];
const SVG_NAMES: &[&str] = &["cx", "r", "d", "fill", "x", "width"];
const CUSTOM_NAMES: &[&str] = &["foo", "data-k", "some-attr", "id"];
const TOGGLES: &[&str] = &["on", "is-x", "k2"];
const TUPLES: &[&str] = &["tu", "t-v"];
const STYLE_KEYS: &[&str] = &["left", "color", "margin-top"];

#[derive(Clone, Debug)]
pub struct Shape {
    pub roots: Vec<Tmpl>,
    /// where variant 2 appends its extra `{block}`
    pub site: Option<usize>,
}

#[derive(Clone, Copy, PartialEq)]
enum Mode {
    Static,  // only literal forms: the element can be inert
    Mixed,   // any form
}

/// does the node produce a view at all? (a template / component body made only of comments and empty
/// fragments expands to `()`)
pub fn renders(t: &Tmpl) -> bool {
    match t {
        Tmpl::Comment(_) => false,
        Tmpl::Frag(k) => k.iter().any(renders),
        _ => true,
    }
}

struct Gen {
    r: Sm,
}

impl Gen {
    fn text(&mut self) -> Tmpl {
        if self.r.chance(1, 8) {
            Tmpl::Text(self.r.pick(UNQUOTED).to_string(), true)
        } else if self.r.chance(1, 25) {
            Tmpl::Text(String::new(), false)
        } else {
            Tmpl::Text(self.r.pick(TEXTS).to_string(), false)
        }
    }

    fn attrs(&mut self, tag: &str, mode: Mode, max: usize) -> Vec<TAttr> {
        let math = MATH_ALL.contains(&tag);
        let svg = SVG_ALL.contains(&tag);
        let custom = tag.contains('-') || math;
        let names: &[&str] = if svg {
            SVG_NAMES
        } else if math {
            &["data-k", "data-v2"]
        } else if custom {
            CUSTOM_NAMES
        } else {
            PLAIN_NAMES
        };
        let mut out: Vec<TAttr> = vec![];
        let mut used: Vec<String> = vec![];
        let n = self.r.below(max + 1);
        for _ in 0..n {
            let dynv = mode == Mode::Mixed && self.r.chance(1, 2);
            // forms 11, 12: non-string literals (hole-free, but never static for the macro)
            let form = if mode == Mode::Static {
                let f = self.r.below(7);
                if f >= 5 { f + 6 } else { f }
            } else {
                self.r.below(13)
            };
            let a = match form {
                0 | 1 => {
                    let mut nm = self.r.pick(names).to_string();
                    // element-specific typed attributes (raw identifiers, per-element keys)
                    if !svg && !custom && self.r.chance(1, 3) {
                        nm = match tag {
                            "a" => "href",
                            "img" => "alt",
                            "input" => ["type", "value", "name"][self.r.below(3)],
                            "button" => "type",
                            "label" => "for",
                            _ => nm.as_str(),
                        }
                        .to_string();
                    }
                    TAttr::Plain(dynv, nm, self.r.pick(ATTR_VALS).to_string())
                }
                2 => {
                    let nm = if math {
                        "data-f"
                    } else if svg || custom {
                        "foo2"
                    } else if matches!(tag, "input" | "button") && self.r.chance(1, 2) {
                        "disabled"
                    } else {
                        "hidden"
                    };
                    TAttr::Flag(nm.to_string())
                }
                3 => TAttr::Cls(dynv, self.r.pick(CLASS_VALS).to_string()),
                4 => TAttr::Style(dynv, self.r.pick(STYLE_VALS).to_string()),
                5 => {
                    let nm = if math {
                        "data-g"
                    } else if svg || custom {
                        "foo3"
                    } else if matches!(tag, "input" | "button") && self.r.chance(1, 2) {
                        "disabled"
                    } else {
                        "hidden"
                    };
                    TAttr::BoolDyn(nm.to_string(), self.r.chance(1, 2))
                }
                6 | 7 => TAttr::ClsToggle(self.r.pick(TOGGLES).to_string(), self.r.chance(2, 3)),
                8 => TAttr::ClsTuple(self.r.pick(TUPLES).to_string(), self.r.chance(2, 3)),
                11 => {
                    let nm = if math {
                        "data-h"
                    } else if svg || custom {
                        "foo4"
                    } else if matches!(tag, "input" | "button") && self.r.chance(1, 2) {
                        "disabled"
                    } else {
                        ["hidden", "inert", "autofocus"][self.r.below(3)]
                    };
                    TAttr::LitBool(nm.to_string(), self.r.chance(1, 2))
                }
                12 => {
                    let nm = if self.r.chance(1, 3) && !svg && !custom { "tabindex" } else { self.r.pick(names) };
                    TAttr::LitVal(nm.to_string(), self.r.pick(&["2", "10", "0", "1.5", "0.25", "'c'", "'<'", "'\"'", "-3"]).to_string())
                }
                _ => TAttr::StyleKV(
                    self.r.chance(1, 2),
                    self.r.pick(STYLE_KEYS).to_string(),
                    self.r.pick(STYLE_KV_VALS).to_string(),
                ),
            };
            let key = match &a {
                TAttr::Plain(_, n, _) | TAttr::Flag(n) | TAttr::BoolDyn(n, _) => n.clone(),
                TAttr::Cls(..) => "class".into(),
                TAttr::Style(..) => "style".into(),
                TAttr::ClsToggle(n, _) => format!("class:{n}"),
                TAttr::ClsTuple(n, _) => format!("class=({n})"),
                TAttr::StyleKV(_, n, _) => format!("style:{n}"),
                TAttr::LitBool(n, _) | TAttr::LitVal(n, _) => n.clone(),
            };
            if used.contains(&key) {
                continue;
            }
            used.push(key);
            out.push(a);
        }
        out
    }

    /// children of an element; `inline`: only phrasing content; `inter`: already inside a / button.
    /// Every node kind the macro accepts can occur in every position: text (quoted / unquoted), elements,
    /// fragments (0, 1 or more children), comments, components; `{block}`s only in `Mixed` mode.
    fn kids(&mut self, depth: usize, inline: bool, inter: bool, mode: Mode, max: usize) -> Vec<Tmpl> {
        let n = self.r.below(max + 1);
        let mut out = vec![];
        for _ in 0..n {
            let k = self.r.below(20);
            match k {
                0..=3 => out.push(self.text()),
                4..=10 => {
                    if depth == 0 {
                        out.push(self.text());
                    } else {
                        out.push(self.elem(depth, inline, inter, mode));
                    }
                }
                11 | 12 => {
                    let k = if depth == 0 {
                        (0..self.r.below(4)).map(|_| self.text()).collect()
                    } else {
                        self.kids(depth - 1, inline, inter, mode, 3)
                    };
                    out.push(Tmpl::Frag(k));
                }
                13 => {
                    if self.r.chance(1, 2) {
                        out.push(self.comment());
                    } else {
                        out.push(Tmpl::Unit(self.r.below(5) as u8));
                    }
                }
                14 => {
                    if depth == 0 || inline {
                        out.push(Tmpl::Unit(self.r.below(5) as u8));
                    } else if self.r.chance(1, 2) {
                        let mut k = self.kids(depth - 1, false, false, mode, 3);
                        if !k.iter().any(renders) {
                            k.push(self.text());
                        }
                        let a = self.comp_attrs(mode);
                        out.push(Tmpl::CompA(self.r.chance(1, 2), a, k));
                    } else {
                        let mut k = self.kids(depth - 1, false, false, mode, 3);
                        if !k.iter().any(renders) {
                            k.push(self.text());
                        }
                        out.push(Tmpl::Comp(k));
                    }
                }
                _ => {
                    if mode == Mode::Mixed {
                        out.push(Tmpl::Block(String::new()));
                    } else if depth == 0 || self.r.chance(1, 2) {
                        out.push(self.text());
                    } else {
                        out.push(self.elem(depth, inline, inter, mode));
                    }
                }
            }
        }
        out
    }

    /// (every dashed name starts with a segment that is itself a typed attribute function, so that a macro that
    /// mistakes the first segment for the name still compiles — and renders the wrong attribute)
    /// attributes spread onto a component: `attr:` names of every shape (single word, one dash, several dashes,
    /// aria-*, data-*, first segment = a typed tachys attribute function), class / style forms
    fn comp_attrs(&mut self, mode: Mode) -> Vec<TAttr> {
        const NAMES: &[&str] = &[
            "id", "title", "lang", "data", "accept", "form", "data-kind", "data-a-b-c", "aria-label", "aria-describedby",
            "accept-charset", "form-x", "title-2", "lang-x-y",
        ];
        let mut out: Vec<TAttr> = vec![];
        let mut used: Vec<String> = vec![];
        for _ in 0..1 + self.r.below(4) {
            let dynv = mode == Mode::Mixed && self.r.chance(1, 2);
            let a = match self.r.below(10) {
                0..=4 => TAttr::Plain(dynv, self.r.pick(NAMES).to_string(), self.r.pick(ATTR_VALS).to_string()),
                5 => TAttr::Flag(["hidden", "data-flag"][self.r.below(2)].to_string()),
                6 => TAttr::Cls(dynv, self.r.pick(CLASS_VALS).to_string()),
                7 => TAttr::StyleKV(dynv, self.r.pick(STYLE_KEYS).to_string(), self.r.pick(STYLE_KV_VALS).to_string()),
                8 => {
                    if mode == Mode::Mixed {
                        TAttr::ClsToggle(self.r.pick(TOGGLES).to_string(), self.r.chance(2, 3))
                    } else {
                        TAttr::LitBool(["hidden", "data-on"][self.r.below(2)].to_string(), self.r.chance(1, 2))
                    }
                }
                _ => TAttr::LitVal(self.r.pick(NAMES).to_string(), self.r.pick(&["2", "1.5", "'c'"]).to_string()),
            };
            let key = match &a {
                TAttr::Plain(_, n, _) | TAttr::Flag(n) | TAttr::LitBool(n, _) | TAttr::LitVal(n, _) => n.clone(),
                TAttr::Cls(..) => "class".into(),
                TAttr::ClsToggle(n, _) => format!("class:{n}"),
                TAttr::StyleKV(_, n, _) => format!("style:{n}"),
                _ => "other".into(),
            };
            if used.contains(&key) {
                continue;
            }
            used.push(key);
            out.push(a);
        }
        out
    }

    fn comment(&mut self) -> Tmpl {
        Tmpl::Comment(self.r.pick(&["c", "a comment", "-->", "<b>"]).to_string())
    }

    fn sub_mode(&mut self, mode: Mode) -> Mode {
        // most subtrees of a mixed template are fully static, so that the inert path is taken often
        if mode == Mode::Static || self.r.chance(3, 5) {
            Mode::Static
        } else {
            Mode::Mixed
        }
    }

    fn elem(&mut self, depth: usize, inline: bool, inter: bool, mode: Mode) -> Tmpl {
        let mode = self.sub_mode(mode);
        let d = depth.saturating_sub(1);
        let c = self.r.below(if inline { 12 } else { 20 });
        match c {
            0..=3 => {
                let tag = self.r.pick(INLINE);
                let a = self.attrs(tag, mode, 3);
                let k = self.kids(d, true, inter, mode, 3);
                Tmpl::Elem(tag.into(), a, k)
            }
            4 | 5 => {
                let tag = self.r.pick(VOID_INLINE);
                Tmpl::Elem(tag.into(), self.attrs(tag, mode, 3), vec![])
            }
            6 => {
                let tag = self.r.pick(CUSTOM);
                let a = self.attrs(tag, mode, 2);
                let k = self.kids(d, true, inter, mode, 2);
                Tmpl::Elem(tag.into(), a, k)
            }
            7 | 8 => {
                if inter {
                    let tag = self.r.pick(INLINE);
                    let a = self.attrs(tag, mode, 2);
                    Tmpl::Elem(tag.into(), a, vec![self.text()])
                } else {
                    let tag = self.r.pick(INTER);
                    let a = self.attrs(tag, mode, 3);
                    let k = self.kids(d, true, true, mode, 3);
                    Tmpl::Elem(tag.into(), a, k)
                }
            }
            9 => self.svg(mode),
            10 => self.math(mode),
            11 => {
                let tag = self.r.pick(INLINE);
                Tmpl::Elem(tag.into(), vec![], vec![])
            }
            12..=15 => {
                let tag = self.r.pick(BLOCK);
                let a = self.attrs(tag, mode, 3);
                let k = self.kids(d, false, inter, mode, 4);
                Tmpl::Elem(tag.into(), a, k)
            }
            16 | 17 => {
                let tag = self.r.pick(PARA);
                let a = self.attrs(tag, mode, 3);
                let k = self.kids(d, true, inter, mode, 4);
                Tmpl::Elem(tag.into(), a, k)
            }
            18 => {
                let a = self.attrs("hr", mode, 2);
                Tmpl::Elem("hr".into(), a, vec![])
            }
            _ => match self.r.below(4) {
                0 => self.noscript_elems(depth, mode),
                1 => self.pre(d, mode),
                _ => self.raw(mode),
            },
        }
    }

    fn math(&mut self, mode: Mode) -> Tmpl {
        let mut leaves = vec![];
        for _ in 0..1 + self.r.below(3) {
            let tag = self.r.pick(MATH_LEAF);
            let a = self.attrs(tag, mode, 1);
            let t = self.r.pick(&["x", "+", "2", "<", "&"]);
            leaves.push(Tmpl::Elem(tag.into(), a, vec![Tmpl::Text(t.to_string(), false)]));
        }
        let inner = if self.r.chance(1, 2) {
            let a = self.attrs("mrow", mode, 1);
            vec![Tmpl::Elem("mrow".into(), a, leaves)]
        } else {
            leaves
        };
        let a = self.attrs("math", mode, 2);
        Tmpl::Elem("math".into(), a, inner)
    }

    fn svg(&mut self, mode: Mode) -> Tmpl {
        let mut leaves = vec![];
        for _ in 0..1 + self.r.below(2) {
            let tag = self.r.pick(SVG_LEAF);
            leaves.push(Tmpl::Elem(tag.into(), self.attrs(tag, mode, 2), vec![]));
        }
        let inner = if self.r.chance(1, 2) {
            let a = self.attrs("g", mode, 1);
            vec![Tmpl::Elem("g".into(), a, leaves)]
        } else {
            leaves
        };
        let a = self.attrs("svg", mode, 2);
        Tmpl::Elem("svg".into(), a, inner)
    }

    /// `<pre>`: white space is content; first child never starts with a line feed (the parser drops that one,
    /// which the oracle — it reads `<pre>` as a custom element — does not model)
    fn pre(&mut self, depth: usize, mode: Mode) -> Tmpl {
        let a = self.attrs("pre", mode, 2);
        let mut k = vec![Tmpl::Text(self.r.pick(&["  ", "\t", " x\n\n  y ", "\u{a0}", "    indented\n"]).to_string(), false)];
        k.extend(self.kids(depth, true, false, mode, 3));
        Tmpl::Elem("pre".into(), a, k)
    }

    /// `<noscript>` with element children (the only non-escaping element that may contain markup): the text of
    /// the elements below it must be escaped exactly as elsewhere, on the static and on the builder path
    fn noscript_elems(&mut self, depth: usize, mode: Mode) -> Tmpl {
        let mut k = vec![];
        for _ in 0..1 + self.r.below(3) {
            let m = self.sub_mode(mode);
            let tag = if self.r.chance(1, 4) { self.r.pick(CUSTOM) } else if self.r.chance(1, 2) { self.r.pick(PARA) } else { self.r.pick(INLINE) };
            let a = self.attrs(tag, m, 2);
            let mut kk = self.kids(depth.saturating_sub(1).min(1), true, false, m, 3);
            kk.insert(0, Tmpl::Text(self.r.pick(&["1 < 2 & 3", "a<b", "x&y", "</noscript>", "<p>t</p>", "&amp;"]).to_string(), false));
            k.push(Tmpl::Elem(tag.into(), a, kk));
        }
        let a = self.attrs("noscript", mode, 1);
        Tmpl::Elem("noscript".into(), a, k)
    }

    /// script / style / textarea / noscript / title with at most one string child
    fn raw(&mut self, mode: Mode) -> Tmpl {
        let tag = self.r.pick(RAWS);
        let a = self.attrs(tag, mode, 1);
        let k = match self.r.below(4) {
            0 => vec![],
            _ => {
                let s = if tag == "title" || tag == "textarea" { self.r.pick(TEXTS) } else { self.r.pick(RAW_TEXTS) };
                if mode == Mode::Mixed && self.r.chance(1, 2) {
                    vec![Tmpl::Block(String::new())]
                } else {
                    vec![Tmpl::Text(s.to_string(), false)]
                }
            }
        };
        Tmpl::Elem(tag.into(), a, k)
    }
}

fn el(tag: &str, attrs: Vec<TAttr>, kids: Vec<Tmpl>) -> Tmpl {
    Tmpl::Elem(tag.into(), attrs, kids)
}
fn tx(s: &str) -> Tmpl {
    Tmpl::Text(s.into(), false)
}

fn shape_of(roots: Vec<Tmpl>, r: &mut Sm) -> Shape {
    let sites = eligible_sites(&roots);
    let site = if sites.is_empty() { None } else { Some(sites[r.below(sites.len())]) };
    Shape { roots, site }
}

/// the systematic part (every attribute form alone and in pairs on an inner element,
/// every tag of the family as an inner static element, the shapes of the known finding classes), then
/// pseudo-random templates of depth ≤ 3 from the grammar above.
pub fn shapes(n_random: usize) -> Vec<Shape> {
    let mut g = Gen { r: Sm(0xC18) };
    let mut out: Vec<Shape> = vec![];
    let forms: Vec<TAttr> = vec![
        TAttr::Plain(false, "id".into(), "q\"<&>".into()),
        TAttr::Plain(true, "title".into(), String::new()),
        TAttr::Flag("hidden".into()),
        TAttr::BoolDyn("hidden".into(), true),
        TAttr::Cls(false, " k  j ".into()),
        TAttr::Cls(true, String::new()),
        TAttr::Style(false, "color:red".into()),
        TAttr::Style(true, String::new()),
        TAttr::ClsToggle("on".into(), true),
        TAttr::ClsTuple("tu".into(), true),
        TAttr::StyleKV(false, "left".into(), "1px".into()),
        TAttr::StyleKV(true, "color".into(), String::new()),
        TAttr::Plain(false, "data-k".into(), "a=b".into()),
        TAttr::Plain(false, "aria-label".into(), "l".into()),
    ];
    // 1. single forms on an inner element with static text
    for f in &forms {
        out.push(shape_of(vec![el("div", vec![], vec![el("p", vec![f.clone()], vec![tx("t<&>\"'")])])], &mut g.r));
    }
    // 2. pairs of forms (both orders matter for the attribute sort)
    for i in 0..forms.len() {
        for j in 0..forms.len() {
            if i == j || !g.r.chance(1, 5) {
                continue;
            }
            let key = |a: &TAttr| match a {
                TAttr::Plain(_, n, _) | TAttr::Flag(n) | TAttr::BoolDyn(n, _) => n.clone(),
                TAttr::Cls(..) => "class".into(),
                TAttr::Style(..) => "style".into(),
                TAttr::ClsToggle(n, _) => format!("class:{n}"),
                TAttr::ClsTuple(n, _) => format!("class=({n})"),
                TAttr::StyleKV(_, n, _) => format!("style:{n}"),
                TAttr::LitBool(n, _) | TAttr::LitVal(n, _) => n.clone(),
            };
            if key(&forms[i]) == key(&forms[j]) {
                continue;
            }
            out.push(shape_of(
                vec![el("section", vec![], vec![el("span", vec![forms[i].clone(), forms[j].clone()], vec![tx("z")]), tx("after")])],
                &mut g.r,
            ));
        }
    }
    // 3. every tag as an inner, fully static element
    for tag in BLOCK.iter().chain(INLINE).chain(PARA).chain(INTER).chain(CUSTOM) {
        out.push(shape_of(
            vec![el("div", vec![], vec![el(tag, vec![TAttr::Plain(false, "id".into(), "i".into()), TAttr::Cls(false, "c".into())], vec![tx("x<y"), tx("&z")])])],
            &mut g.r,
        ));
    }
    for tag in VOID_INLINE.iter().chain(&["hr"]) {
        out.push(shape_of(
            vec![el("div", vec![], vec![el(tag, vec![TAttr::Plain(false, "id".into(), "v".into())], vec![]), el(tag, vec![], vec![])])],
            &mut g.r,
        ));
    }
    for tag in RAWS {
        let s = if *tag == "title" { "T<t&" } else { "a > b" };
        out.push(shape_of(vec![el("div", vec![], vec![el(tag, vec![], vec![tx(s)]), el(tag, vec![TAttr::Plain(false, "id".into(), "r".into())], vec![])])], &mut g.r));
    }
    out.push(shape_of(
        vec![el("div", vec![], vec![el("p", vec![], vec![el("svg", vec![TAttr::Plain(false, "width".into(), "10".into())], vec![el("g", vec![], vec![el("circle", vec![TAttr::Plain(false, "cx".into(), "1".into())], vec![])])])]), el("svg", vec![TAttr::Cls(false, "s".into())], vec![el("rect", vec![TAttr::Plain(false, "x".into(), "1\"".into())], vec![])])])],
        &mut g.r,
    ));
    // 4. roots: text only, several roots, fragments, components
    out.push(shape_of(vec![tx("just text <&>")], &mut g.r));
    out.push(shape_of(vec![el("p", vec![TAttr::Plain(false, "id".into(), "a".into())], vec![tx("a")])], &mut g.r));
    out.push(shape_of(
        vec![el("p", vec![], vec![tx("a")]), tx("b"), Tmpl::Frag(vec![tx("c"), Tmpl::Block(String::new())]), tx("d")],
        &mut g.r,
    ));
    out.push(shape_of(
        vec![Tmpl::Comp(vec![el("p", vec![TAttr::Plain(false, "id".into(), "a".into())], vec![tx("a")]), tx("b"), el("i", vec![], vec![el("b", vec![TAttr::Plain(false, "data-k".into(), "v".into())], vec![tx("q")])])])],
        &mut g.r,
    ));
    out.push(shape_of(
        vec![el("div", vec![], vec![Tmpl::Frag(vec![el("p", vec![TAttr::Plain(false, "id".into(), "f".into())], vec![tx("in a fragment")])]), el("p", vec![TAttr::Plain(false, "id".into(), "g".into())], vec![tx("not in a fragment")])])],
        &mut g.r,
    ));
    out.push(shape_of(vec![el("div", vec![], vec![tx("a"), el("b", vec![], vec![tx("x")]), tx(" b "), tx("c"), Tmpl::Text("two words".into(), true)])], &mut g.r));
    // 5. the shapes of the finding classes (F-C18-1, -3, -4 repaired: regression shapes; F-C18-2 open)
    for s in NOSCRIPT_HOSTILE {
        out.push(shape_of(vec![el("div", vec![], vec![el("noscript", vec![], vec![tx(s)])])], &mut g.r));
    }
    out.push(shape_of(vec![el("div", vec![], vec![el("p", vec![], vec![tx("")])])], &mut g.r));
    out.push(shape_of(vec![el("div", vec![], vec![el("p", vec![TAttr::Plain(false, "id".into(), "e".into())], vec![tx(""), tx("x"), tx("")])])], &mut g.r));
    out.push(shape_of(vec![el("div", vec![], vec![el("p", vec![TAttr::Cls(false, "\u{a0}x".into()), TAttr::Plain(false, "id".into(), "i".into())], vec![tx("t")])])], &mut g.r));
    out.push(shape_of(vec![el("div", vec![], vec![el("p", vec![TAttr::Cls(false, "x\u{b}".into())], vec![tx("t")])])], &mut g.r));
    out.push(shape_of(vec![el("div", vec![], vec![el("textarea", vec![], vec![tx("a"), tx("b")])])], &mut g.r));
    out.push(shape_of(vec![el("div", vec![], vec![el("title", vec![], vec![tx("T"), tx("u")])])], &mut g.r));
    out.push(shape_of(vec![el("div", vec![], vec![el("script", vec![], vec![tx("var a"), tx("=1;")])])], &mut g.r));
    // 7. every node kind in every position
    let b = |t: &str| el("b", vec![], vec![tx(t)]);
    let idp = |v: &str| TAttr::Plain(false, "id".into(), v.into());
    let dynp = || TAttr::Plain(true, "title".into(), String::new());
    let frag = |k: Vec<Tmpl>| Tmpl::Frag(k);
    let cm = |c: &str| Tmpl::Comment(c.into());
    let unq = |t: &str| Tmpl::Text(t.into(), true);
    let many = |n: usize| -> Vec<Tmpl> { (0..n).map(|i| el("b", vec![], vec![tx(&format!("k{i}"))])).collect() };
    // fragments nested in a static / dynamic parent, with 0, 1, 2, 3 children, nested in each other
    for attrs in [vec![idp("s")], vec![dynp()]] {
        out.push(shape_of(vec![el("div", vec![], vec![el("section", attrs.clone(), vec![b("a"), frag(vec![b("b"), b("c")]), b("d")])])], &mut g.r));
        out.push(shape_of(vec![el("div", vec![], vec![el("p", attrs.clone(), vec![tx("a"), frag(vec![tx("b"), el("i", vec![], vec![tx("c")]), tx("d")]), tx("e")])])], &mut g.r));
        out.push(shape_of(vec![el("div", vec![], vec![el("p", attrs.clone(), vec![frag(vec![]), tx("t"), frag(vec![b("one")]), frag(vec![frag(vec![tx("x"), tx("y")]), tx("z")])])])], &mut g.r));
        // comments
        out.push(shape_of(vec![el("div", vec![], vec![el("p", attrs.clone(), vec![tx("x"), cm("c"), tx("y"), b("z"), cm("-->")])])], &mut g.r));
        // unquoted text
        out.push(shape_of(vec![el("div", vec![], vec![el("p", attrs.clone(), vec![unq("plain words"), b("x"), unq("more")])])], &mut g.r));
        // a component with children inside an otherwise static / dynamic element, and nested components
        out.push(shape_of(vec![el("div", vec![], vec![el("section", attrs.clone(), vec![Tmpl::Comp(vec![tx("in"), Tmpl::Comp(vec![b("deep"), cm("c")])]), b("after")])])], &mut g.r));
        // more than 16 children (tuples are chunked beyond 16)
        out.push(shape_of(vec![el("div", vec![], vec![el("section", attrs.clone(), many(18))])], &mut g.r));
        // MathML
        out.push(shape_of(
            vec![el("div", vec![], vec![el("p", attrs.clone(), vec![el("math", vec![TAttr::Cls(false, "m".into())], vec![el("mrow", vec![], vec![el("mi", vec![TAttr::Plain(false, "data-k".into(), "v".into())], vec![tx("x")]), el("mo", vec![], vec![tx("<")]), el("mn", vec![], vec![tx("2")])])])])])],
            &mut g.r,
        ));
    }
    out.push(shape_of(vec![cm("lead"), el("div", vec![], vec![tx("x")]), cm("trail")], &mut g.r));
    out.push(shape_of(vec![frag(vec![cm("only a comment"), frag(vec![])]), tx("t")], &mut g.r));
    out.push(shape_of(vec![Tmpl::Comp(vec![cm("c"), frag(vec![tx("a"), tx("b")]), el("p", vec![idp("p")], vec![frag(vec![b("1"), b("2")])])])], &mut g.r));
    out.push(shape_of(vec![Tmpl::Doctype, el("div", vec![idp("d")], vec![el("p", vec![idp("q")], vec![tx("x")])])], &mut g.r));
    out.push(shape_of(vec![Tmpl::Doctype, tx("text after doctype"), Tmpl::Block(String::new())], &mut g.r));
    let mut m17 = many(16);
    m17.push(Tmpl::Block(String::new()));
    out.push(shape_of(vec![el("div", vec![], m17)], &mut g.r));
    out.push(shape_of(many(17), &mut g.r));
    out.push(shape_of(vec![Tmpl::Comp(many(17))], &mut g.r));
    out.push(shape_of(vec![el("div", vec![], vec![frag(many(20))])], &mut g.r));
    out.push(shape_of(vec![el("math", vec![], vec![el("mi", vec![], vec![tx("y")]), Tmpl::Block(String::new())])], &mut g.r));
    // 8. elements below a non-escaping parent (`<noscript>`), static vs builder path; custom elements on the builder path
    let hp = |attrs: Vec<TAttr>, extra: Vec<Tmpl>| {
        let mut k = vec![tx("1 < 2 & 3")];
        k.extend(extra);
        el("p", attrs, k)
    };
    out.push(shape_of(vec![el("div", vec![], vec![el("noscript", vec![], vec![hp(vec![], vec![])])])], &mut g.r));
    out.push(shape_of(vec![el("div", vec![], vec![el("noscript", vec![], vec![hp(vec![], vec![Tmpl::Block(String::new())])])])], &mut g.r));
    out.push(shape_of(vec![el("div", vec![], vec![el("noscript", vec![], vec![hp(vec![dynp()], vec![]), el("span", vec![], vec![tx("a<b")])])])], &mut g.r));
    out.push(shape_of(vec![el("noscript", vec![], vec![hp(vec![idp("n")], vec![]), el("x-foo", vec![TAttr::Plain(true, "data-k".into(), String::new())], vec![tx("x&y")])])], &mut g.r));
    out.push(shape_of(vec![el("div", vec![], vec![el("noscript", vec![idp("ns")], vec![el("div", vec![], vec![hp(vec![], vec![]), el("em", vec![dynp()], vec![tx("</noscript>")])])])])], &mut g.r));
    out.push(shape_of(vec![el("div", vec![], vec![el("noscript", vec![], vec![Tmpl::Comp(vec![hp(vec![], vec![])]), frag(vec![hp(vec![], vec![]), el("b", vec![], vec![tx("&amp;")])])])])], &mut g.r));
    out.push(shape_of(vec![el("div", vec![], vec![el("x-foo", vec![TAttr::Plain(true, "data-k".into(), String::new())], vec![tx("inside")]), el("p", vec![], vec![tx("after")])])], &mut g.r));
    out.push(shape_of(vec![el("my-el2", vec![], vec![tx("count: "), Tmpl::Block(String::new())]), el("p", vec![], vec![tx("after")])], &mut g.r));
    out.push(shape_of(vec![el("div", vec![], vec![el("x-foo", vec![TAttr::Plain(false, "foo".into(), "s".into())], vec![el("my-el2", vec![TAttr::ClsToggle("on".into(), true)], vec![tx("deep")])]), tx("after")])], &mut g.r));
    // 9. <textarea> text: escaped on both paths (tachys 7006223 / 01b809d, macro fix-c18-5)
    for t in ["&lt;b&gt;", "</textarea><img src=x>", "\nfoo", "\n", "a & b < c > d", ""] {
        out.push(shape_of(vec![el("div", vec![], vec![el("textarea", vec![], vec![tx(t)])])], &mut g.r));
    }
    out.push(shape_of(vec![el("div", vec![], vec![el("textarea", vec![idp("t")], vec![tx("\n"), tx("&amp;")])])], &mut g.r));
    out.push(shape_of(vec![el("div", vec![], vec![el("textarea", vec![dynp()], vec![tx("x < y")])])], &mut g.r));
    out.push(shape_of(vec![el("textarea", vec![], vec![tx("root & static")])], &mut g.r));
    // 6. `n_random` pseudo-random templates, from their own generator state: adding systematic shapes (append
    // them AFTER this block) never changes an existing shape or its index, so the corpus stays valid
    let mut g_sys = std::mem::replace(&mut g, Gen { r: Sm(0xC18_6) });
    let first_random = out.len();
    while out.len() < first_random + n_random {
        let mode = if g.r.chance(1, 4) { Mode::Static } else { Mode::Mixed };
        let nroots = if g.r.chance(1, 5) { 2 + g.r.below(2) } else { 1 };
        let mut roots = vec![];
        for _ in 0..nroots {
            let depth = 1 + g.r.below(3);
            let c = g.r.below(11);
            if c == 0 {
                roots.push(g.text());
            } else if c == 1 {
                let mut k = g.kids(depth - 1, false, false, mode, 3);
                if !k.iter().any(renders) {
                    k.push(g.text());
                }
                roots.push(Tmpl::Comp(k));
            } else if c == 2 {
                roots.push(Tmpl::Frag(g.kids(depth - 1, false, false, mode, 3)));
            } else if c == 3 {
                roots.push(g.comment());
            } else {
                // a root element is never inert: give it children that can be
                let tag = g.r.pick(BLOCK);
                let a = g.attrs(tag, mode, 3);
                let mut k = g.kids(depth, false, false, mode, 4);
                if k.is_empty() {
                    k.push(g.elem(depth, false, false, Mode::Static));
                }
                roots.push(Tmpl::Elem(tag.into(), a, k));
            }
        }
        // a template made only of comments / empty fragments expands to `()`: give it something to render
        if !roots.iter().any(renders) {
            roots.push(g.text());
        }
        if g.r.chance(1, 15) {
            roots.insert(0, Tmpl::Doctype);
        }
        out.push(shape_of(roots, &mut g.r));
    }
    // 10. self-closing syntax of non-void / custom / SVG elements in static and dynamic subtrees
    // (`self_closed_syntax`: tag.len() + attrs.len() odd => written `<tag …/>`), literal attribute kinds,
    // white-space-only text on both paths
    let g = &mut g_sys;
    let idp = |v: &str| TAttr::Plain(false, "id".into(), v.into());
    let dynp = || TAttr::Plain(true, "title".into(), String::new());
    let cls = |v: &str| TAttr::Cls(false, v.into());
    for attrs in [vec![idp("s")], vec![dynp()]] {
        // span+1 attr (odd): `<span class="icon"/>`; x-foo+2; circle+1; rect+1; b+0 is even: `<b></b>`
        out.push(shape_of(vec![el("div", vec![], vec![el("p", attrs.clone(), vec![el("span", vec![cls("icon")], vec![]), tx("text"), el("b", vec![], vec![]), tx("more")])])], &mut g.r));
        out.push(shape_of(vec![el("div", vec![], vec![el("section", attrs.clone(), vec![el("x-foo", vec![idp("c"), TAttr::Plain(false, "foo".into(), "v".into())], vec![]), el("p", vec![], vec![tx("after")]), el("div", vec![], vec![]), tx("tail")])])], &mut g.r));
        out.push(shape_of(vec![el("div", vec![], vec![el("p", attrs.clone(), vec![el("svg", vec![], vec![el("circle", vec![TAttr::Plain(false, "r".into(), "1".into())], vec![]), el("rect", vec![TAttr::Plain(false, "x".into(), "2".into())], vec![]), el("g", vec![], vec![])]), tx("t")])])], &mut g.r));
        // literal attribute kinds
        out.push(shape_of(vec![el("div", vec![], vec![el("p", attrs.clone(), vec![el("input", vec![TAttr::LitBool("disabled".into(), false), TAttr::LitBool("hidden".into(), true), TAttr::LitVal("tabindex".into(), "2".into())], vec![]), el("span", vec![TAttr::LitVal("data-k".into(), "1.5".into()), TAttr::LitVal("title".into(), "'<'".into()), TAttr::LitBool("inert".into(), false)], vec![tx("x")])])])], &mut g.r));
        // white-space-only text
        out.push(shape_of(vec![el("div", vec![], vec![el("p", attrs.clone(), vec![tx("  "), el("b", vec![], vec![tx("\t")]), tx("\u{a0}"), el("i", vec![], vec![tx(" \n ")])]), el("pre", attrs.clone(), vec![tx("  a\n\n  b"), el("b", vec![], vec![tx("\n\n")]), tx("\u{a0}\u{a0}")])])], &mut g.r));
    }
    out.push(shape_of(vec![el("span", vec![cls("root-self-closed")], vec![]), tx("after")], &mut g.r));
    out.push(shape_of(vec![el("pre", vec![], vec![tx("    "), Tmpl::Block(String::new())])], &mut g.r));
    // 11. static text and elements AFTER a closed raw-text / RCDATA sibling (with and without children), at several
    // depths, in static and dynamic subtrees: the escaping of text depends on the element that contains it only
    for (raw, content) in [("style", "p{}"), ("script", "var a=1;"), ("textarea", "v"), ("noscript", "n"), ("title", "T")] {
        for attrs in [vec![idp("s")], vec![dynp()]] {
            out.push(shape_of(
                vec![el("div", vec![], vec![el("section", attrs.clone(), vec![el(raw, vec![], vec![tx(content)]), tx("1 < 2 & <b>3</b>"), el("p", vec![], vec![tx("a<b")]), tx("tail & >")])])],
                &mut g.r,
            ));
            out.push(shape_of(
                vec![el("div", vec![], vec![el("section", attrs.clone(), vec![el("div", vec![], vec![el("p", vec![], vec![el(raw, vec![idp("r")], vec![tx(content)])]), tx("x<y")]), tx("after & all"), el(raw, vec![], vec![]), tx("<i>&amp;</i>")])])],
                &mut g.r,
            ));
        }
    }
    // 12. blocks of unit type at every child position among text / element siblings (5 source forms), in hole-free
    // and in dynamic parents, at the root, in fragments and components
    for k in 0u8..5 {
        let u = || Tmpl::Unit(k);
        for attrs in [vec![idp("s")], vec![dynp()]] {
            out.push(shape_of(vec![el("div", vec![], vec![el("p", attrs.clone(), vec![tx("before "), u(), el("b", vec![], vec![tx("bold")]), tx(" after")])])], &mut g.r));
            out.push(shape_of(vec![el("div", vec![], vec![el("p", attrs.clone(), vec![u(), tx("t"), el("i", vec![], vec![u()]), u()])])], &mut g.r));
        }
        out.push(shape_of(vec![u(), tx("root text"), Tmpl::Frag(vec![tx("f"), u()]), Tmpl::Comp(vec![u(), tx("c")])], &mut g.r));
    }
    // 13. components with spread attributes: every name shape, class: / style: forms, static and dynamic values
    let pa = |n: &str, v: &str| TAttr::Plain(false, n.into(), v.into());
    let pd = |n: &str| TAttr::Plain(true, n.into(), String::new());
    for card in [false, true] {
        out.push(shape_of(vec![Tmpl::CompA(card, vec![pa("data-kind", "info"), pa("id", "i"), pd("title")], vec![tx("c")])], &mut g.r));
        out.push(shape_of(vec![Tmpl::CompA(card, vec![pa("accept-charset", "u"), pa("aria-label", "l"), pa("data-a-b-c", "v"), pa("title-2", "h"), pa("form-x", "f")], vec![tx("c")])], &mut g.r));
        out.push(shape_of(vec![Tmpl::CompA(card, vec![pa("data", "d"), pa("accept", "a"), pa("form", "f"), pd("lang")], vec![el("p", vec![], vec![tx("x")])])], &mut g.r));
        out.push(shape_of(vec![Tmpl::CompA(card, vec![TAttr::ClsToggle("on".into(), true), TAttr::StyleKV(false, "left".into(), "1px".into()), TAttr::Cls(false, "k j".into()), TAttr::StyleKV(true, "color".into(), String::new()), TAttr::Flag("hidden".into()), TAttr::BoolDyn("data-x".into(), false)], vec![tx("c")])], &mut g.r));
        out.push(shape_of(vec![el("div", vec![], vec![el("section", vec![idp("s")], vec![Tmpl::CompA(card, vec![pa("data-kind", "q\"<&>"), TAttr::LitVal("data-n".into(), "2".into()), TAttr::LitBool("hidden".into(), false)], vec![tx("in"), Tmpl::CompA(!card, vec![pd("aria-describedby")], vec![tx("deep")])]), tx("after")])])], &mut g.r));
    }
    out
}
