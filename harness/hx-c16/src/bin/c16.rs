//! C16 correspondence harness: the real `reactive_stores` (Store, Subfield, AtIndex, KeyedSubfield, AtKeyed,
//! Patch) + `reactive_graph` effects from /repo's working tree, driven by `hx_common::sched`.
//!
//! (/repo after fix-c16-1 `FieldKeys::new`, fix-c16-2 `AtIndex::writer`, fix-c16-3 `track_field`, fix-c16-4 `iter_unkeyed`,
//! fix-c16-5 `ArcField::from(Store)`, fix-c16-6 enum variant field segments.)
//!
//! Store shapes come from one fixed family of `#[derive(Store, Patch)]` types:
//!   Root { a: u32, mid: Mid, opt: Option<Leaf>, list: Vec<Leaf>, #[store(key: u32 = |r| r.id)] rows: Vec<Row>,
//!          #[patch(|this, new| *this = new)] boxed: Box<Leaf>, attr: Attr }
//!   Attr { sf: SkipFirst{#[store(skip)] s, a, b}, sm: SkipMid{a, #[store(skip)] s, b, c: Leaf},
//!          sl: SkipLast{a, b, #[store(skip)] s}, tu: Tup(u32, Leaf, u32, #[store(skip)] u32),
//!          #[patch(..)] en: En }      enum En { A{x, y}, B(u32, Leaf), C }
//!   Mid  { x: u32, inner: Leaf, #[store(key: u32 = |r| r.id)] rows: Vec<Row>, opt: Option<Leaf> }
//!   Leaf { v: u32, w: u32 }          Row { id: u32, label: u32, sub: Leaf }
//!
//! Values (no spaces): leaf `7`, struct `{a,b}`, `Option` `~` / `?x`, `Vec` `[a,b]`, keyed `Vec` `<a,b>`,
//! `Box<Leaf>` `(a,b)` (accessed through `DerefedField`, which adds no path segment), enum `^variant,fields..$`.
//! Accessor chains: `-` (the store itself) or `.`-separated `f<i>` (struct field / `unwrap()` = f0),
//! `i<n>` (`at_unkeyed(n)`), `k<i>` (keyed field), `@<key>` (`AtKeyed`), `v<variant>_<i>` (field i of an enum variant).
//!
//! Op grammar (one line each; every line answers `<observable> ## <verdict>`):
//!   case <n>
//!   init <Root value> [arena|arc|conv]   the store handle: `Store::new` (default), `ArcStore::new` (cloned for every
//!                                    use), `Store::from(ArcStore::new(..))`; everything else goes through it
//!   eff <chain> [how]                one `Effect` reading the field; how = get (default) | read | with | track
//!                                    (`.try_get()` / `.try_read()` / `.try_with(..)` / `.track()` + `try_read_untracked()`),
//!                                    map | invert (`OptionStoreExt` on the Option field on the way, `.get()` inside),
//!                                    iter (`for` over a keyed field / `.iter_unkeyed()`, every item `.get()`),
//!                                    field<k> | arc<k> (the accessor after k steps is converted to a `Field` /
//!                                    `ArcField` handle when the reader is created; the rest of the chain goes through it)
//!                                    variant (the enum's `variant_field()` accessor is called inside the reader;
//!                                    otherwise the `Subfield` of a variant's field is held from creation on)
//!   imm <chain> [how]                the same as an `ImmediateEffect` (runs inside `notify`: wake order)
//!   effi | immi <kchain>             = `eff | imm <kchain> iter`
//!   set|upd|wr <chain> <value> [field<k>|arc<k>]   `.set(v)` / `.update(|x| *x = v)` / `*f.write() = v`; with the
//!                                    last word the accessor after k steps is first converted to a `Field` /
//!                                    `ArcField` (`.into()`) and the write goes through that handle
//!   patch <chain> <value> [field<k>|arc<k>]        `Patch::patch`, likewise
//!   kpush <kchain> <row> | kremove <kchain> <i> | kswap <kchain> <i> <j> | krev <kchain>   through `.write()`
//!   hnew <chain> field|arc           a long-lived handle (`Field::from(..)` / `ArcField::from(..)`) of the accessor at
//!                                    the end of the chain; answers `h=<id>`; chains of later ops may start with `h<id>`
//!   race <k> <rounds>                k OS threads do the first tracked access to fresh paths together (own store)
//!   poll <i>                         poll the (i mod len)-th woken effect task
//!   idle                             poll woken tasks in spawn order until none is left
//! Observable: `[w=<done|absent|none> ]r=<woken effect ids> l=<id:seen;…>` (the run log of this op).
//! Oracle (independent of the model; keyed items addressed by key on a plain snapshot of the store):
//!  * after a write exactly the readers whose chain is prefix-related to a written field are woken (Effect:
//!    appear in the ready list; ImmediateEffect: appear in the run log); for `patch` the written fields are
//!    the fields that differ; a reader through `map` / `invert` counts as a reader of the Option field itself;
//!    readers of a key that has never been in the collection are not judged, nor are held `Subfield`s of a
//!    field of an enum variant the value is not in; `#[store(skip)]` fields have no accessor (no reader, no
//!    direct write: outside the property), their sibling fields are ordinary struct fields (inside);
//!  * every run logs the current value of its field (a panic or a stale/absent value fails);
//!  * immediate readers of proper ancestors of the written field run before those of its proper descendants.
use hx_common::*;
use reactive_graph::{
    effect::{Effect, ImmediateEffect},
    owner::Owner,
    traits::*,
};
use reactive_stores::{
    ArcField, ArcStore, AtKeyed, DerefField, Field, KeyedSubfield, OptionStoreExt, Patch, Store, StoreField,
    StoreFieldIterator,
};
use std::ops::Deref;
use std::panic::{catch_unwind, AssertUnwindSafe};
use std::sync::{Arc, Mutex};

// ---------------------------------------------------------------- the family

#[derive(Store, Patch, Clone, Debug, Default, PartialEq)]
pub struct Leaf {
    v: u32,
    w: u32,
}
#[derive(Store, Patch, Clone, Debug, Default, PartialEq)]
pub struct Row {
    id: u32,
    label: u32,
    sub: Leaf,
}
#[derive(Store, Patch, Clone, Debug, Default, PartialEq)]
pub struct Mid {
    x: u32,
    inner: Leaf,
    #[store(key: u32 = |r| r.id)]
    rows: Vec<Row>,
    opt: Option<Leaf>,
}
#[derive(Store, Patch, Clone, Debug, Default, PartialEq)]
pub struct Root {
    a: u32,
    mid: Mid,
    opt: Option<Leaf>,
    list: Vec<Leaf>,
    #[store(key: u32 = |r| r.id)]
    rows: Vec<Row>,
    /// read through `DerefedField` (`.deref_field()`), patched as a whole by its parent
    #[patch(|this, new| *this = new)]
    boxed: Box<Leaf>,
    /// shapes with attributes: `#[store(skip)]` first / in the middle / last, a tuple struct, an enum
    attr: Attr,
}
#[derive(Store, Patch, Clone, Debug, Default, PartialEq)]
pub struct SkipFirst {
    #[store(skip)]
    s: u32,
    a: u32,
    b: u32,
}
#[derive(Store, Patch, Clone, Debug, Default, PartialEq)]
pub struct SkipMid {
    a: u32,
    #[store(skip)]
    s: u32,
    b: u32,
    c: Leaf,
}
#[derive(Store, Patch, Clone, Debug, Default, PartialEq)]
pub struct SkipLast {
    a: u32,
    b: u32,
    #[store(skip)]
    s: u32,
}
#[derive(Store, Patch, Clone, Debug, Default, PartialEq)]
pub struct Tup(u32, Leaf, u32, #[store(skip)] u32);
#[derive(Store, Clone, Debug, Default, PartialEq)]
pub enum En {
    A {
        x: u32,
        y: u32,
    },
    B(u32, Leaf),
    #[default]
    C,
}
#[derive(Store, Patch, Clone, Debug, Default, PartialEq)]
pub struct Attr {
    sf: SkipFirst,
    sm: SkipMid,
    sl: SkipLast,
    tu: Tup,
    /// `derive(Patch)` does not take enums
    #[patch(|this, new| *this = new)]
    en: En,
}

// ---------------------------------------------------------------- generic values

#[derive(Clone, Copy, Debug, PartialEq, Eq)]
enum Tag {
    Struct,
    Opt,
    Vec,
    KVec,
    Atom,
    Enumv,
}
#[derive(Clone, Debug, PartialEq, Eq)]
enum V {
    Leaf(u32),
    Node(Tag, Vec<V>),
}

fn show(v: &V) -> String {
    match v {
        V::Leaf(n) => n.to_string(),
        V::Node(Tag::Opt, xs) => match xs.first() {
            None => "~".into(),
            Some(x) => format!("?{}", show(x)),
        },
        V::Node(t, xs) => {
            let (o, c) = match t {
                Tag::Struct => ('{', '}'),
                Tag::Vec => ('[', ']'),
                Tag::Atom => ('(', ')'),
                Tag::Enumv => ('^', '$'),
                _ => ('<', '>'),
            };
            format!("{o}{}{c}", xs.iter().map(show).collect::<Vec<_>>().join(","))
        }
    }
}

fn parse_v(s: &str) -> Option<V> {
    fn val(b: &[u8], i: &mut usize) -> Option<V> {
        match *b.get(*i)? {
            b'{' => items(b, i, b'}').map(|x| V::Node(Tag::Struct, x)),
            b'[' => items(b, i, b']').map(|x| V::Node(Tag::Vec, x)),
            b'<' => items(b, i, b'>').map(|x| V::Node(Tag::KVec, x)),
            b'(' => items(b, i, b')').map(|x| V::Node(Tag::Atom, x)),
            b'^' => items(b, i, b'$').map(|x| V::Node(Tag::Enumv, x)),
            b'~' => {
                *i += 1;
                Some(V::Node(Tag::Opt, vec![]))
            }
            b'?' => {
                *i += 1;
                Some(V::Node(Tag::Opt, vec![val(b, i)?]))
            }
            c if c.is_ascii_digit() => {
                let st = *i;
                while *i < b.len() && b[*i].is_ascii_digit() {
                    *i += 1;
                }
                std::str::from_utf8(&b[st..*i]).ok()?.parse().ok().map(V::Leaf)
            }
            _ => None,
        }
    }
    fn items(b: &[u8], i: &mut usize, close: u8) -> Option<Vec<V>> {
        *i += 1;
        let mut out = vec![];
        loop {
            let c = *b.get(*i)?;
            if c == close {
                *i += 1;
                return Some(out);
            }
            if c == b',' {
                *i += 1;
            }
            out.push(val(b, i)?);
        }
    }
    let b = s.as_bytes();
    let mut i = 0;
    let v = val(b, &mut i)?;
    (i == b.len()).then_some(v)
}

trait Conv: Sized {
    fn to_v(&self) -> V;
    fn from_v(v: &V) -> Option<Self>;
}
impl Conv for u32 {
    fn to_v(&self) -> V {
        V::Leaf(*self)
    }
    fn from_v(v: &V) -> Option<Self> {
        match v {
            V::Leaf(n) => Some(*n),
            _ => None,
        }
    }
}
fn fields<'a>(v: &'a V, t: Tag, n: Option<usize>) -> Option<&'a [V]> {
    match v {
        V::Node(t2, xs) if *t2 == t && n.map_or(true, |n| xs.len() == n) => Some(xs),
        _ => None,
    }
}
impl Conv for Leaf {
    fn to_v(&self) -> V {
        V::Node(Tag::Struct, vec![self.v.to_v(), self.w.to_v()])
    }
    fn from_v(v: &V) -> Option<Self> {
        let f = fields(v, Tag::Struct, Some(2)).or_else(|| fields(v, Tag::Atom, Some(2)))?;
        Some(Leaf { v: u32::from_v(&f[0])?, w: u32::from_v(&f[1])? })
    }
}
impl Conv for Box<Leaf> {
    fn to_v(&self) -> V {
        V::Node(Tag::Atom, vec![self.v.to_v(), self.w.to_v()])
    }
    fn from_v(v: &V) -> Option<Self> {
        let f = fields(v, Tag::Atom, Some(2))?;
        Some(Box::new(Leaf { v: u32::from_v(&f[0])?, w: u32::from_v(&f[1])? }))
    }
}
impl Conv for Row {
    fn to_v(&self) -> V {
        V::Node(Tag::Struct, vec![self.id.to_v(), self.label.to_v(), self.sub.to_v()])
    }
    fn from_v(v: &V) -> Option<Self> {
        let f = fields(v, Tag::Struct, Some(3))?;
        Some(Row { id: u32::from_v(&f[0])?, label: u32::from_v(&f[1])?, sub: Leaf::from_v(&f[2])? })
    }
}
impl Conv for Option<Leaf> {
    fn to_v(&self) -> V {
        V::Node(Tag::Opt, self.iter().map(|x| x.to_v()).collect())
    }
    fn from_v(v: &V) -> Option<Self> {
        let f = fields(v, Tag::Opt, None)?;
        match f {
            [] => Some(None),
            [x] => Some(Some(Leaf::from_v(x)?)),
            _ => None,
        }
    }
}
impl Conv for Vec<Leaf> {
    fn to_v(&self) -> V {
        V::Node(Tag::Vec, self.iter().map(|x| x.to_v()).collect())
    }
    fn from_v(v: &V) -> Option<Self> {
        fields(v, Tag::Vec, None)?.iter().map(Leaf::from_v).collect()
    }
}
impl Conv for Vec<Row> {
    fn to_v(&self) -> V {
        V::Node(Tag::KVec, self.iter().map(|x| x.to_v()).collect())
    }
    fn from_v(v: &V) -> Option<Self> {
        fields(v, Tag::KVec, None)?.iter().map(Row::from_v).collect()
    }
}
impl Conv for SkipFirst {
    fn to_v(&self) -> V {
        V::Node(Tag::Struct, vec![self.s.to_v(), self.a.to_v(), self.b.to_v()])
    }
    fn from_v(v: &V) -> Option<Self> {
        let f = fields(v, Tag::Struct, Some(3))?;
        Some(SkipFirst { s: u32::from_v(&f[0])?, a: u32::from_v(&f[1])?, b: u32::from_v(&f[2])? })
    }
}
impl Conv for SkipMid {
    fn to_v(&self) -> V {
        V::Node(Tag::Struct, vec![self.a.to_v(), self.s.to_v(), self.b.to_v(), self.c.to_v()])
    }
    fn from_v(v: &V) -> Option<Self> {
        let f = fields(v, Tag::Struct, Some(4))?;
        Some(SkipMid { a: u32::from_v(&f[0])?, s: u32::from_v(&f[1])?, b: u32::from_v(&f[2])?, c: Leaf::from_v(&f[3])? })
    }
}
impl Conv for SkipLast {
    fn to_v(&self) -> V {
        V::Node(Tag::Struct, vec![self.a.to_v(), self.b.to_v(), self.s.to_v()])
    }
    fn from_v(v: &V) -> Option<Self> {
        let f = fields(v, Tag::Struct, Some(3))?;
        Some(SkipLast { a: u32::from_v(&f[0])?, b: u32::from_v(&f[1])?, s: u32::from_v(&f[2])? })
    }
}
impl Conv for Tup {
    fn to_v(&self) -> V {
        V::Node(Tag::Struct, vec![self.0.to_v(), self.1.to_v(), self.2.to_v(), self.3.to_v()])
    }
    fn from_v(v: &V) -> Option<Self> {
        let f = fields(v, Tag::Struct, Some(4))?;
        Some(Tup(u32::from_v(&f[0])?, Leaf::from_v(&f[1])?, u32::from_v(&f[2])?, u32::from_v(&f[3])?))
    }
}
impl Conv for En {
    fn to_v(&self) -> V {
        V::Node(
            Tag::Enumv,
            match self {
                En::A { x, y } => vec![V::Leaf(0), x.to_v(), y.to_v()],
                En::B(a, b) => vec![V::Leaf(1), a.to_v(), b.to_v()],
                En::C => vec![V::Leaf(2)],
            },
        )
    }
    fn from_v(v: &V) -> Option<Self> {
        let f = fields(v, Tag::Enumv, None)?;
        match f {
            [V::Leaf(0), x, y] => Some(En::A { x: u32::from_v(x)?, y: u32::from_v(y)? }),
            [V::Leaf(1), a, b] => Some(En::B(u32::from_v(a)?, Leaf::from_v(b)?)),
            [V::Leaf(2)] => Some(En::C),
            _ => None,
        }
    }
}
impl Conv for Attr {
    fn to_v(&self) -> V {
        V::Node(Tag::Struct, vec![self.sf.to_v(), self.sm.to_v(), self.sl.to_v(), self.tu.to_v(), self.en.to_v()])
    }
    fn from_v(v: &V) -> Option<Self> {
        let f = fields(v, Tag::Struct, Some(5))?;
        Some(Attr {
            sf: SkipFirst::from_v(&f[0])?,
            sm: SkipMid::from_v(&f[1])?,
            sl: SkipLast::from_v(&f[2])?,
            tu: Tup::from_v(&f[3])?,
            en: En::from_v(&f[4])?,
        })
    }
}
impl Conv for Mid {
    fn to_v(&self) -> V {
        V::Node(Tag::Struct, vec![self.x.to_v(), self.inner.to_v(), self.rows.to_v(), self.opt.to_v()])
    }
    fn from_v(v: &V) -> Option<Self> {
        let f = fields(v, Tag::Struct, Some(4))?;
        Some(Mid {
            x: u32::from_v(&f[0])?,
            inner: Leaf::from_v(&f[1])?,
            rows: Vec::<Row>::from_v(&f[2])?,
            opt: Option::<Leaf>::from_v(&f[3])?,
        })
    }
}
impl Conv for Root {
    fn to_v(&self) -> V {
        V::Node(
            Tag::Struct,
            vec![
                self.a.to_v(),
                self.mid.to_v(),
                self.opt.to_v(),
                self.list.to_v(),
                self.rows.to_v(),
                self.boxed.to_v(),
                self.attr.to_v(),
            ],
        )
    }
    fn from_v(v: &V) -> Option<Self> {
        let f = fields(v, Tag::Struct, Some(7))?;
        Some(Root {
            a: u32::from_v(&f[0])?,
            mid: Mid::from_v(&f[1])?,
            opt: Option::<Leaf>::from_v(&f[2])?,
            list: Vec::<Leaf>::from_v(&f[3])?,
            rows: Vec::<Row>::from_v(&f[4])?,
            boxed: Box::<Leaf>::from_v(&f[5])?,
            attr: Attr::from_v(&f[6])?,
        })
    }
}

// ---------------------------------------------------------------- chains

#[derive(Clone, Copy, Debug, PartialEq, Eq)]
enum Acc {
    Fld(usize),
    Idx(usize),
    KFld(usize),
    Key(u32),
    /// field i of enum variant v
    Var(usize, usize),
    /// only at the head of a chain as written in an op: start at the long-lived handle number id
    H(usize),
}
type Chain = Vec<Acc>;

fn parse_chain(s: &str) -> Option<Chain> {
    if s == "-" {
        return Some(vec![]);
    }
    s.split('.')
        .map(|t| {
            if let Some(r) = t.strip_prefix('h') {
                return Some(Acc::H(r.parse().ok()?));
            }
            if let Some(r) = t.strip_prefix('v') {
                let (a, b) = r.split_once('_')?;
                return Some(Acc::Var(a.parse().ok()?, b.parse().ok()?));
            }
            if t.is_empty() {
                return None;
            }
            let (c, n) = t.split_at(1);
            if n.is_empty() || !n.bytes().all(|b| b.is_ascii_digit()) {
                return None;
            }
            let n: u32 = n.parse().ok()?;
            match c {
                "f" => Some(Acc::Fld(n as usize)),
                "i" => Some(Acc::Idx(n as usize)),
                "k" => Some(Acc::KFld(n as usize)),
                "@" => Some(Acc::Key(n)),
                _ => None,
            }
        })
        .collect()
}

fn show_chain(c: &[Acc]) -> String {
    if c.is_empty() {
        return "-".into();
    }
    c.iter()
        .map(|a| match a {
            Acc::Fld(i) => format!("f{i}"),
            Acc::Idx(i) => format!("i{i}"),
            Acc::KFld(i) => format!("k{i}"),
            Acc::Key(k) => format!("@{k}"),
            Acc::Var(v, i) => format!("v{v}_{i}"),
            Acc::H(i) => format!("h{i}"),
        })
        .collect::<Vec<_>>()
        .join(".")
}

// ---------------------------------------------------------------- typed navigation on the real store

#[derive(Clone, Copy, PartialEq)]
enum How {
    Set,
    Upd,
    Wr,
}
/// every public way of reading a field
#[derive(Clone, Copy, PartialEq, Debug)]
enum RHow {
    Get,          // `.try_get()`
    Read,         // `.try_read()`
    With,         // `.try_with(..)`
    Track,        // `.track()` + `.try_read_untracked()`
    Map,          // `OptionStoreExt::map` on the Option field on the way, `.get()` inside
    Invert,       // `OptionStoreExt::invert`, then `.get()`
    Iter,         // `for item in keyed_field` / `.iter_unkeyed()`, every item `.get()`
    Variant,      // the enum's `variant_field()` accessor called inside the reader, then `.get()`
    Field(usize), // the accessor after k steps converted to `Field` when the reader is created
    Arc(usize),   // … to `ArcField`
}
/// a reader: `f(true)` tracks and reads, `f(false)` only tracks (the field is absent: `None.unwrap()`, index ≥ len)
type RFn = Box<dyn Fn(bool) -> String + Send + Sync>;
/// erase the accessor reached after this many more steps; `true`: `ArcField`, `false`: `Field`
type Er = Option<(usize, bool)>;

enum Do<'a> {
    /// keep the (already converted) `Field` / `ArcField` at the end of the chain for later use
    MakeHandle,
    Reader(RHow),
    Write(&'a V, How),
    Patch(&'a V),
    KPush(&'a V),
    KRemove(usize),
    KSwap(usize, usize),
    KRev,
}
/// a long-lived handle: continues the navigation from it
type HFn = Arc<dyn Fn(&[Acc], &Do, Er) -> Out + Send + Sync>;
enum Out {
    Handle(HFn),
    Reader(RFn),
    Wrote(&'static str),
    Bad,
}

trait Node<T>:
    StoreField<Value = T>
    + Track
    + ReadUntracked<Value: Deref<Target = T>>
    + Write<Value = T>
    + IsDisposed
    + Clone
    + Send
    + Sync
    + 'static
{
}
impl<T, F> Node<T> for F where
    F: StoreField<Value = T>
        + Track
        + ReadUntracked<Value: Deref<Target = T>>
        + Write<Value = T>
        + IsDisposed
        + Clone
        + Send
        + Sync
        + 'static
{
}

/// one more accessor step; converts the new accessor to `Field` / `ArcField` if this is the erased position
macro_rules! go {
    ($acc:expr, $er:expr, $x:ident, $er2:ident => $cont:expr) => {
        match $er {
            Some((1, false)) => {
                let $x: Field<_> = $acc.into();
                let $er2: Er = None;
                $cont
            }
            Some((1, true)) => {
                let $x: ArcField<_> = $acc.into();
                let $er2: Er = None;
                $cont
            }
            other => {
                let $x = $acc;
                let $er2: Er = other.map(|(n, a): (usize, bool)| (n.saturating_sub(1), a));
                $cont
            }
        }
    };
}

/// `Patch::patch` where the type has a `PatchField` impl (`derive(Patch)` does not take enums)
trait MaybePatch: Sized {
    fn do_patch<F: StoreField<Value = Self>>(f: &F, v: Self) -> bool;
}
macro_rules! can_patch {
    ($($t:ty),*) => {$(
        impl MaybePatch for $t {
            fn do_patch<F: StoreField<Value = Self>>(f: &F, v: Self) -> bool {
                f.patch(v);
                true
            }
        }
    )*};
}
can_patch!(u32, Leaf, Row, Mid, Root, Option<Leaf>, Vec<Leaf>, Vec<Row>, SkipFirst, SkipMid, SkipLast, Tup, Attr);
impl MaybePatch for En {
    fn do_patch<F: StoreField<Value = Self>>(_f: &F, _v: Self) -> bool {
        false
    }
}

/// how to go on from a value of this type (needed to continue from a handle)
trait Nav: Sized {
    fn nav<F: Node<Self>>(f: F, ch: &[Acc], op: &Do, er: Er, post: fn(V) -> V) -> Out;
}
macro_rules! nav_impl {
    ($t:ty, |$f:ident, $ch:ident, $op:ident, $er:ident, $post:ident| $body:expr) => {
        impl Nav for $t {
            fn nav<F: Node<Self>>($f: F, $ch: &[Acc], $op: &Do, $er: Er, $post: fn(V) -> V) -> Out {
                $body
            }
        }
    };
}
nav_impl!(u32, |f, ch, op, _er, post| if ch.is_empty() { end(f, op, post) } else { Out::Bad });
nav_impl!(Vec<Row>, |f, ch, op, _er, post| if ch.is_empty() { end(f, op, post) } else { Out::Bad });
nav_impl!(Leaf, |f, ch, op, er, post| nav_leafst(f, ch, op, er, post));
nav_impl!(Row, |f, ch, op, er, _post| nav_row(f, ch, op, er));
nav_impl!(Mid, |f, ch, op, er, _post| nav_mid(f, ch, op, er));
nav_impl!(Root, |f, ch, op, er, _post| nav_rootf(f, ch, op, er));
nav_impl!(Option<Leaf>, |f, ch, op, er, _post| nav_opt(f, ch, op, er));
nav_impl!(Vec<Leaf>, |f, ch, op, er, _post| nav_list(f, ch, op, er));
nav_impl!(En, |f, ch, op, er, _post| nav_en(f, ch, op, er));
nav_impl!(Attr, |f, ch, op, er, _post| nav_attr(f, ch, op, er));
nav_impl!(SkipFirst, |f, ch, op, er, _post| nav_skf(f, ch, op, er));
nav_impl!(SkipMid, |f, ch, op, er, _post| nav_skm(f, ch, op, er));
nav_impl!(SkipLast, |f, ch, op, er, _post| nav_skl(f, ch, op, er));
nav_impl!(Tup, |f, ch, op, er, _post| nav_tup(f, ch, op, er));

fn id_v(v: V) -> V {
    v
}
/// what a reader sees behind `DerefedField` is the pointee; the store's own value there is the `Box`
fn as_atom(v: V) -> V {
    match v {
        V::Node(_, xs) => V::Node(Tag::Atom, xs),
        v => v,
    }
}

/// the accessor at the end of a chain
fn end<T: Conv + MaybePatch + Nav + Clone + 'static, F: Node<T>>(f: F, op: &Do, post: fn(V) -> V) -> Out {
    match op {
        Do::MakeHandle => Out::Handle(Arc::new(move |rest: &[Acc], op: &Do, er: Er| T::nav(f.clone(), rest, op, er, post))),
        Do::Reader(how) => {
            let how = *how;
            Out::Reader(Box::new(move |read| {
                if !read {
                    f.track();
                    return "absent".into();
                }
                let seen: Option<String> = match how {
                    RHow::Read => f.try_read().map(|g| show(&post(g.deref().to_v()))),
                    RHow::With => f.try_with(|v| show(&post(v.to_v()))),
                    RHow::Track => {
                        f.track();
                        f.try_read_untracked().map(|g| show(&post(g.deref().to_v())))
                    }
                    _ => f.try_get().map(|v| show(&post(v.to_v()))),
                };
                seen.unwrap_or_else(|| "none".into())
            }))
        }
        Do::Write(v, how) => {
            let Some(nv) = T::from_v(v) else { return Out::Bad };
            match f.reader() {
                None => return Out::Wrote("none"),
                Some(r) => {
                    let _ = r.deref().to_v(); // a stale index panics here, as it would in the write
                }
            }
            match how {
                How::Set => f.set(nv),
                How::Upd => f.update(|x| *x = nv),
                How::Wr => *f.write() = nv,
            }
            Out::Wrote("done")
        }
        Do::Patch(v) => {
            let Some(nv) = T::from_v(v) else { return Out::Bad };
            match f.reader() {
                None => return Out::Wrote("none"),
                Some(r) => {
                    let _ = r.deref().to_v();
                }
            }
            if !T::do_patch(&f, nv) {
                return Out::Bad;
            }
            Out::Wrote("done")
        }
        _ => Out::Bad,
    }
}

fn call_reader(o: Out) -> String {
    match o {
        Out::Reader(f) => f(true),
        _ => "bad".into(),
    }
}

fn nav_leafst<F: Node<Leaf>>(f: F, ch: &[Acc], op: &Do, er: Er, post: fn(V) -> V) -> Out {
    match ch {
        [] => end(f, op, post),
        [Acc::Fld(0)] => go!(f.v(), er, x, _e => end(x, op, id_v)),
        [Acc::Fld(1)] => go!(f.w(), er, x, _e => end(x, op, id_v)),
        _ => Out::Bad,
    }
}

fn nav_opt<F>(o: F, ch: &[Acc], op: &Do, er: Er) -> Out
where
    F: Node<Option<Leaf>>,
{
    match (ch, op) {
        ([], _) => end(o, op, id_v),
        ([Acc::Fld(0), rest @ ..], Do::Reader(how @ (RHow::Map | RHow::Invert))) => {
            let rest = rest.to_vec();
            let how = *how;
            Out::Reader(Box::new(move |_read| {
                let inside = |inner| call_reader(nav_leafst(inner, &rest, &Do::Reader(RHow::Get), None, id_v));
                let r = if how == RHow::Map {
                    o.clone().map(inside)
                } else {
                    o.clone().invert().map(inside)
                };
                r.unwrap_or_else(|| "absent".into())
            }))
        }
        ([Acc::Fld(0), rest @ ..], _) => go!(o.unwrap(), er, x, e2 => nav_leafst(x, rest, op, e2, id_v)),
        _ => Out::Bad,
    }
}

fn nav_list<F: Node<Vec<Leaf>>>(l: F, ch: &[Acc], op: &Do, er: Er) -> Out {
    match (ch, op) {
        ([], Do::Reader(RHow::Iter)) => Out::Reader(Box::new(move |_read| {
            let mut out: Vec<Leaf> = vec![];
            for item in l.clone().iter_unkeyed() {
                match item.try_get() {
                    Some(v) => out.push(v),
                    None => return "none".into(),
                }
            }
            show(&out.to_v())
        })),
        ([], _) => end(l, op, id_v),
        ([Acc::Idx(i), rest @ ..], _) => go!(l.at_unkeyed(*i), er, x, e2 => nav_leafst(x, rest, op, e2, id_v)),
        _ => Out::Bad,
    }
}

fn nav_row<F: Node<Row>>(f: F, ch: &[Acc], op: &Do, er: Er) -> Out {
    match ch {
        [] => end(f, op, id_v),
        [Acc::Fld(0)] => go!(f.id(), er, x, _e => end(x, op, id_v)),
        [Acc::Fld(1)] => go!(f.label(), er, x, _e => end(x, op, id_v)),
        [Acc::Fld(2), rest @ ..] => go!(f.sub(), er, x, e2 => nav_leafst(x, rest, op, e2, id_v)),
        _ => Out::Bad,
    }
}

fn nav_rows<Inner, Prev>(f: KeyedSubfield<Inner, Prev, u32, Vec<Row>>, ch: &[Acc], op: &Do, er: Er) -> Out
where
    Inner: StoreField<Value = Prev> + Track + IsDisposed + Clone + Send + Sync + 'static,
    Prev: 'static,
{
    match ch {
        [] => match op {
            Do::Reader(RHow::Iter) => Out::Reader(Box::new(move |_read| {
                // the idiomatic reader: iterating the keyed field (update_keys + track_field),
                // every item read through its AtKeyed
                let mut out: Vec<Row> = vec![];
                for item in f.clone() {
                    match item.try_get() {
                        Some(v) => out.push(v),
                        None => return "none".into(),
                    }
                }
                show(&out.to_v())
            })),
            Do::KPush(v) => {
                let Some(row) = Row::from_v(v) else { return Out::Bad };
                f.write().push(row);
                Out::Wrote("done")
            }
            Do::KRemove(i) => {
                f.write().remove(*i);
                Out::Wrote("done")
            }
            Do::KSwap(i, j) => {
                f.write().swap(*i, *j);
                Out::Wrote("done")
            }
            Do::KRev => {
                f.write().reverse();
                Out::Wrote("done")
            }
            _ => end(f, op, id_v),
        },
        [Acc::Key(k), rest @ ..] => go!(AtKeyed::new(f, *k), er, x, e2 => nav_row(x, rest, op, e2)),
        _ => Out::Bad,
    }
}

fn nav_mid<F: Node<Mid>>(m: F, ch: &[Acc], op: &Do, er: Er) -> Out {
    match ch {
        [] => end(m, op, id_v),
        [Acc::Fld(0)] => go!(m.x(), er, x, _e => end(x, op, id_v)),
        [Acc::Fld(1), rest @ ..] => go!(m.inner(), er, x, e2 => nav_leafst(x, rest, op, e2, id_v)),
        [Acc::KFld(2), rest @ ..] => nav_rows(m.rows(), rest, op, er.map(|(n, a)| (n.saturating_sub(1), a))),
        [Acc::Fld(3), rest @ ..] => go!(m.opt(), er, x, e2 => nav_opt(x, rest, op, e2)),
        _ => Out::Bad,
    }
}

fn nav_en<F: Node<En>>(f: F, ch: &[Acc], op: &Do, er: Er) -> Out {
    // the four `variant_field()` accessors; `None` while the value is of another variant
    macro_rules! var {
        ($acc:ident, $rest:expr, $cont:ident) => {{
            if let Do::Reader(RHow::Variant) = op {
                let rest: Vec<Acc> = $rest.to_vec();
                let f = f.clone();
                Out::Reader(Box::new(move |_read| match f.clone().$acc() {
                    Some(x) => call_reader($cont(x, &rest, &Do::Reader(RHow::Get), None)),
                    None => "absent".into(),
                }))
            } else {
                match f.$acc() {
                    Some(x) => go!(x, er, x2, e2 => $cont(x2, $rest, op, e2)),
                    None => Out::Bad,
                }
            }
        }};
    }
    fn leaf_u32<G: Node<u32>>(g: G, ch: &[Acc], op: &Do, _er: Er) -> Out {
        if ch.is_empty() {
            end(g, op, id_v)
        } else {
            Out::Bad
        }
    }
    fn leaf_st<G: Node<Leaf>>(g: G, ch: &[Acc], op: &Do, er: Er) -> Out {
        nav_leafst(g, ch, op, er, id_v)
    }
    match ch {
        [] => end(f, op, id_v),
        [Acc::Var(0, 0), rest @ ..] => var!(a_x, rest, leaf_u32),
        [Acc::Var(0, 1), rest @ ..] => var!(a_y, rest, leaf_u32),
        [Acc::Var(1, 0), rest @ ..] => var!(b_0, rest, leaf_u32),
        [Acc::Var(1, 1), rest @ ..] => var!(b_1, rest, leaf_st),
        _ => Out::Bad,
    }
}

fn nav_skf<F: Node<SkipFirst>>(sf: F, ch: &[Acc], op: &Do, er: Er) -> Out {
    match ch {
        [] => end(sf, op, id_v),
        [Acc::Fld(1)] => go!(sf.a(), er, x, _e => end(x, op, id_v)),
        [Acc::Fld(2)] => go!(sf.b(), er, x, _e => end(x, op, id_v)),
        _ => Out::Bad,
    }
}
fn nav_skm<F: Node<SkipMid>>(sm: F, ch: &[Acc], op: &Do, er: Er) -> Out {
    match ch {
        [] => end(sm, op, id_v),
        [Acc::Fld(0)] => go!(sm.a(), er, x, _e => end(x, op, id_v)),
        [Acc::Fld(2)] => go!(sm.b(), er, x, _e => end(x, op, id_v)),
        [Acc::Fld(3), r2 @ ..] => go!(sm.c(), er, x, e3 => nav_leafst(x, r2, op, e3, id_v)),
        _ => Out::Bad,
    }
}
fn nav_skl<F: Node<SkipLast>>(sl: F, ch: &[Acc], op: &Do, er: Er) -> Out {
    match ch {
        [] => end(sl, op, id_v),
        [Acc::Fld(0)] => go!(sl.a(), er, x, _e => end(x, op, id_v)),
        [Acc::Fld(1)] => go!(sl.b(), er, x, _e => end(x, op, id_v)),
        _ => Out::Bad,
    }
}
fn nav_tup<F: Node<Tup>>(tu: F, ch: &[Acc], op: &Do, er: Er) -> Out {
    match ch {
        [] => end(tu, op, id_v),
        [Acc::Fld(0)] => go!(tu.field0(), er, x, _e => end(x, op, id_v)),
        [Acc::Fld(1), r2 @ ..] => go!(tu.field1(), er, x, e3 => nav_leafst(x, r2, op, e3, id_v)),
        [Acc::Fld(2)] => go!(tu.field2(), er, x, _e => end(x, op, id_v)),
        _ => Out::Bad,
    }
}
fn nav_attr<F: Node<Attr>>(a: F, ch: &[Acc], op: &Do, er: Er) -> Out {
    match ch {
        [] => end(a, op, id_v),
        [Acc::Fld(0), rest @ ..] => go!(a.sf(), er, x, e2 => nav_skf(x, rest, op, e2)),
        [Acc::Fld(1), rest @ ..] => go!(a.sm(), er, x, e2 => nav_skm(x, rest, op, e2)),
        [Acc::Fld(2), rest @ ..] => go!(a.sl(), er, x, e2 => nav_skl(x, rest, op, e2)),
        [Acc::Fld(3), rest @ ..] => go!(a.tu(), er, x, e2 => nav_tup(x, rest, op, e2)),
        [Acc::Fld(4), rest @ ..] => go!(a.en(), er, en, e2 => nav_en(en, rest, op, e2)),
        _ => Out::Bad,
    }
}

fn nav_rootf<F: Node<Root>>(s: F, ch: &[Acc], op: &Do, er: Er) -> Out {
    match ch {
        [] => end(s, op, id_v),
        [Acc::Fld(0)] => go!(s.a(), er, x, _e => end(x, op, id_v)),
        [Acc::Fld(1), rest @ ..] => go!(s.mid(), er, x, e2 => nav_mid(x, rest, op, e2)),
        [Acc::Fld(2), rest @ ..] => go!(s.opt(), er, x, e2 => nav_opt(x, rest, op, e2)),
        [Acc::Fld(3), rest @ ..] => go!(s.list(), er, x, e2 => nav_list(x, rest, op, e2)),
        [Acc::KFld(4), rest @ ..] => nav_rows(s.rows(), rest, op, er.map(|(n, a)| (n.saturating_sub(1), a))),
        // `boxed: Box<Leaf>` is always used through its `DerefedField`
        [Acc::Fld(5), rest @ ..] => {
            go!(s.boxed().deref_field(), er, x, e2 => nav_leafst(x, rest, op, e2, if rest.is_empty() { as_atom } else { id_v }))
        }
        [Acc::Fld(6), rest @ ..] => go!(s.attr(), er, x, e2 => nav_attr(x, rest, op, e2)),
        _ => Out::Bad,
    }
}

/// the store handle family: the arena handle `Store` (made by `Store::new` or converted from an `ArcStore`)
/// or the reference-counted `ArcStore` (cloned for every use)
#[derive(Clone)]
enum RootH {
    Arena(Store<Root>),
    Arc(ArcStore<Root>),
}
impl RootH {
    fn snap(&self) -> V {
        match self {
            RootH::Arena(s) => s.read_untracked().to_v(),
            RootH::Arc(a) => a.read_untracked().to_v(),
        }
    }
}

/// `era`: for writes, the accessor after k steps is converted to a `Field` (false) / `ArcField` (true)
fn nav_root(s: &RootH, ch: &[Acc], op: &Do, era: Er) -> Out {
    let er: Er = match op {
        Do::Reader(RHow::Field(k)) => Some((*k, false)),
        Do::Reader(RHow::Arc(k)) => Some((*k, true)),
        _ => era,
    };
    match s {
        RootH::Arena(s) => match er {
            Some((0, false)) => nav_rootf(Field::<Root>::from(*s), ch, op, None),
            Some((0, true)) => nav_rootf(ArcField::<Root>::from(*s), ch, op, None),
            _ => nav_rootf(*s, ch, op, er),
        },
        RootH::Arc(a) => match er {
            Some((0, false)) => nav_rootf(Field::<Root>::from(a.clone()), ch, op, None),
            Some((0, true)) => nav_rootf(ArcField::<Root>::from(a.clone()), ch, op, None),
            _ => nav_rootf(a.clone(), ch, op, er),
        },
    }
}

/// does the chain name a field of the family at all?
fn chain_ok(ch: &[Acc]) -> bool {
    ty_of(ch).is_some()
}

fn ends_keyed(ch: &[Acc]) -> bool {
    matches!(ch.last(), Some(Acc::KFld(_)))
}

// ---------------------------------------------------------------- logical addressing (oracle side)

#[derive(Debug, PartialEq)]
enum LSeen {
    Val(V),
    None,
    Absent,
}
fn key_of(v: &V) -> u32 {
    match v {
        V::Node(_, xs) => match xs.first() {
            Some(V::Leaf(k)) => *k,
            _ => 0,
        },
        _ => 0,
    }
}
fn logical_get(v: &V, ch: &[Acc]) -> LSeen {
    let Some((a, rest)) = ch.split_first() else { return LSeen::Val(v.clone()) };
    let V::Node(_, xs) = v else { return LSeen::Absent };
    match a {
        Acc::H(_) => LSeen::Absent, // logical chains contain no handles
        Acc::Fld(i) | Acc::Idx(i) | Acc::KFld(i) => match xs.get(*i) {
            Some(c) => logical_get(c, rest),
            None => LSeen::Absent,
        },
        Acc::Key(k) => match xs.iter().find(|x| key_of(x) == *k) {
            Some(c) => logical_get(c, rest),
            None => LSeen::None,
        },
        Acc::Var(n, i) => match (v, xs.first()) {
            (V::Node(Tag::Enumv, _), Some(V::Leaf(m))) if *m as usize == *n => match xs.get(*i + 1) {
                Some(c) => logical_get(c, rest),
                None => LSeen::Absent,
            },
            _ => LSeen::Absent,
        },
    }
}
fn show_lseen(s: &LSeen) -> String {
    match s {
        LSeen::Val(v) => show(v),
        LSeen::None => "none".into(),
        LSeen::Absent => "absent".into(),
    }
}
/// is there a value to look at for every plain field / index step before the first key step?
fn guard_absent(v: &V, ch: &[Acc]) -> bool {
    let mut cur = v;
    for a in ch {
        match a {
            Acc::Key(_) | Acc::H(_) => return false,
            Acc::Fld(i) | Acc::Idx(i) | Acc::KFld(i) => match cur {
                V::Node(_, xs) if *i < xs.len() => cur = &xs[*i],
                _ => return true,
            },
            Acc::Var(n, i) => match cur {
                V::Node(Tag::Enumv, xs) if xs.first() == Some(&V::Leaf(*n as u32)) && *i + 1 < xs.len() => {
                    cur = &xs[*i + 1]
                }
                _ => return true,
            },
        }
    }
    false
}
/// the `Option` field that the chain unwraps first (its prefix length), if any
fn opt_prefix(ch: &[Acc]) -> Option<usize> {
    (0..ch.len()).find(|n| matches!(ty_of(&ch[..*n]), Some(Ty::Opt | Ty::En)))
}
fn norm(ch: &[Acc]) -> Vec<Acc> {
    ch.iter().map(|a| if let Acc::KFld(i) = a { Acc::Fld(*i) } else { *a }).collect()
}
fn related(w: &[Acc], r: &[Acc]) -> bool {
    let (w, r) = (norm(w), norm(r));
    w.starts_with(&r) || r.starts_with(&w)
}
fn strict_prefix(a: &[Acc], b: &[Acc]) -> bool {
    a.len() < b.len() && norm(b).starts_with(&norm(a))
}
/// fields that differ between two values of the same type
fn diff(old: &V, new: &V, at: &Chain, out: &mut Vec<Chain>) {
    match (old, new) {
        (V::Leaf(a), V::Leaf(b)) => {
            if a != b {
                out.push(at.clone())
            }
        }
        // a field its parent patches as a whole
        (V::Node(Tag::Atom | Tag::Enumv, xs), V::Node(_, ys)) => {
            if xs != ys {
                out.push(at.clone())
            }
        }
        (V::Node(t, xs), V::Node(_, ys)) => {
            if xs.is_empty() && ys.is_empty() {
            } else if xs.is_empty() || ys.is_empty() {
                out.push(at.clone())
            } else {
                for (i, (x, y)) in xs.iter().zip(ys.iter()).enumerate() {
                    let mut c = at.clone();
                    match t {
                        Tag::KVec => {
                            if key_of(x) != key_of(y) {
                                out.push(at.clone());
                                continue;
                            }
                            c.push(Acc::Key(key_of(x)))
                        }
                        Tag::Vec => c.push(Acc::Idx(i)),
                        _ => c.push(if matches!(x, V::Node(Tag::KVec, _)) { Acc::KFld(i) } else { Acc::Fld(i) }),
                    }
                    diff(x, y, &c, out);
                }
                if xs.len() != ys.len() {
                    out.push(at.clone())
                }
            }
        }
        _ => out.push(at.clone()),
    }
}

// ---------------------------------------------------------------- one case

struct Reader {
    chain: Chain,
    /// the field the reader reads for the purpose of "is this write related to it": through
    /// `OptionStoreExt::map` / `invert` that is the `Option` field itself (is it `Some`?)
    rel: Chain,
    imm: bool,
}
struct Case {
    store: RootH,
    _owner: Owner,
    readers: Vec<Reader>,
    task_of: Vec<usize>, // effect id of the i-th spawned task
    log: Arc<Mutex<Vec<(usize, String)>>>,
    _imms: Vec<ImmediateEffect>,
    /// per reader: has its field ever existed (keyed item: has its key ever been in the collection)?
    ever: Vec<bool>,
    /// long-lived handles: the chain they were made from, and how to go on from them
    handles: Vec<(Chain, HFn)>,
}

/// a chain as written in an op (`h<id>` only at the head) and the logical chain it stands for
fn parse_hchain(c: &Case, s: &str) -> Option<(Chain, Chain)> {
    let raw = parse_chain(s)?;
    if raw.iter().skip(1).any(|a| matches!(a, Acc::H(_))) {
        return None;
    }
    let full = match raw.first() {
        Some(Acc::H(id)) => {
            let (hc, _) = c.handles.get(*id)?;
            [&hc[..], &raw[1..]].concat()
        }
        _ => raw.clone(),
    };
    Some((raw, full))
}
fn via_handle(raw: &[Acc]) -> bool {
    matches!(raw.first(), Some(Acc::H(_)))
}
/// navigation from the store or from a handle
fn nav_any(c: &Case, raw: &[Acc], op: &Do, era: Er) -> Out {
    match raw.first() {
        Some(Acc::H(id)) => (c.handles[*id].1)(&raw[1..], op, None),
        _ => nav_root(&c.store, raw, op, era),
    }
}

fn snapshot(c: &Case) -> V {
    c.store.snap()
}
fn ready_ids(c: &Case) -> Vec<usize> {
    sched::ready().into_iter().map(|t| c.task_of[t]).collect()
}
fn take_log(c: &Case) -> Vec<(usize, String)> {
    std::mem::take(&mut *c.log.lock().unwrap())
}
fn fmt_ids(l: &[usize]) -> String {
    if l.is_empty() {
        "-".into()
    } else {
        l.iter().map(|x| x.to_string()).collect::<Vec<_>>().join(",")
    }
}
fn fmt_log(l: &[(usize, String)]) -> String {
    if l.is_empty() {
        "-".into()
    } else {
        l.iter().map(|(e, s)| format!("{e}:{s}")).collect::<Vec<_>>().join(";")
    }
}

fn reader_body(store: &RootH, chain: &Chain, how: RHow, f: &RFn) -> String {
    let guarded = !matches!(how, RHow::Map | RHow::Invert | RHow::Iter | RHow::Variant);
    if guarded {
        let snap = store.snap();
        if guard_absent(&snap, chain) {
            // still track the field (tracking never touches the value), but do not read through a
            // `None.unwrap()` / an index past the end
            return f(false);
        }
    }
    f(true)
}

fn dedup(l: &[usize]) -> Vec<usize> {
    let mut out = vec![];
    for x in l {
        if !out.contains(x) {
            out.push(*x)
        }
    }
    out
}

/// every reader's last log entry must be the current value of its field
fn values_bad(c: &Case, log: &[(usize, String)]) -> bool {
    let snap = snapshot(c);
    dedup(&log.iter().map(|x| x.0).collect::<Vec<_>>()).iter().any(|e| {
        let last = log.iter().rev().find(|x| x.0 == *e).unwrap();
        last.1 != show_lseen(&logical_get(&snap, &c.readers[*e].chain))
    })
}

fn judge_write(
    c: &Case,
    rb: &[usize],
    ra: &[usize],
    log: &[(usize, String)],
    ws: &[Chain],
    wc: &Chain,
    before: &V,
) -> &'static str {
    let snap = snapshot(c);
    let exp: Vec<usize> =
        (0..c.readers.len()).filter(|e| ws.iter().any(|w| related(w, &c.readers[*e].rel))).collect();
    let ran = dedup(&log.iter().map(|x| x.0).collect::<Vec<_>>());
    if values_bad(c, log) {
        return "fail value";
    }
    // a reader of a key that has never been in the collection has no field: waking it is not held
    // against the code (the statement speaks of readers of fields)
    let excused =
        |e: &usize| !c.ever[*e] && logical_get(&snap, &c.readers[*e].chain) == LSeen::None;
    // a held `Subfield` of a field of an enum variant that the value is not in (before and after the
    // write) addresses no field either
    let dead_variant = |e: &usize| {
        let ch = &c.readers[*e].chain;
        ch.iter().any(|a| matches!(a, Acc::Var(..)))
            && logical_get(before, ch) == LSeen::Absent
            && logical_get(&snap, ch) == LSeen::Absent
    };
    if ra.iter().any(|e| !rb.contains(e) && !exp.contains(e) && !excused(e) && !dead_variant(e))
        || ran.iter().any(|e| !exp.contains(e) && !excused(e) && !dead_variant(e))
    {
        return "fail spurious";
    }
    if exp.iter().any(|e| !excused(e) && if c.readers[*e].imm { !ran.contains(e) } else { !ra.contains(e) }) {
        return "fail missing";
    }
    // readers of proper ancestors of the written field run before readers of its proper descendants
    for (i, e) in ran.iter().enumerate() {
        if strict_prefix(wc, &c.readers[*e].rel)
            && ran[i + 1..].iter().any(|e2| strict_prefix(&c.readers[*e2].rel, wc))
        {
            return "fail order";
        }
    }
    "ok"
}

fn render(c: &Case, pre: &str, log: &[(usize, String)], verdict: &str) -> String {
    format!("{pre}r={} l={} ## {verdict}", fmt_ids(&ready_ids(c)), fmt_log(log))
}

fn new_case(root: Root, mode: &str) -> Case {
    sched::reset();
    let owner = Owner::new();
    owner.set();
    let store = match mode {
        "arc" => RootH::Arc(ArcStore::new(root)),
        // `Store::from(ArcStore)`
        "conv" => RootH::Arena(Store::from(ArcStore::new(root))),
        _ => RootH::Arena(Store::new(root)),
    };
    Case {
        store,
        _owner: owner,
        readers: vec![],
        task_of: vec![],
        log: Default::default(),
        _imms: vec![],
        ever: vec![],
        handles: vec![],
    }
}

fn update_ever(c: &mut Case) {
    let snap = snapshot(c);
    for e in 0..c.readers.len() {
        let now = logical_get(&snap, &c.readers[e].chain) != LSeen::None;
        if e < c.ever.len() {
            c.ever[e] |= now
        } else {
            c.ever.push(now)
        }
    }
}

fn add_reader(c: &mut Case, raw: &Chain, chain: Chain, how: RHow, imm: bool) -> bool {
    // the accessor (and an erased `Field` / `ArcField` handle, if asked for) is built once, here
    let Out::Reader(f) = nav_any(c, raw, &Do::Reader(how), None) else { return false };
    let id = c.readers.len();
    let rel = match how {
        RHow::Map | RHow::Invert | RHow::Variant => chain[..opt_prefix(&chain).unwrap_or(chain.len())].to_vec(),
        _ => chain.clone(),
    };
    c.readers.push(Reader { chain: chain.clone(), rel, imm });
    let store = c.store.clone();
    let log = c.log.clone();
    if imm {
        let e = ImmediateEffect::new(move || {
            let s = reader_body(&store, &chain, how, &f);
            log.lock().unwrap().push((id, s));
        });
        c._imms.push(e);
    } else {
        let before = sched::task_count();
        Effect::new(move |_| {
            let s = reader_body(&store, &chain, how, &f);
            log.lock().unwrap().push((id, s));
        });
        assert_eq!(sched::task_count(), before + 1);
        c.task_of.push(id);
    }
    true
}

/// may the accessor after k steps of the chain be converted to a `Field` / `ArcField`?
fn era_ok(ch: &[Acc], k: usize) -> Option<usize> {
    let pre = &ch[..k.min(ch.len())];
    (k <= ch.len() && !ends_keyed(pre) && (!pre.iter().any(|a| matches!(a, Acc::Key(_))) || k == ch.len()))
        .then_some(k)
}
fn parse_era(s: &str, ch: &[Acc]) -> Option<Er> {
    if let Some(k) = s.strip_prefix("field") {
        era_ok(ch, k.parse().ok()?).map(|k| Some((k, false)))
    } else if let Some(k) = s.strip_prefix("arc") {
        era_ok(ch, k.parse().ok()?).map(|k| Some((k, true)))
    } else {
        None
    }
}
/// a held `Subfield` of an enum variant's field can only be built while the value is of that variant
fn vars_match(v: &V, ch: &[Acc]) -> bool {
    (0..ch.len()).all(|n| !matches!(ch[n], Acc::Var(..)) || matches!(logical_get(v, &ch[..=n]), LSeen::Val(_)))
}

/// which `how` is allowed on which chain (the driver applies the same rules)
fn parse_how(s: &str, ch: &[Acc]) -> Option<RHow> {
    let erased = |k: &str| -> Option<usize> { era_ok(ch, k.parse().ok()?) };
    let at = opt_prefix(ch);
    let enum_at = at.is_some_and(|n| ty_of(&ch[..n]) == Some(Ty::En));
    match s {
        "variant" => enum_at.then_some(RHow::Variant),
        "get" => Some(RHow::Get),
        "read" => Some(RHow::Read),
        "with" => Some(RHow::With),
        "track" => Some(RHow::Track),
        "map" => (at.is_some() && !enum_at).then_some(RHow::Map),
        "invert" => (at.is_some() && !enum_at).then_some(RHow::Invert),
        "iter" => (ends_keyed(ch) || ty_of(ch) == Some(Ty::List)).then_some(RHow::Iter),
        _ if s.starts_with("field") => erased(&s[5..]).map(RHow::Field),
        _ if s.starts_with("arc") => erased(&s[3..]).map(RHow::Arc),
        _ => None,
    }
}

fn do_write(c: &mut Case, raw: &Chain, chain: &Chain, op: Do, is_patch: bool, newv: Option<&V>, era: Er) -> String {
    let snap = snapshot(c);
    let rb = ready_ids(c);
    let old = logical_get(&snap, chain);
    let wrote: &'static str = if guard_absent(&snap, chain) {
        "absent"
    } else {
        match nav_any(c, raw, &op, era) {
            Out::Wrote(w) => w,
            _ => return "bad-op".into(),
        }
    };
    let ws: Vec<Chain> = if wrote == "done" {
        match (is_patch, &old, newv) {
            (true, LSeen::Val(o), Some(n)) => {
                let untop = |v: &V| match v {
                    V::Node(Tag::Atom, xs) => V::Node(Tag::Struct, xs.clone()),
                    v => v.clone(),
                };
                let mut out = vec![];
                diff(&untop(o), &untop(n), chain, &mut out);
                out
            }
            _ => vec![chain.clone()],
        }
    } else {
        vec![]
    };
    let log = take_log(c);
    let ra = ready_ids(c);
    update_ever(c);
    let v = judge_write(c, &rb, &ra, &log, &ws, chain, &snap);
    render(c, &format!("w={wrote} "), &log, v)
}

fn vec_len(c: &Case, chain: &Chain) -> Option<usize> {
    match logical_get(&snapshot(c), chain) {
        LSeen::Val(V::Node(_, xs)) => Some(xs.len()),
        _ => None,
    }
}

// ---------------------------------------------------------------- threads: the trigger table

#[derive(Store, Clone, Debug, PartialEq)]
pub struct RaceTable {
    rows: Vec<Leaf>,
}

/// `race <k> <rounds>`: the trigger table must hold ONE trigger per path also when several threads do the
/// first tracked access to a path at the same time.  `k` OS threads rendezvous at each of `16 * rounds`
/// rows nobody has looked at before and evaluate a memo reading `rows[i].v` / `rows[i].w` there; then the row
/// is replaced and every memo must recompute (a memo subscribed to an orphaned trigger keeps its cached
/// value).  Bounded by a deadline; an unfinished run is inconclusive (ok).  On the unchanged code this can
/// never fail, whatever the load; a failure is a lost notification.
fn race(k: usize, rounds: usize) -> &'static str {
    use reactive_graph::computed::ArcMemo;
    use std::sync::atomic::{AtomicBool, AtomicUsize, Ordering};
    const BATCH: usize = 16;
    let n = rounds * BATCH;
    let store = Store::new(RaceTable { rows: vec![Leaf { v: 0, w: 0 }; n] });
    let arrived: Vec<AtomicUsize> = (0..n).map(|_| AtomicUsize::new(0)).collect();
    let abort = AtomicBool::new(false);
    let deadline = std::time::Instant::now() + std::time::Duration::from_secs(20);
    let memos: Mutex<Vec<(usize, ArcMemo<u32>)>> = Mutex::new(Vec::new());
    std::thread::scope(|sc| {
        for t in 0..k {
            let (arrived, abort, memos) = (&arrived, &abort, &memos);
            sc.spawn(move || {
                for i in 0..n {
                    let memo = ArcMemo::new(move |_| {
                        let row = store.rows().at_unkeyed(i);
                        if t % 2 == 0 {
                            row.v().get()
                        } else {
                            row.w().get()
                        }
                    });
                    // all threads get to row i together
                    arrived[i].fetch_add(1, Ordering::SeqCst);
                    let mut spins = 0u32;
                    while arrived[i].load(Ordering::SeqCst) < k {
                        spins += 1;
                        if spins % 1024 == 0 {
                            if abort.load(Ordering::Relaxed) || std::time::Instant::now() > deadline {
                                abort.store(true, Ordering::Relaxed);
                                return;
                            }
                            std::thread::yield_now();
                        } else {
                            std::hint::spin_loop();
                        }
                    }
                    let _ = memo.get_untracked();
                    memos.lock().unwrap().push((i, memo));
                }
            });
        }
    });
    let inconclusive = abort.load(Ordering::Relaxed);
    let mut lost = false;
    let memos = memos.into_inner().unwrap();
    let done: std::collections::BTreeSet<usize> = memos.iter().map(|m| m.0).collect();
    for i in done {
        store.rows().at_unkeyed(i).set(Leaf { v: 7, w: 7 });
    }
    for (_, m) in &memos {
        if m.get_untracked() != 7 {
            lost = true;
        }
    }
    store.dispose();
    if lost {
        "raced ## fail lost-notification"
    } else {
        if inconclusive {
            eprintln!("c16: race op ran into its deadline (inconclusive)");
        }
        "raced ## ok"
    }
}

fn op_line(case: &mut Option<Case>, w: &[&str]) -> String {
    if let ["race", k, rounds] = w {
        return match (k.parse::<usize>(), rounds.parse::<usize>()) {
            (Ok(k), Ok(r)) if (2..=8).contains(&k) && (1..=200).contains(&r) => race(k, r).into(),
            _ => "bad-op".into(),
        };
    }
    if let ["init", v, rest @ ..] = w {
        // `init <value> [arena|arc|conv]`: the store handle family of the case
        let mode = match rest {
            [] => "arena",
            [m @ ("arena" | "arc" | "conv")] => *m,
            _ => return "bad-op".into(),
        };
        return match parse_v(v).and_then(|v| Root::from_v(&v)) {
            Some(r) => {
                *case = Some(new_case(r, mode));
                "ok".into()
            }
            None => "bad-op".into(),
        };
    }
    let Some(c) = case.as_mut() else { return "bad-op".into() };
    match w {
        ["poll", i] => {
            let Ok(i) = i.parse::<usize>() else { return "bad-op".into() };
            sched::poll_nth_ready(i);
            let log = take_log(c);
            let v = if values_bad(c, &log) { "fail value" } else { "ok" };
            render(c, "", &log, v)
        }
        ["idle"] => {
            sched::run_until_idle(10_000);
            let log = take_log(c);
            let v = if values_bad(c, &log) { "fail value" } else { "ok" };
            render(c, "", &log, v)
        }
        [kind @ ("eff" | "effi" | "imm" | "immi"), rest @ ..] if rest.len() == 1 || rest.len() == 2 => {
            let Some((raw, ch)) = parse_hchain(c, rest[0]) else { return "bad-op".into() };
            if !chain_ok(&ch) {
                return "bad-op".into();
            }
            let how_s = match (kind.ends_with('i'), rest.get(1)) {
                (true, None) => "iter",
                (false, None) => "get",
                (false, Some(h)) => *h,
                (true, Some(_)) => return "bad-op".into(),
            };
            let Some(how) = parse_how(how_s, &ch) else { return "bad-op".into() };
            if via_handle(&raw) && matches!(how, RHow::Field(_) | RHow::Arc(_)) {
                return "bad-op".into();
            }
            if how != RHow::Variant && !vars_match(&snapshot(c), &ch) {
                return "bad-op".into();
            }
            if !add_reader(c, &raw, ch, how, kind.starts_with("imm")) {
                return "bad-op".into();
            }
            update_ever(c);
            let log = take_log(c);
            let v = if values_bad(c, &log) { "fail value" } else { "ok" };
            render(c, "", &log, v)
        }
        ["krev", ch] => {
            let Some((raw, ch)) = parse_hchain(c, ch) else { return "bad-op".into() };
            if !chain_ok(&ch) || !ends_keyed(&ch) || vec_len(c, &ch).is_none() {
                return "bad-op".into();
            }
            do_write(c, &raw, &ch, Do::KRev, false, None, None)
        }
        [kind @ ("set" | "upd" | "wr" | "patch"), ch, v, rest @ ..] if rest.len() <= 1 => {
            let (Some((raw, ch)), Some(v)) = (parse_hchain(c, ch), parse_v(v)) else { return "bad-op".into() };
            if !chain_ok(&ch) {
                return "bad-op".into();
            }
            let era: Er = match rest.first() {
                None => None,
                Some(e) => match parse_era(e, &ch) {
                    Some(e) if !via_handle(&raw) => e,
                    _ => return "bad-op".into(),
                },
            };
            if !vars_match(&snapshot(c), &ch) {
                return "bad-op".into();
            }
            if *kind == "patch" {
                if ty_of(&ch) == Some(Ty::En) {
                    return "bad-op".into();
                }
                return do_write(c, &raw, &ch, Do::Patch(&v), true, Some(&v), era);
            }
            let how = match *kind {
                "set" => How::Set,
                "upd" => How::Upd,
                _ => How::Wr,
            };
            do_write(c, &raw, &ch, Do::Write(&v, how), false, None, era)
        }
        ["hnew", ch, kind @ ("field" | "arc")] => {
            // a long-lived `Field` / `ArcField` handle of the accessor at the end of the chain
            let Some((raw, ch)) = parse_hchain(c, ch) else { return "bad-op".into() };
            if via_handle(&raw) || !chain_ok(&ch) || ends_keyed(&ch) || !vars_match(&snapshot(c), &ch) {
                return "bad-op".into();
            }
            match nav_root(&c.store, &ch, &Do::MakeHandle, Some((ch.len(), *kind == "arc"))) {
                Out::Handle(h) => {
                    c.handles.push((ch, h));
                    format!("h={}", c.handles.len() - 1)
                }
                _ => "bad-op".into(),
            }
        }
        ["kpush", ch, v] => {
            let (Some((raw, ch)), Some(v)) = (parse_hchain(c, ch), parse_v(v)) else { return "bad-op".into() };
            if !chain_ok(&ch) || !ends_keyed(&ch) || vec_len(c, &ch).is_none() {
                return "bad-op".into();
            }
            do_write(c, &raw, &ch, Do::KPush(&v), false, None, None)
        }
        ["kremove", ch, i] => {
            let (Some((raw, ch)), Ok(i)) = (parse_hchain(c, ch), i.parse::<usize>()) else { return "bad-op".into() };
            if !chain_ok(&ch) || !ends_keyed(&ch) || !vec_len(c, &ch).is_some_and(|n| i < n) {
                return "bad-op".into();
            }
            do_write(c, &raw, &ch, Do::KRemove(i), false, None, None)
        }
        ["kswap", ch, i, j] => {
            let (Some((raw, ch)), Ok(i), Ok(j)) = (parse_hchain(c, ch), i.parse::<usize>(), j.parse::<usize>()) else {
                return "bad-op".into();
            };
            if !chain_ok(&ch) || !ends_keyed(&ch) || !vec_len(c, &ch).is_some_and(|n| i < n && j < n) {
                return "bad-op".into();
            }
            do_write(c, &raw, &ch, Do::KSwap(i, j), false, None, None)
        }
        _ => "bad-op".into(),
    }
}

// ---------------------------------------------------------------- generator

#[derive(Clone, Copy, PartialEq, Debug)]
enum Ty {
    U,
    Leaf,
    Row,
    Mid,
    Root,
    Opt,
    List,
    Rows,
    Boxed,
    Attr,
    SkF,
    SkM,
    SkL,
    Tup,
    En,
}
fn ty_child(t: Ty, a: &Acc) -> Option<Ty> {
    Some(match (t, a) {
        (Ty::Root, Acc::Fld(0)) => Ty::U,
        (Ty::Root, Acc::Fld(1)) => Ty::Mid,
        (Ty::Root, Acc::Fld(2)) => Ty::Opt,
        (Ty::Root, Acc::Fld(3)) => Ty::List,
        (Ty::Root, Acc::KFld(4)) => Ty::Rows,
        (Ty::Root, Acc::Fld(5)) => Ty::Boxed,
        (Ty::Boxed, Acc::Fld(0)) | (Ty::Boxed, Acc::Fld(1)) => Ty::U,
        (Ty::Mid, Acc::Fld(3)) => Ty::Opt,
        (Ty::Root, Acc::Fld(6)) => Ty::Attr,
        (Ty::Attr, Acc::Fld(0)) => Ty::SkF,
        (Ty::Attr, Acc::Fld(1)) => Ty::SkM,
        (Ty::Attr, Acc::Fld(2)) => Ty::SkL,
        (Ty::Attr, Acc::Fld(3)) => Ty::Tup,
        (Ty::Attr, Acc::Fld(4)) => Ty::En,
        // skipped fields have no accessor
        (Ty::SkF, Acc::Fld(1)) | (Ty::SkF, Acc::Fld(2)) => Ty::U,
        (Ty::SkM, Acc::Fld(0)) | (Ty::SkM, Acc::Fld(2)) => Ty::U,
        (Ty::SkM, Acc::Fld(3)) => Ty::Leaf,
        (Ty::SkL, Acc::Fld(0)) | (Ty::SkL, Acc::Fld(1)) => Ty::U,
        (Ty::Tup, Acc::Fld(0)) | (Ty::Tup, Acc::Fld(2)) => Ty::U,
        (Ty::Tup, Acc::Fld(1)) => Ty::Leaf,
        (Ty::En, Acc::Var(0, 0)) | (Ty::En, Acc::Var(0, 1)) | (Ty::En, Acc::Var(1, 0)) => Ty::U,
        (Ty::En, Acc::Var(1, 1)) => Ty::Leaf,
        (Ty::Mid, Acc::Fld(0)) => Ty::U,
        (Ty::Mid, Acc::Fld(1)) => Ty::Leaf,
        (Ty::Mid, Acc::KFld(2)) => Ty::Rows,
        (Ty::Opt, Acc::Fld(0)) => Ty::Leaf,
        (Ty::List, Acc::Idx(_)) => Ty::Leaf,
        (Ty::Rows, Acc::Key(_)) => Ty::Row,
        (Ty::Row, Acc::Fld(0)) | (Ty::Row, Acc::Fld(1)) => Ty::U,
        (Ty::Row, Acc::Fld(2)) => Ty::Leaf,
        (Ty::Leaf, Acc::Fld(0)) | (Ty::Leaf, Acc::Fld(1)) => Ty::U,
        _ => return None,
    })
}
fn ty_of(ch: &[Acc]) -> Option<Ty> {
    ch.iter().try_fold(Ty::Root, |t, a| ty_child(t, a))
}

fn g_leaf(r: &mut Rng) -> V {
    V::Leaf(r.below(100) as u32)
}
fn g_leafst(r: &mut Rng) -> V {
    V::Node(Tag::Struct, vec![g_leaf(r), g_leaf(r)])
}
fn g_en(r: &mut Rng, variant: usize) -> V {
    V::Node(
        Tag::Enumv,
        match variant {
            0 => vec![V::Leaf(0), g_leaf(r), g_leaf(r)],
            1 => vec![V::Leaf(1), g_leaf(r), g_leafst(r)],
            _ => vec![V::Leaf(2)],
        },
    )
}
fn g_attr(r: &mut Rng, variant: usize) -> V {
    V::Node(
        Tag::Struct,
        vec![
            V::Node(Tag::Struct, vec![g_leaf(r), g_leaf(r), g_leaf(r)]),
            V::Node(Tag::Struct, vec![g_leaf(r), g_leaf(r), g_leaf(r), g_leafst(r)]),
            V::Node(Tag::Struct, vec![g_leaf(r), g_leaf(r), g_leaf(r)]),
            V::Node(Tag::Struct, vec![g_leaf(r), g_leafst(r), g_leaf(r), g_leaf(r)]),
            g_en(r, variant),
        ],
    )
}
fn g_row(r: &mut Rng, id: u32) -> V {
    V::Node(Tag::Struct, vec![V::Leaf(id), g_leaf(r), g_leafst(r)])
}
fn g_rows(r: &mut Rng, ids: &[u32]) -> V {
    V::Node(Tag::KVec, ids.iter().map(|i| g_row(r, *i)).collect())
}

/// a new value of the same type that keeps the ids and the order of every keyed collection inside
fn mutate(t: Ty, v: &V, r: &mut Rng) -> V {
    match (t, v) {
        (Ty::U, V::Leaf(n)) => {
            if r.chance(1, 5) {
                V::Leaf(*n)
            } else {
                g_leaf(r)
            }
        }
        (Ty::Leaf, V::Node(_, xs)) => {
            V::Node(Tag::Struct, xs.iter().map(|x| if r.chance(1, 2) { mutate(Ty::U, x, r) } else { x.clone() }).collect())
        }
        (Ty::Row, V::Node(_, xs)) => V::Node(
            Tag::Struct,
            vec![
                xs[0].clone(),
                if r.chance(1, 2) { mutate(Ty::U, &xs[1], r) } else { xs[1].clone() },
                if r.chance(1, 2) { mutate(Ty::Leaf, &xs[2], r) } else { xs[2].clone() },
            ],
        ),
        (Ty::Rows, V::Node(_, xs)) => V::Node(
            Tag::KVec,
            xs.iter().map(|x| if r.chance(1, 2) { mutate(Ty::Row, x, r) } else { x.clone() }).collect(),
        ),
        (Ty::Opt, V::Node(_, xs)) => match xs.first() {
            None => {
                if r.chance(1, 2) {
                    V::Node(Tag::Opt, vec![g_leafst(r)])
                } else {
                    v.clone()
                }
            }
            Some(x) => {
                if r.chance(1, 3) {
                    V::Node(Tag::Opt, vec![])
                } else {
                    V::Node(Tag::Opt, vec![mutate(Ty::Leaf, x, r)])
                }
            }
        },
        (Ty::List, V::Node(_, xs)) => {
            let mut ys: Vec<V> =
                xs.iter().map(|x| if r.chance(1, 2) { mutate(Ty::Leaf, x, r) } else { x.clone() }).collect();
            match r.below(4) {
                0 if ys.len() < 3 => ys.push(g_leafst(r)),
                1 if !ys.is_empty() => {
                    ys.pop();
                }
                _ => {}
            }
            V::Node(Tag::Vec, ys)
        }
        (Ty::Mid, V::Node(_, xs)) => V::Node(
            Tag::Struct,
            vec![
                if r.chance(1, 2) { mutate(Ty::U, &xs[0], r) } else { xs[0].clone() },
                if r.chance(1, 2) { mutate(Ty::Leaf, &xs[1], r) } else { xs[1].clone() },
                if r.chance(1, 2) { mutate(Ty::Rows, &xs[2], r) } else { xs[2].clone() },
                if r.chance(1, 2) { mutate(Ty::Opt, &xs[3], r) } else { xs[3].clone() },
            ],
        ),
        (Ty::SkF | Ty::SkL, V::Node(_, xs)) => V::Node(
            Tag::Struct,
            xs.iter().map(|x| if r.chance(1, 2) { mutate(Ty::U, x, r) } else { x.clone() }).collect(),
        ),
        (Ty::SkM, V::Node(_, xs)) | (Ty::Tup, V::Node(_, xs)) => {
            // u32 / Leaf fields in declaration order
            let tys: [Ty; 4] = if t == Ty::SkM { [Ty::U, Ty::U, Ty::U, Ty::Leaf] } else { [Ty::U, Ty::Leaf, Ty::U, Ty::U] };
            V::Node(
                Tag::Struct,
                xs.iter().zip(tys).map(|(x, ty)| if r.chance(1, 2) { mutate(ty, x, r) } else { x.clone() }).collect(),
            )
        }
        (Ty::En, V::Node(_, xs)) => {
            if r.chance(1, 3) {
                let nvar = r.below(3);
                g_en(r, nvar)
            } else {
                // same variant, some fields change
                match xs.as_slice() {
                    [V::Leaf(0), x, y] => V::Node(Tag::Enumv, vec![V::Leaf(0), mutate(Ty::U, x, r), if r.chance(1, 2) { mutate(Ty::U, y, r) } else { y.clone() }]),
                    [V::Leaf(1), a, b] => V::Node(Tag::Enumv, vec![V::Leaf(1), if r.chance(1, 2) { mutate(Ty::U, a, r) } else { a.clone() }, mutate(Ty::Leaf, b, r)]),
                    _ => v.clone(),
                }
            }
        }
        (Ty::Attr, V::Node(_, xs)) => {
            let tys = [Ty::SkF, Ty::SkM, Ty::SkL, Ty::Tup, Ty::En];
            V::Node(
                Tag::Struct,
                xs.iter().zip(tys).map(|(x, ty)| if r.chance(1, 2) { mutate(ty, x, r) } else { x.clone() }).collect(),
            )
        }
        (Ty::Boxed, V::Node(_, xs)) => V::Node(
            Tag::Atom,
            xs.iter().map(|x| if r.chance(1, 2) { mutate(Ty::U, x, r) } else { x.clone() }).collect(),
        ),
        (Ty::Root, V::Node(_, xs)) => V::Node(
            Tag::Struct,
            vec![
                if r.chance(1, 2) { mutate(Ty::U, &xs[0], r) } else { xs[0].clone() },
                if r.chance(1, 2) { mutate(Ty::Mid, &xs[1], r) } else { xs[1].clone() },
                if r.chance(1, 2) { mutate(Ty::Opt, &xs[2], r) } else { xs[2].clone() },
                if r.chance(1, 2) { mutate(Ty::List, &xs[3], r) } else { xs[3].clone() },
                if r.chance(1, 2) { mutate(Ty::Rows, &xs[4], r) } else { xs[4].clone() },
                if r.chance(1, 2) { mutate(Ty::Boxed, &xs[5], r) } else { xs[5].clone() },
                if r.chance(1, 3) { mutate(Ty::Attr, &xs[6], r) } else { xs[6].clone() },
            ],
        ),
        _ => v.clone(),
    }
}

fn lget<'a>(v: &'a V, ch: &[Acc]) -> Option<&'a V> {
    let Some((a, rest)) = ch.split_first() else { return Some(v) };
    let V::Node(_, xs) = v else { return None };
    match a {
        Acc::H(_) => None,
        Acc::Fld(i) | Acc::Idx(i) | Acc::KFld(i) => lget(xs.get(*i)?, rest),
        Acc::Key(k) => lget(xs.iter().find(|x| key_of(x) == *k)?, rest),
        Acc::Var(n, i) => {
            if xs.first() == Some(&V::Leaf(*n as u32)) {
                lget(xs.get(*i + 1)?, rest)
            } else {
                None
            }
        }
    }
}
fn lset(v: &mut V, ch: &[Acc], nv: V) -> bool {
    let Some((a, rest)) = ch.split_first() else {
        *v = nv;
        return true;
    };
    let V::Node(_, xs) = v else { return false };
    let c = match a {
        Acc::H(_) => None,
        Acc::Fld(i) | Acc::Idx(i) | Acc::KFld(i) => xs.get_mut(*i),
        Acc::Key(k) => xs.iter_mut().find(|x| key_of(x) == *k),
        Acc::Var(n, i) => {
            if xs.first() == Some(&V::Leaf(*n as u32)) {
                xs.get_mut(*i + 1)
            } else {
                None
            }
        }
    };
    match c {
        Some(c) => lset(c, rest, nv),
        None => false,
    }
}

const KROOT: [Acc; 1] = [Acc::KFld(4)];
const KMID: [Acc; 2] = [Acc::Fld(1), Acc::KFld(2)];

/// every chain of the family for the given keys / list length
fn all_chains(keys_root: &[u32], keys_mid: &[u32], list_len: usize) -> Vec<Chain> {
    use Acc::*;
    let mut out: Vec<Chain> = vec![
        vec![],
        vec![Fld(0)],
        vec![Fld(1)],
        vec![Fld(1), Fld(0)],
        vec![Fld(1), Fld(1)],
        vec![Fld(1), Fld(1), Fld(0)],
        vec![Fld(1), Fld(1), Fld(1)],
        vec![Fld(2)],
        vec![Fld(2), Fld(0)],
        vec![Fld(2), Fld(0), Fld(0)],
        vec![Fld(2), Fld(0), Fld(1)],
        vec![Fld(3)],
        vec![Fld(1), Fld(3)],
        vec![Fld(1), Fld(3), Fld(0)],
        vec![Fld(1), Fld(3), Fld(0), Fld(0)],
        vec![Fld(1), Fld(3), Fld(0), Fld(1)],
        vec![Fld(5)],
        vec![Fld(5), Fld(0)],
        vec![Fld(5), Fld(1)],
        vec![Fld(6)],
        vec![Fld(6), Fld(0)],
        vec![Fld(6), Fld(0), Fld(1)],
        vec![Fld(6), Fld(0), Fld(2)],
        vec![Fld(6), Fld(1)],
        vec![Fld(6), Fld(1), Fld(0)],
        vec![Fld(6), Fld(1), Fld(2)],
        vec![Fld(6), Fld(1), Fld(3)],
        vec![Fld(6), Fld(1), Fld(3), Fld(1)],
        vec![Fld(6), Fld(2)],
        vec![Fld(6), Fld(2), Fld(0)],
        vec![Fld(6), Fld(2), Fld(1)],
        vec![Fld(6), Fld(3)],
        vec![Fld(6), Fld(3), Fld(0)],
        vec![Fld(6), Fld(3), Fld(1)],
        vec![Fld(6), Fld(3), Fld(1), Fld(0)],
        vec![Fld(6), Fld(3), Fld(2)],
        vec![Fld(6), Fld(4)],
        vec![Fld(6), Fld(4), Var(0, 0)],
        vec![Fld(6), Fld(4), Var(0, 1)],
        vec![Fld(6), Fld(4), Var(1, 0)],
        vec![Fld(6), Fld(4), Var(1, 1)],
        vec![Fld(6), Fld(4), Var(1, 1), Fld(0)],
    ];
    for i in 0..list_len {
        out.push(vec![Fld(3), Idx(i)]);
        out.push(vec![Fld(3), Idx(i), Fld(0)]);
        out.push(vec![Fld(3), Idx(i), Fld(1)]);
    }
    for (base, keys) in [(KMID.to_vec(), keys_mid), (KROOT.to_vec(), keys_root)] {
        out.push(base.clone());
        for k in keys {
            let mut b = base.clone();
            b.push(Key(*k));
            out.push(b.clone());
            for tail in [vec![Fld(0)], vec![Fld(1)], vec![Fld(2)], vec![Fld(2), Fld(0)], vec![Fld(2), Fld(1)]] {
                let mut c = b.clone();
                c.extend(tail);
                out.push(c);
            }
        }
    }
    out
}

fn is_row_id(ch: &[Acc]) -> bool {
    ch.len() >= 2 && matches!(ch[ch.len() - 2], Acc::Key(_)) && ch[ch.len() - 1] == Acc::Fld(0)
}
fn under(ch: &[Acc], base: &[Acc]) -> bool {
    ch.len() > base.len() && ch[..base.len()] == *base
}

struct GenCase {
    lines: Vec<String>,
    tags: Vec<&'static str>,
}
impl GenCase {
    fn tag(&mut self, t: &'static str) {
        if !self.tags.contains(&t) {
            self.tags.push(t)
        }
    }
}

fn init_root(r: &mut Rng, keys_root: &[u32], keys_mid: &[u32], list_len: usize, opt: bool) -> V {
    V::Node(
        Tag::Struct,
        vec![
            g_leaf(r),
            V::Node(
                Tag::Struct,
                vec![
                    g_leaf(r),
                    g_leafst(r),
                    g_rows(r, keys_mid),
                    V::Node(Tag::Opt, if opt { vec![g_leafst(r)] } else { vec![] }),
                ],
            ),
            V::Node(Tag::Opt, if opt { vec![g_leafst(r)] } else { vec![] }),
            V::Node(Tag::Vec, (0..list_len).map(|_| g_leafst(r)).collect()),
            g_rows(r, keys_root),
            V::Node(Tag::Atom, vec![g_leaf(r), g_leaf(r)]),
            {
                let variant = r.below(3);
                g_attr(r, variant)
            },
        ],
    )
}

/// a way of reading the field at `ch` (`""` = plain `.get()`), and a tag for it
fn pick_how(r: &mut Rng, ch: &[Acc], shadow: &V) -> (String, &'static str) {
    let has_var = ch.iter().any(|a| matches!(a, Acc::Var(..)));
    if has_var && (!vars_match(shadow, ch) || r.chance(1, 2)) {
        return ("variant".into(), "how-enum-variant");
    }
    if r.chance(2, 5) {
        return (String::new(), "how-get");
    }
    let mut c: Vec<(String, &'static str)> = vec![
        ("read".into(), "how-read-with-track"),
        ("with".into(), "how-read-with-track"),
        ("track".into(), "how-read-with-track"),
    ];
    for _ in 0..3 {
        for h in ["map", "invert"] {
            if parse_how(h, ch).is_some() {
                c.push((h.into(), "how-option-map"));
            }
        }
        if parse_how("iter", ch).is_some() {
            c.push(("iter".into(), "how-iter"));
        }
    }
    for k in 0..=ch.len() {
        for pre in ["field", "arc"] {
            let h = format!("{pre}{k}");
            if parse_how(&h, ch).is_some() {
                c.push((h, "how-erased"));
            }
        }
    }
    r.pick(&c).clone()
}

/// through which erased handle a write goes (`""`: none)
fn pick_era(r: &mut Rng, ch: &[Acc]) -> String {
    if r.chance(3, 5) {
        return String::new();
    }
    let mut c: Vec<String> = vec![];
    for k in 0..=ch.len() {
        if era_ok(ch, k).is_some() {
            c.push(format!("field{k}"));
            c.push(format!("arc{k}"));
        }
    }
    if c.is_empty() {
        String::new()
    } else {
        r.pick(&c).clone()
    }
}

/// the value of `attr.en` is made the variant that the chain goes through
fn force_variant(r: &mut Rng, root: &mut V, ch: &[Acc]) {
    if let Some(Acc::Var(n, _)) = ch.iter().find(|a| matches!(a, Acc::Var(..))) {
        let e = g_en(r, *n);
        lset(root, &[Acc::Fld(6), Acc::Fld(4)], e);
    }
}

/// one (write chain, read chain) pair on the standard store
fn gen_pair(r: &mut Rng, w: &Chain, rd: &Chain) -> GenCase {
    let mut g = GenCase { lines: vec![], tags: vec!["pair"] };
    let mut root = init_root(r, &[10, 11, 12], &[20, 21], 2, true);
    force_variant(r, &mut root, rd);
    force_variant(r, &mut root, w);
    g.lines.push(format!("init {}", show(&root)));
    let imm = r.chance(1, 4);
    let (how, htag) = pick_how(r, rd, &root);
    g.lines.push(format!("{} {} {}", if imm { "imm" } else { "eff" }, show_chain(rd), how).trim_end().to_string());
    g.tag(htag);
    if imm {
        g.tag("imm")
    }
    g.lines.push("idle".into());
    let t = ty_of(w).unwrap();
    let nv = mutate(t, lget(&root, w).unwrap(), r);
    let how = *r.pick(&["set", "upd", "wr"]);
    let era = pick_era(r, w);
    if !era.is_empty() {
        g.tag("write-through-erased-handle")
    }
    g.lines.push(format!("{how} {} {} {era}", show_chain(w), show(&nv)).trim_end().to_string());
    g.lines.push("idle".into());
    if w.iter().chain(rd.iter()).any(|a| matches!(a, Acc::Var(..))) {
        g.tag("enum")
    }
    if related(w, rd) {
        g.tag(if strict_prefix(w, rd) { "write-ancestor" } else if w.len() == rd.len() { "write-same" } else { "write-descendant" })
    } else {
        g.tag("unrelated")
    }
    if w.iter().any(|a| matches!(a, Acc::Idx(_))) {
        g.tag("index-write")
    }
    if w.iter().chain(rd.iter()).any(|a| matches!(a, Acc::Key(_) | Acc::KFld(_))) {
        g.tag("keyed")
    }
    g
}

/// a seeded history
fn gen_history(r: &mut Rng, flavour: usize) -> GenCase {
    let mut g = GenCase { lines: vec![], tags: vec![] };
    // flavours: 0 plain fields, 1 keyed starting with <= 1 key, 2 keyed starting with >= 2 keys,
    //           3 unkeyed list, 4 everything
    let (kr, km): (Vec<u32>, Vec<u32>) = match flavour {
        0 | 3 => (vec![], vec![]),
        1 => ((10..10 + r.below(2) as u32).collect(), (20..20 + r.below(2) as u32).collect()),
        _ => ((10..10 + r.range(2, 4) as u32).collect(), (20..20 + r.range(0, 3) as u32).collect()),
    };
    let list_len = if flavour == 3 || flavour == 4 { r.range(1, 3) } else { 0 };
    let opt0 = r.chance(1, 2);
    let mut shadow = init_root(r, &kr, &km, list_len, opt0);
    g.lines.push(format!("init {}", show(&shadow)));
    let mut next_key = [30u32, 40u32]; // fresh keys for root rows / mid rows
    let mut removed: [Vec<u32>; 2] = [vec![], vec![]];
    let mut dirty = [false, false];
    let use_imm = r.chance(1, 4);
    let use_patch = r.chance(1, 3);
    let keyed = flavour == 1 || flavour == 2 || flavour == 4;
    let allow = |ch: &Chain| -> bool {
        let has_list = ch.first() == Some(&Acc::Fld(3));
        let has_key = ch.iter().any(|a| matches!(a, Acc::Key(_) | Acc::KFld(_)));
        match flavour {
            0 => !has_list && !has_key,
            1 | 2 => !has_list,
            3 => !has_key,
            _ => true,
        }
    };
    // readers
    let n_readers = r.range(2, 7);
    let mut pool_keys_root: Vec<u32> = kr.clone();
    pool_keys_root.push(next_key[0]); // a key that may appear later
    let mut pool_keys_mid: Vec<u32> = km.clone();
    pool_keys_mid.push(next_key[1]);
    let cands: Vec<Chain> = all_chains(&pool_keys_root, &pool_keys_mid, 3).into_iter().filter(|c| allow(c)).collect();
    for _ in 0..n_readers {
        let ch = r.pick(&cands).clone();
        let kind = if use_imm && r.chance(2, 3) { "imm" } else { "eff" };
        if kind == "imm" {
            g.tag("imm")
        }
        let (how, htag) = pick_how(r, &ch, &shadow);
        g.tag(htag);
        g.lines.push(format!("{kind} {} {how}", show_chain(&ch)).trim_end().to_string());
    }
    if r.chance(3, 4) {
        g.lines.push("idle".into());
    }
    let n_ops = r.range(3, 12);
    for _ in 0..n_ops {
        let keys_now = |sh: &V, base: &[Acc]| -> Vec<u32> {
            match lget(sh, base) {
                Some(V::Node(_, xs)) => xs.iter().map(key_of).collect(),
                _ => vec![],
            }
        };
        let kroot = keys_now(&shadow, &KROOT);
        let kmid = keys_now(&shadow, &KMID);
        let list_now = match lget(&shadow, &[Acc::Fld(3)]) {
            Some(V::Node(_, xs)) => xs.len(),
            _ => 0,
        };
        let chains: Vec<Chain> =
            all_chains(&kroot, &kmid, list_now + 1)
                .into_iter()
                .filter(|c| allow(c) && !is_row_id(c) && vars_match(&shadow, c))
                .collect();
        let choice = r.below(10);
        if keyed && choice < 3 {
            // a keyed operation through `.write()`
            let which = if flavour == 1 || flavour == 2 || r.chance(1, 2) { 0 } else { 1 };
            let which = if r.chance(1, 3) { 1 - which } else { which };
            let base: Chain = if which == 0 { KROOT.to_vec() } else { KMID.to_vec() };
            let cur = keys_now(&shadow, &base);
            let V::Node(_, rows) = lget(&shadow, &base).unwrap().clone() else { unreachable!() };
            let mut rows = rows;
            let kind = r.below(if dirty[which] { 2 } else { 5 });
            match kind {
                0 if cur.len() >= 2 => {
                    let (i, j) = (r.below(cur.len()), r.below(cur.len()));
                    g.lines.push(format!("kswap {} {i} {j}", show_chain(&base)));
                    rows.swap(i, j);
                    g.tag("reorder");
                }
                1 if !cur.is_empty() => {
                    g.lines.push(format!("krev {}", show_chain(&base)));
                    rows.reverse();
                    g.tag("reorder");
                }
                2 | 3 | 0 | 1 if !dirty[which] => {
                    let id = if !removed[which].is_empty() && r.chance(1, 3) {
                        let i = r.below(removed[which].len());
                        removed[which].remove(i)
                    } else {
                        next_key[which] += 1;
                        next_key[which] - 1
                    };
                    let row = g_row(r, id);
                    g.lines.push(format!("kpush {} {}", show_chain(&base), show(&row)));
                    rows.push(row);
                    g.tag("push");
                }
                _ if !dirty[which] && !cur.is_empty() => {
                    let i = r.below(cur.len());
                    g.lines.push(format!("kremove {} {i}", show_chain(&base)));
                    removed[which].push(key_of(&rows[i]));
                    rows.remove(i);
                    g.tag("remove");
                }
                _ => {
                    g.lines.push(format!("krev {}", show_chain(&base)));
                    rows.reverse();
                    g.tag("reorder");
                }
            }
            dirty[which] = false;
            lset(&mut shadow, &base, V::Node(Tag::KVec, rows));
        } else {
            // a write or a patch through some chain
            let ch = r.pick(&chains).clone();
            let t = ty_of(&ch).unwrap();
            let through_dirty_key = (dirty[0] && under(&ch, &KROOT)) || (dirty[1] && under(&ch, &KMID));
            match lget(&shadow, &ch) {
                Some(old) if !through_dirty_key => {
                    let mut nv = mutate(t, old, r);
                    // rarely let an ancestor write change the key set of a keyed field below it by one
                    // element (the key table goes stale until the next keyed write)
                    if keyed && r.chance(1, 10) {
                        for (w, base) in [(0usize, KROOT.to_vec()), (1usize, KMID.to_vec())] {
                            if base.len() >= ch.len() && base[..ch.len()] == ch[..] && !dirty[w] {
                                let rel = &base[ch.len()..];
                                if let Some(V::Node(_, rows)) = lget(&nv, rel).cloned() {
                                    let mut rows = rows;
                                    match r.below(3) {
                                        0 if !rows.is_empty() => {
                                            let i = r.below(rows.len());
                                            removed[w].push(key_of(&rows[i]));
                                            rows.remove(i);
                                        }
                                        1 => {
                                            next_key[w] += 1;
                                            rows.push(g_row(r, next_key[w] - 1));
                                        }
                                        _ if rows.len() >= 2 => rows.swap(0, 1),
                                        _ => continue,
                                    }
                                    lset(&mut nv, rel, V::Node(Tag::KVec, rows));
                                    dirty[w] = true;
                                    g.tag("stale-keys-scenario");
                                    break;
                                }
                            }
                        }
                    }
                    let patch = use_patch && r.chance(1, 2) && t != Ty::En;
                    let era = pick_era(r, &ch);
                    if !era.is_empty() {
                        g.tag("write-through-erased-handle")
                    }
                    if patch {
                        g.lines.push(format!("patch {} {} {era}", show_chain(&ch), show(&nv)).trim_end().to_string());
                        g.tag("patch");
                    } else {
                        let how = *r.pick(&["set", "upd", "wr"]);
                        g.lines.push(format!("{how} {} {} {era}", show_chain(&ch), show(&nv)).trim_end().to_string());
                    }
                    // a write through the keyed field itself refreshes its key table
                    if !patch {
                        if ch == KROOT.to_vec() {
                            dirty[0] = false
                        }
                        if ch == KMID.to_vec() {
                            dirty[1] = false
                        }
                    }
                    lset(&mut shadow, &ch, nv);
                }
                Some(_) => {
                    // reads only below a keyed field whose table is stale
                    g.lines.push("idle".into());
                }
                None => {
                    // nothing there (None.unwrap(), index past the end, key absent): the write must be a no-op
                    let nv = match t {
                        Ty::U => g_leaf(r),
                        Ty::Leaf => g_leafst(r),
                        Ty::Row => {
                            let k = ch.iter().rev().find_map(|a| if let Acc::Key(k) = a { Some(*k) } else { None });
                            g_row(r, k.unwrap_or(0))
                        }
                        _ => continue,
                    };
                    g.lines.push(format!("set {} {}", show_chain(&ch), show(&nv)));
                    g.tag("write-nothing-there");
                }
            }
            if ch_has_idx(&ch) {
                g.tag("index-write")
            }
        }
        match r.below(4) {
            0 | 1 => g.lines.push("idle".into()),
            2 => g.lines.push(format!("poll {}", r.below(8))),
            _ => {}
        }
    }
    g.lines.push("idle".into());
    g.tag(match flavour {
        0 => "plain-fields",
        1 => "keyed-start-le1",
        2 => "keyed-start-ge2",
        3 => "unkeyed-list",
        _ => "mixed",
    });
    g
}
/// both `Option` fields go Some -> None -> Some (and back) through writes and patches at every ancestor
/// level, watched by every kind of reader
fn gen_option_cycle(r: &mut Rng) -> GenCase {
    use Acc::*;
    let mut g = GenCase { lines: vec![], tags: vec!["option-cycle"] };
    let start_some = r.chance(1, 2);
    let mut shadow = init_root(r, &[], &[], 0, start_some);
    g.lines.push(format!("init {}", show(&shadow)));
    let use_imm = r.chance(1, 5);
    let opts: [Chain; 2] = [vec![Fld(2)], vec![Fld(1), Fld(3)]];
    let hows = ["", "read", "with", "track", "map", "invert", "field", "arc"];
    let n_readers = r.range(3, 8);
    for _ in 0..n_readers {
        let base = r.pick(&opts).clone();
        let mut ch = base.clone();
        match r.below(4) {
            0 => {}
            1 => ch.push(Fld(0)),
            _ => {
                ch.push(Fld(0));
                ch.push(Fld(r.below(2)));
            }
        }
        let mut how = r.pick(&hows).to_string();
        if how == "field" || how == "arc" {
            how = format!("{how}{}", r.below(ch.len() + 1));
        }
        if parse_how(if how.is_empty() { "get" } else { &how }, &ch).is_none() {
            how = String::new();
        }
        if how == "map" || how == "invert" {
            g.tag("how-option-map")
        } else if how.starts_with("field") || how.starts_with("arc") {
            g.tag("how-erased")
        }
        let kind = if use_imm && r.chance(1, 2) { "imm" } else { "eff" };
        if kind == "imm" {
            g.tag("imm")
        }
        g.lines.push(format!("{kind} {} {how}", show_chain(&ch)).trim_end().to_string());
    }
    if r.chance(3, 4) {
        g.lines.push("idle".into());
    }
    for _ in 0..r.range(3, 10) {
        let base = r.pick(&opts).clone();
        // an ancestor level of the option (or the option itself)
        let level = r.below(base.len() + 1);
        let at: Chain = base[..level].to_vec();
        let cur_opt = lget(&shadow, &base).unwrap().clone();
        let is_some = matches!(&cur_opt, V::Node(_, xs) if !xs.is_empty());
        // mostly toggle, sometimes change the inner value, sometimes leave it
        let new_opt = match r.below(6) {
            0 if is_some => V::Node(Tag::Opt, vec![mutate(Ty::Leaf, lget(&cur_opt, &[Fld(0)]).unwrap(), r)]),
            1 => cur_opt.clone(),
            _ => {
                if is_some {
                    V::Node(Tag::Opt, vec![])
                } else {
                    V::Node(Tag::Opt, vec![g_leafst(r)])
                }
            }
        };
        let mut nv = lget(&shadow, &at).unwrap().clone();
        // sometimes the rest of the written value changes as well
        if level < base.len() && r.chance(1, 3) {
            nv = mutate(ty_of(&at).unwrap(), &nv, r);
        }
        lset(&mut nv, &base[level..], new_opt);
        let patch = r.chance(1, 2);
        if patch {
            g.lines.push(format!("patch {} {}", show_chain(&at), show(&nv)));
            g.tag("patch");
        } else {
            let how = *r.pick(&["set", "upd", "wr"]);
            g.lines.push(format!("{how} {} {}", show_chain(&at), show(&nv)));
        }
        g.tag(match base.len() - level {
            0 => "option-written-itself",
            1 => "option-written-via-parent",
            _ => "option-written-via-grandparent",
        });
        lset(&mut shadow, &at, nv);
        // a write below the option while it is Some
        if r.chance(1, 4) {
            if let Some(inner) = lget(&shadow, &[&base[..], &[Fld(0)]].concat()).cloned() {
                let f = r.below(2);
                let leaf = g_leaf(r);
                let mut ch = base.clone();
                ch.push(Fld(0));
                ch.push(Fld(f));
                g.lines.push(format!("set {} {}", show_chain(&ch), show(&leaf)));
                let mut ni = inner;
                lset(&mut ni, &[Fld(f)], leaf);
                lset(&mut shadow, &[&base[..], &[Fld(0)]].concat(), ni);
            }
        }
        match r.below(4) {
            0 | 1 | 2 => g.lines.push("idle".into()),
            _ => g.lines.push(format!("poll {}", r.below(8))),
        }
    }
    g.lines.push("idle".into());
    g
}

/// shapes with attributes: readers on every accessible field of the `attr` subtree, then patches (at the
/// shape, at `attr`, at the root) that change one field or a few: exactly the readers of the changed
/// fields and of their ancestors must run. (`derive(Store)` and `derive(Patch)` must agree on the path
/// segment of every field, also after a `#[store(skip)]` field and in tuple structs.)
fn gen_attr_patch(r: &mut Rng) -> GenCase {
    use Acc::*;
    let mut g = GenCase { lines: vec![], tags: vec!["attr-shapes"] };
    let mut shadow = init_root(r, &[], &[], 0, false);
    g.lines.push(format!("init {}", show(&shadow)));
    let attr: Chain = vec![Fld(6)];
    let all: Vec<Chain> = all_chains(&[], &[], 0).into_iter().filter(|c| c.first() == Some(&Fld(6))).collect();
    // one shape in focus, all of its fields watched; plus a few readers elsewhere
    let shape = r.below(5);
    let focus: Chain = vec![Fld(6), Fld(shape)];
    for c in all.iter() {
        if !(c.starts_with(&focus) || r.chance(1, 6)) {
            continue;
        }
        let (how, htag) = pick_how(r, c, &shadow);
        g.tag(htag);
        g.lines.push(format!("eff {} {how}", show_chain(c)).trim_end().to_string());
    }
    g.lines.push("idle".into());
    g.tag(["skip-first", "skip-middle", "skip-last", "tuple-struct", "enum"][shape]);
    for _ in 0..r.range(3, 8) {
        // the level the patch is applied at
        let at: Chain = match r.below(4) {
            0 => vec![],
            1 => attr.clone(),
            _ => focus.clone(),
        };
        let at = if ty_of(&at) == Some(Ty::En) { attr.clone() } else { at };
        let mut nv = lget(&shadow, &at).unwrap().clone();
        // change one field of the shape in focus (sometimes two, sometimes a skipped one as well)
        let cur = lget(&shadow, &focus).unwrap().clone();
        let new_shape = match &cur {
            V::Node(Tag::Enumv, _) => mutate(Ty::En, &cur, r),
            V::Node(t, xs) => {
                let mut ys = xs.clone();
                let tys: Vec<Ty> = match shape {
                    0 | 2 => vec![Ty::U, Ty::U, Ty::U],
                    1 => vec![Ty::U, Ty::U, Ty::U, Ty::Leaf],
                    _ => vec![Ty::U, Ty::Leaf, Ty::U, Ty::U],
                };
                for _ in 0..(if r.chance(1, 4) { 2 } else { 1 }) {
                    let i = r.below(ys.len());
                    ys[i] = match tys[i] {
                        Ty::Leaf => mutate(Ty::Leaf, &ys[i], r),
                        _ => g_leaf(r),
                    };
                }
                V::Node(*t, ys)
            }
            v => v.clone(),
        };
        lset(&mut nv, &focus[at.len()..], new_shape);
        let era = pick_era(r, &at);
        if !era.is_empty() {
            g.tag("write-through-erased-handle")
        }
        if r.chance(4, 5) {
            g.lines.push(format!("patch {} {} {era}", show_chain(&at), show(&nv)).trim_end().to_string());
            g.tag("patch");
        } else {
            g.lines.push(format!("set {} {} {era}", show_chain(&at), show(&nv)).trim_end().to_string());
        }
        lset(&mut shadow, &at, nv);
        // a direct write to one accessible field now and then
        if r.chance(1, 4) {
            let cands: Vec<&Chain> = all
                .iter()
                .filter(|c| c.starts_with(&focus) && ty_of(c) == Some(Ty::U) && vars_match(&shadow, c))
                .collect();
            if !cands.is_empty() {
                let c = (*r.pick(&cands)).clone();
                let leaf = g_leaf(r);
                let era = pick_era(r, &c);
                g.lines.push(format!("set {} {} {era}", show_chain(&c), show(&leaf)).trim_end().to_string());
                lset(&mut shadow, &c, leaf);
            }
        }
        g.lines.push("idle".into());
    }
    g
}

/// long-lived `Field` / `ArcField` handles (of plain fields, list elements, keyed items and fields below
/// them), used for reads, writes and patches while the keyed collections are reordered and grow (keys are
/// never removed here: a handle of an item is only meaningful while its key stays)
fn gen_handles(r: &mut Rng) -> GenCase {
    let mut g = GenCase { lines: vec![], tags: vec!["long-lived-handles"] };
    let mut shadow = init_root(r, &[10, 11, 12], &[20, 21], 2, true);
    g.lines.push(format!("init {}", show(&shadow)));
    let mut next_key = [30u32, 40u32];
    let chains_now = |sh: &V| -> Vec<Chain> {
        let keys = |base: &[Acc]| -> Vec<u32> {
            match lget(sh, base) {
                Some(V::Node(_, xs)) => xs.iter().map(key_of).collect(),
                _ => vec![],
            }
        };
        all_chains(&keys(&KROOT), &keys(&KMID), 2).into_iter().filter(|c| vars_match(sh, c)).collect()
    };
    let all0 = chains_now(&shadow);
    let mut handles: Vec<Chain> = vec![];
    for _ in 0..r.range(2, 6) {
        let cands: Vec<&Chain> = all0.iter().filter(|c| !ends_keyed(c) && ty_of(c) != Some(Ty::U)).collect();
        let hc = (*r.pick(&cands)).clone();
        g.lines.push(format!("hnew {} {}", show_chain(&hc), r.pick(&["field", "arc"])));
        if hc.iter().any(|a| matches!(a, Acc::Key(_))) {
            g.tag("handle-of-keyed-item")
        }
        handles.push(hc);
    }
    // the way a chain is written: through a handle that is a prefix of it, or directly
    let written = |r: &mut Rng, c: &Chain, handles: &Vec<Chain>| -> String {
        let via: Vec<usize> = (0..handles.len()).filter(|i| c.starts_with(&handles[*i])).collect();
        if !via.is_empty() && r.chance(3, 4) {
            let i = *r.pick(&via);
            let rest = &c[handles[i].len()..];
            if rest.is_empty() {
                format!("h{i}")
            } else {
                format!("h{i}.{}", show_chain(rest))
            }
        } else {
            show_chain(c)
        }
    };
    let use_imm = r.chance(1, 6);
    for _ in 0..r.range(3, 8) {
        let c = r.pick(&all0).clone();
        let w = written(r, &c, &handles);
        let (how, htag) = if w.starts_with('h') {
            let hs = ["", "read", "with", "track"];
            ((*r.pick(&hs)).to_string(), "how-through-handle")
        } else {
            pick_how(r, &c, &shadow)
        };
        g.tag(htag);
        let kind = if use_imm && r.chance(1, 2) { "imm" } else { "eff" };
        g.lines.push(format!("{kind} {w} {how}").trim_end().to_string());
    }
    g.lines.push("idle".into());
    for _ in 0..r.range(4, 12) {
        match r.below(10) {
            0 | 1 => {
                // reorder / grow a keyed collection
                let which = r.below(2);
                let base: Chain = if which == 0 { KROOT.to_vec() } else { KMID.to_vec() };
                let V::Node(_, rows) = lget(&shadow, &base).unwrap().clone() else { unreachable!() };
                let mut rows = rows;
                let bw = written(r, &base, &handles);
                match r.below(3) {
                    0 if rows.len() >= 2 => {
                        let (i, j) = (r.below(rows.len()), r.below(rows.len()));
                        g.lines.push(format!("kswap {bw} {i} {j}"));
                        rows.swap(i, j);
                        g.tag("reorder");
                    }
                    1 if !rows.is_empty() => {
                        g.lines.push(format!("krev {bw}"));
                        rows.reverse();
                        g.tag("reorder");
                    }
                    _ => {
                        next_key[which] += 1;
                        let row = g_row(r, next_key[which] - 1);
                        g.lines.push(format!("kpush {bw} {}", show(&row)));
                        rows.push(row);
                        g.tag("push");
                    }
                }
                lset(&mut shadow, &base, V::Node(Tag::KVec, rows));
            }
            _ => {
                let all = chains_now(&shadow);
                let cands: Vec<&Chain> = all.iter().filter(|c| !is_row_id(c)).collect();
                let c = (*r.pick(&cands)).clone();
                let Some(old) = lget(&shadow, &c) else { continue };
                let t = ty_of(&c).unwrap();
                let nv = mutate(t, old, r);
                let w = written(r, &c, &handles);
                if w.starts_with('h') {
                    g.tag("write-through-handle")
                }
                if t != Ty::En && r.chance(1, 3) {
                    g.lines.push(format!("patch {w} {}", show(&nv)));
                    g.tag("patch");
                } else {
                    let how = *r.pick(&["set", "upd", "wr"]);
                    g.lines.push(format!("{how} {w} {}", show(&nv)));
                }
                lset(&mut shadow, &c, nv);
            }
        }
        match r.below(4) {
            0 | 1 | 2 => g.lines.push("idle".into()),
            _ => g.lines.push(format!("poll {}", r.below(8))),
        }
    }
    g.lines.push("idle".into());
    g
}

fn ch_has_idx(ch: &[Acc]) -> bool {
    ch.iter().any(|a| matches!(a, Acc::Idx(_)))
}

fn gen(seed: u64, n: usize, path: &str, _tier: &str) -> std::io::Result<()> {
    use std::io::Write;
    let mut r = Rng::new(seed);
    let mut f = std::io::BufWriter::new(std::fs::File::create(path)?);
    let chains = all_chains(&[10, 11], &[20], 2);
    let mut pairs: Vec<(usize, usize)> = vec![];
    for w in 0..chains.len() {
        if is_row_id(&chains[w]) {
            continue;
        }
        for rd in 0..chains.len() {
            pairs.push((w, rd));
        }
    }
    // all pairs when the budget allows, otherwise a seeded sample of half the budget
    let n_pairs = if n >= 2 * pairs.len() { pairs.len() } else { n / 2 };
    let mut i = 0;
    let emit = |f: &mut std::io::BufWriter<std::fs::File>, g: GenCase, i: usize| -> std::io::Result<()> {
        // the store handle family is a mode of the case, derived from its number: half the cases use the
        // arena `Store`, a quarter an `ArcStore`, a quarter a `Store` converted from an `ArcStore`
        let (mode, mtag) = match i % 4 {
            1 => (" arc", "~store-arc"),
            3 => (" conv", "~store-from-arc"),
            _ => ("", ""),
        };
        writeln!(f, "case {}~{}{}", i, g.tags.join("~"), mtag)?;
        for l in g.lines {
            if l.starts_with("init ") {
                writeln!(f, "{l}{mode}")?;
            } else {
                writeln!(f, "{l}")?;
            }
        }
        Ok(())
    };
    if n_pairs == pairs.len() {
        for (w, rd) in &pairs {
            let g = gen_pair(&mut r, &chains[*w], &chains[*rd]);
            emit(&mut f, g, i)?;
            i += 1;
        }
    } else {
        for _ in 0..n_pairs {
            let (w, rd) = *r.pick(&pairs);
            let g = gen_pair(&mut r, &chains[w], &chains[rd]);
            emit(&mut f, g, i)?;
            i += 1;
        }
    }
    // threads: the trigger table keeps one trigger per path under concurrent first accesses
    for (k, rounds) in [(4usize, 40usize), (2, 40)] {
        writeln!(f, "case {}~threads", i)?;
        writeln!(f, "race {k} {rounds}")?;
        i += 1;
    }
    while i < n {
        let flavour = match r.below(16) {
            0..=2 => 0,
            3 | 4 => 1,
            5 | 6 => 2,
            7 => 3,
            8 | 9 => 4,
            10 | 11 => 5,
            12 | 13 => 6,
            _ => 7,
        };
        let g = match flavour {
            5 => gen_option_cycle(&mut r),
            6 => gen_attr_patch(&mut r),
            7 => gen_handles(&mut r),
            _ => gen_history(&mut r, flavour),
        };
        emit(&mut f, g, i)?;
        i += 1;
    }
    f.flush()
}

/// tags travel in the case name: `case <n>~tag~tag`
fn case_tags(name: &str) -> String {
    let t: Vec<&str> = name.split('~').skip(1).filter(|s| !s.is_empty()).collect();
    if t.is_empty() {
        "corpus".into()
    } else {
        t.join(",")
    }
}

fn main() {
    match parse_cli() {
        Cmd::Gen { seed, n, ops, tier } => gen(seed, n, &ops, &tier).unwrap(),
        Cmd::Run { ops, out } => {
            quiet_panics();
            sched::install();
            let mut case: Option<Case> = None;
            let mut dead = false;
            run_ops(&ops, &out, |line| {
                let w: Vec<&str> = line.split_whitespace().collect();
                if let ["case", n] = w.as_slice() {
                    dead = false;
                    // leave the previous case's store/effects to its owner; the executor table is reset
                    case = None;
                    sched::reset();
                    return format!("case {n} tags={}", case_tags(n));
                }
                if dead {
                    return "dead".into();
                }
                match catch_unwind(AssertUnwindSafe(|| op_line(&mut case, &w))) {
                    Ok(s) => s,
                    Err(_) => {
                        dead = true;
                        "panic ## fail panic".into()
                    }
                }
            })
            .unwrap()
        }
    }
}
