// temporary probe (deleted before delivery)
use hx_common::sched;
use reactive_graph::{effect::{Effect, ImmediateEffect}, owner::Owner, traits::*};
use reactive_stores::{Patch, Store, StoreFieldIterator, OptionStoreExt};
use std::sync::{Arc, Mutex};

#[derive(Store, Patch, Clone, Debug, Default, PartialEq)]
struct Leaf { v: u32, w: u32 }
#[derive(Store, Patch, Clone, Debug, Default, PartialEq)]
struct Row { id: u32, label: u32, sub: Leaf }
#[derive(Store, Patch, Clone, Debug, Default, PartialEq)]
struct Mid { x: u32, inner: Leaf, #[store(key: u32 = |r| r.id)] rows: Vec<Row> }
#[derive(Store, Patch, Clone, Debug, Default, PartialEq)]
struct Root { a: u32, mid: Mid, opt: Option<Leaf>, list: Vec<Leaf>, #[store(key: u32 = |r| r.id)] rows: Vec<Row> }

fn row(id: u32) -> Row { Row { id, label: id * 100, sub: Leaf { v: id, w: id } } }

type Log = Arc<Mutex<Vec<String>>>;
fn take(l: &Log) -> Vec<String> { std::mem::take(&mut *l.lock().unwrap()) }


fn main() {
    sched::install();
    let owner = Owner::new();
    owner.set();
    use reactive_stores::{AtKeyed, StoreField};
    // ---------- F-C16-1
    {
        let log: Log = Default::default();
        let s = Store::new(Root { rows: vec![row(10), row(11), row(12)], ..Default::default() });
        for k in [10u32, 11, 12, 13] {
            let log = log.clone();
            Effect::new(move |_| {
                let it = AtKeyed::new(s.rows(), k);
                let v = it.label().try_get();
                log.lock().unwrap().push(format!("row{k}.label={v:?}"));
            });
        }
        sched::run_until_idle(100);
        println!("init: {:?}", take(&log));
        s.rows().write().push(row(13));
        sched::run_until_idle(100);
        println!("after push 13: {:?}", take(&log));
        println!("paths: {:?}", [10u32,11,12,13].map(|k| AtKeyed::new(s.rows(), k).path().into_iter().collect::<Vec<_>>()));
        AtKeyed::new(s.rows(), 13).label().set(7);
        sched::run_until_idle(100);
        println!("after write row13.label: {:?}", take(&log));
        AtKeyed::new(s.rows(), 11).label().set(8);
        sched::run_until_idle(100);
        println!("after write row11.label: {:?}", take(&log));
        s.rows().write().remove(0);
        sched::run_until_idle(100);
        println!("after remove idx0 (key10): {:?}", take(&log));
        println!("paths: {:?}", [10u32,11,12,13].map(|k| AtKeyed::new(s.rows(), k).path().into_iter().collect::<Vec<_>>()));
        s.rows().write().reverse();
        sched::run_until_idle(100);
        println!("after reverse: {:?}", take(&log));
        AtKeyed::new(s.rows(), 12).label().set(9);
        sched::run_until_idle(100);
        println!("after write row12.label: {:?}", take(&log));
    }
    sched::reset();
    // ---------- AtKeyed reader direct; write to keyed field
    {
        let log: Log = Default::default();
        let s = Store::new(Root { rows: vec![row(10), row(11)], ..Default::default() });
        { let log = log.clone(); Effect::new(move |_| {
            let it = AtKeyed::new(s.rows(), 11);
            let v = it.try_read().map(|r| r.label); log.lock().unwrap().push(format!("rows@11={v:?}")); }); }
        { let log = log.clone(); Effect::new(move |_| {
            let it = AtKeyed::new(s.rows(), 11);
            let v = it.sub().try_read().map(|r| r.v); log.lock().unwrap().push(format!("rows@11.sub={v:?}")); }); }
        sched::run_until_idle(100);
        println!("init: {:?}", take(&log));
        s.rows().write()[1].label = 5;
        sched::run_until_idle(100);
        println!("after rows.write()[1].label=5: {:?}", take(&log));
        s.set(Root { rows: vec![row(10), Row{id:11,label:1,sub:Leaf{v:4,w:4}}], ..Default::default() });
        sched::run_until_idle(100);
        println!("after root.set: {:?}", take(&log));
        AtKeyed::new(s.rows(), 11).sub().v().set(99);
        sched::run_until_idle(100);
        println!("after rows@11.sub.v.set: {:?}", take(&log));
        AtKeyed::new(s.rows(), 11).set(Row{id:11,label:2,sub:Leaf{v:5,w:5}});
        sched::run_until_idle(100);
        println!("after rows@11.set: {:?}", take(&log));
        // stale keys after ancestor write
        s.set(Root { rows: vec![row(11)], ..Default::default() });
        let r = std::panic::catch_unwind(std::panic::AssertUnwindSafe(|| { sched::run_until_idle(100); }));
        println!("after root.set rows=[11]: {:?} panicked={}", take(&log), r.is_err());
    }
    sched::reset();
    // ---------- patch on keyed after reverse
    {
        let log: Log = Default::default();
        let s = Store::new(Root { rows: vec![row(10), row(11), row(12)], ..Default::default() });
        for k in [10u32, 11, 12] {
            let log = log.clone();
            Effect::new(move |_| {
                let it = AtKeyed::new(s.rows(), k);
                let v = it.label().try_get();
                log.lock().unwrap().push(format!("row{k}.label={v:?}"));
            });
        }
        sched::run_until_idle(100);
        println!("init: {:?}", take(&log));
        s.rows().write().reverse();
        sched::run_until_idle(100);
        println!("after reverse: {:?}", take(&log));
        let mut nv = s.rows().get_untracked();
        nv[0].label = 77; // key 12
        s.rows().patch(nv);
        sched::run_until_idle(100);
        println!("after patch idx0(label of key 12): {:?}", take(&log));
        println!("value now: {:?}", s.rows().get_untracked().iter().map(|r| (r.id, r.label)).collect::<Vec<_>>());
    }
}
