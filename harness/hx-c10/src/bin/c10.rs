//! C10 correspondence harness: the real `reactive_graph::computed::{ArcAsyncDerived, AsyncDerived}`
//! from /repo's working tree on the harness-controlled executor (`hx_common::sched`).
//!
//! The program of a case (built from the `cfg` line, under a fresh `Owner`):
//!   k source signals; one async derived `d` whose fetcher reads every source (tracked), registers a
//!   `futures::channel::oneshot` receiver together with the inputs it captured, and awaits it;
//!   optionally a subscriber `Effect` reading `d.get()` (and a memo `m = sum(sources)/2` before or
//!   after it); awaiter tasks spawned with `Executor::spawn_local`.
//!
//! Op grammar (numbers are decimal):
//!   case <n>
//!   cfg <arc|arena|arc-unsync|arena-unsync> <s0[,s1[,s2]]> <init|-> <none|d|dm|md> [sig|memo]   (first op, mandatory;
//!        memo = the fetcher reads the sources through one memo of all of them instead of directly)
//!   set <i> <v>        write source i
//!   refetch            `d.mark_dirty()` (what `Resource::refetch` amounts to at this level)
//!   mset <v>           manual write `d.set(Some(v))` through the `Write` impl
//!   complete <f>|last  resolve the f-th started fetch (or the most recently started one) with
//!                      fetch_fn(inputs it captured)
//!   attach [v|r|b]     spawn an awaiter: `d.await` (default) | `d.ready().await` then untracked read | `d.by_ref().await`
//!   poll <j>           poll the (j mod len)-th entry of the ready list
//!   idle               FIFO polls until no task is woken
//!   get                synchronous read (no state change; the observable carries the value)
//!   bread              a new reader (a child owner) under a stand-in `<Suspense/>` boundary (an owner providing a
//!                      `SuspenseContext`) reads the value synchronously (`get_untracked()` in the reader's owner)
//!   attach s           a new reader under the boundary awaits the value (`ScopedFuture` in its owner, like a `Suspend`)
//!   bdrop              every reader under the boundary is disposed (owner cleanup; the awaiting futures are dropped)
//!   attach h           a task takes the value by reference and KEEPS the guard across a further await:
//!                      `let g = d.by_ref().await; record(*g); release.await; drop(g)`
//!   hold               the harness itself takes a `read_untracked()` guard and keeps it
//!   release            every guard is given back (the harness drops its own, every holder's release is sent)
//!   pause / resume     `Owner::pause()` / `Owner::resume()` on the owner the derived was created under (after its first run)
//!   cfg effect kinds `dp` / `dq`: the subscriber PEEKS: polls `by_ref()` / `.await` once with `now_or_never()` and drops it
//!   cfg kind `k!n` / `k!!n` (plain kinds, one source, no effect): the derived's function WRITES its own source during its first
//!                      synchronous run (`let v = s.get(); if v < n { s.set(n) }`); `!!`: the initial future is ready at once
//!                      (the harness completes fetch 0 inside the function), `!`: it is pending as usual
//!   cfg kind `k~chain`: the handle under test is obtained from the constructed one by conversions: `a` = `.into()` the
//!                      `Arc…` type, `r` = `.into()` the arena type, `c` = `.clone()` (e.g. `local-arc~r`, `res~ar`, `arena~ac`)
//!   a 6th cfg field (plain kinds, `sig` only) gives the fetcher's reads as `<body>/<pre>/<post>`, each `-` or a
//!        `.`-separated list of `R<i>` (read source i), `C<i>` (read source i only if source 0, as read earlier in
//!        this run, was non-zero), `X` (read source 1 + flag % (k-1)): body = in the closure before the async block,
//!        pre = in the async block before its first await, post = after the await of the harness's receiver.
//!        The result is fetch_fn(values read, in order).  Default: `R0.R1../-/-`.
//!   kinds res | res-arc | res-blocking = the real `leptos_server::Resource` / `ArcResource` (source fn = all sources,
//!        `refetch` = `Resource::refetch()`); once | once-arc = `OnceResource` / `ArcOnceResource` (no `set`, `refetch`,
//!        `mset`, `attach b`: no such API / nothing to write)
//!   -> `rl=<d,e,a0..|-> val=<v|-> ld=<0|1> nf=<n> fin=<a.b|-> aw=<r0,r1..|-> eff=<d:m;..|-> ## <verdict>`
//!      rl = ready list as task kinds (d = the derived's task, e = the effect's, a<i> = i-th awaiter),
//!      val/ld = untracked read of the value / `ready()` not yet resolved, nf = fetches started,
//!      fin = inputs captured by the last started fetch, aw = what each awaiter resumed with,
//!      eff = every run of the subscriber effect (value of d it saw : value of m it saw)
//!
//! Verdict = the property's clauses, evaluated from the harness's own bookkeeping of the op history
//! and of what the fetcher futures did (never from the model):
//!   every line:  the value read is None, the initial value, a manually written value, or the result of
//!                a fetch that has returned (`fabricated` otherwise);
//!   at settled points (no task woken, every started fetch resolved or dropped):
//!     `loading-stuck`   loading indication still on
//!     `stale`           value != manual value if a manual write came after the last returned fetch,
//!                       else != fetch_fn(latest source values)
//!     `awaiter-parked`  an attached awaiter has not resumed with a value
//!     `subscriber-stale` the subscriber effect's last run saw another value than the current one
use futures::channel::oneshot;
use futures::FutureExt;
use hx_common::{parse_cli, quiet_panics, sched, Cmd, Rng};
use leptos_server::{ArcLocalResource, ArcOnceResource, ArcResource, LocalResource, OnceResource, Resource};
use reactive_graph::computed::suspense::SuspenseContext;
use futures::future::{AbortHandle, Abortable};
use reactive_graph::computed::{ArcAsyncDerived, ArcMemo, AsyncDerived, ScopedFuture};
use reactive_graph::owner::provide_context;
use slotmap::{DefaultKey, SlotMap};
use reactive_graph::effect::Effect;
use reactive_graph::graph::ReactiveNode;
use reactive_graph::owner::{LocalStorage, Owner};
use reactive_graph::prelude::*;
use reactive_graph::signal::ArcRwSignal;
use std::collections::BTreeSet;
use std::future::Future;
use std::io::Write as _;
use std::panic::{catch_unwind, AssertUnwindSafe};
use std::pin::Pin;
use std::sync::{Arc, Mutex};

fn fetch_fn(inputs: &[u32]) -> u32 {
    inputs.iter().fold(1u32, |acc, x| acc.wrapping_mul(10).wrapping_add(*x))
}
fn memo_fn(src: &[u32]) -> u32 {
    src.iter().fold(0u32, |a, x| a.wrapping_add(*x)) / 2
}

// ------------------------------------------------------------------ instrumentation shared with closures

struct Fetch {
    inputs: Vec<u32>,
    tx: Option<oneshot::Sender<u32>>,
    returned: bool,
    /// value of the op clock when the fetcher was called
    born: usize,
}
#[derive(Clone, Copy)]
enum W {
    Manual(u32),
    Fetch(usize),
}
#[derive(Default)]
struct Shared {
    fetches: Vec<Fetch>,
    /// value-writing events in real-time order: manual writes and fetch futures returning
    writers: Vec<W>,
    aw: Vec<Option<u32>>,
    /// awaiters under the boundary whose reader was disposed before they resumed
    aw_aborted: Vec<bool>,
    /// read guards on the value held by holder tasks right now; the release channel of every holder
    /// what a SYNCHRONOUS observer (an `ImmediateEffect` reading `.get()`) saw at its last run
    imm_last: Option<Option<u32>>,
    holder_guards: usize,
    releases: Vec<Option<oneshot::Sender<()>>>,
    elog: Vec<(Option<u32>, Option<u32>)>,
    /// number of ops applied so far
    clock: usize,
}
type Sh = Arc<Mutex<Shared>>;

type Fut = Pin<Box<dyn Future<Output = u32> + Send>>;

/// one fetch: register the receiver with the inputs it was started on, await it
fn start_fetch(sh: &Sh, inputs: Vec<u32>) -> Fut {
    let (tx, rx) = oneshot::channel::<u32>();
    let f = {
        let mut g = sh.lock().unwrap();
        let born = g.clock;
        g.fetches.push(Fetch { inputs, tx: Some(tx), returned: false, born });
        g.fetches.len() - 1
    };
    let sh = sh.clone();
    Box::pin(async move {
        match rx.await {
            Ok(v) => {
                let mut g = sh.lock().unwrap();
                g.fetches[f].returned = true;
                g.writers.push(W::Fetch(f));
                v
            }
            Err(_) => futures::future::pending().await,
        }
    })
}

/// one reactive read of a fetcher with dynamic dependencies
#[derive(Clone, Copy, Debug)]
enum Rd {
    Src(usize),
    IfFlag(usize),
    Idx,
}
#[derive(Clone, Debug, Default)]
struct Fx {
    body: Vec<Rd>,
    pre: Vec<Rd>,
    post: Vec<Rd>,
}
fn parse_fx(k: usize, s: &str) -> Option<Fx> {
    let parts: Vec<&str> = s.split('/').collect();
    if parts.len() != 3 {
        return None;
    }
    let list = |p: &str| -> Option<Vec<Rd>> {
        if p == "-" {
            return Some(vec![]);
        }
        p.split('.')
            .map(|tok| {
                if tok == "X" {
                    return (k >= 2).then_some(Rd::Idx);
                }
                let i: usize = tok.get(1..)?.parse().ok()?;
                if i >= k {
                    return None;
                }
                match tok.as_bytes()[0] {
                    b'R' => Some(Rd::Src(i)),
                    b'C' => Some(Rd::IfFlag(i)),
                    _ => None,
                }
            })
            .collect()
    };
    Some(Fx { body: list(parts[0])?, pre: list(parts[1])?, post: list(parts[2])? })
}
/// what one run has read: (flag, values in order); `get` is the real (tracked) read or, for the oracle, a
/// lookup in the current source values
fn exec_rds(rds: &[Rd], k: usize, flag: &mut Option<u32>, vals: &mut Vec<u32>, get: &dyn Fn(usize) -> u32) {
    for rd in rds {
        let i = match *rd {
            Rd::Src(i) => i,
            Rd::IfFlag(i) => {
                if flag.unwrap_or(0) == 0 {
                    continue;
                }
                i
            }
            Rd::Idx => 1 + (flag.unwrap_or(0) as usize) % (k - 1),
        };
        let v = get(i);
        if i == 0 {
            *flag = Some(v);
        }
        vals.push(v);
    }
}
/// the fetcher evaluated from scratch on given source values (the oracle's side)
fn eval_fx(fx: &Fx, src: &[u32]) -> Vec<u32> {
    let (mut flag, mut vals) = (None, vec![]);
    for part in [&fx.body, &fx.pre, &fx.post] {
        exec_rds(part, src.len(), &mut flag, &mut vals, &|i| src[i]);
    }
    vals
}

/// a fetcher whose reads depend on what it has read: some in the closure body, some in the async block before
/// its first await, some after the await of the harness's receiver
fn fetcher_fx(sh: Sh, srcs: Vec<ArcRwSignal<u32>>, fx: Fx) -> impl Fn() -> Fut + Send + Sync + 'static {
    move || {
        let k = srcs.len();
        let (mut flag, mut vals) = (None, vec![]);
        exec_rds(&fx.body, k, &mut flag, &mut vals, &|i| srcs[i].get());
        let (tx, rx) = oneshot::channel::<u32>();
        let f = {
            let mut g = sh.lock().unwrap();
            let born = g.clock;
            g.fetches.push(Fetch { inputs: vals.clone(), tx: Some(tx), returned: false, born });
            g.fetches.len() - 1
        };
        let (sh, srcs, fx) = (sh.clone(), srcs.clone(), fx.clone());
        Box::pin(async move {
            exec_rds(&fx.pre, k, &mut flag, &mut vals, &|i| srcs[i].get());
            sh.lock().unwrap().fetches[f].inputs = vals.clone();
            match rx.await {
                Ok(_) => {
                    exec_rds(&fx.post, k, &mut flag, &mut vals, &|i| srcs[i].get());
                    let mut g = sh.lock().unwrap();
                    g.fetches[f].inputs = vals.clone();
                    g.fetches[f].returned = true;
                    g.writers.push(W::Fetch(f));
                    fetch_fn(&vals)
                }
                Err(_) => futures::future::pending().await,
            }
        })
    }
}

/// the function writes the source it has just read, during its first run only and only while the value is below `k`
fn fetcher_self_write(sh: Sh, srcs: Vec<ArcRwSignal<u32>>, k: u32, instant: bool) -> impl Fn() -> Fut + Send + Sync + 'static {
    let first = std::sync::atomic::AtomicBool::new(true);
    move || {
        let v = srcs[0].get();
        let first = first.swap(false, std::sync::atomic::Ordering::Relaxed);
        if first && v < k {
            srcs[0].set(k);
        }
        let fut = start_fetch(&sh, vec![v]);
        if first && instant {
            // the initial future is ready when the constructor polls it
            let tx = sh.lock().unwrap().fetches[0].tx.take();
            if let Some(tx) = tx {
                let _ = tx.send(fetch_fn(&[v]));
            }
        }
        fut
    }
}

fn fetcher(sh: Sh, srcs: Vec<ArcRwSignal<u32>>, via: Option<ArcMemo<Vec<u32>>>) -> impl Fn() -> Fut + Send + Sync + 'static {
    move || {
        // tracked reads of every source (or of the memo of all sources), at the time the future is created
        let inputs: Vec<u32> = match &via {
            Some(m) => m.get(),
            None => srcs.iter().map(|s| s.get()).collect(),
        };
        start_fetch(&sh, inputs)
    }
}

// ------------------------------------------------------------------ the derived under test

#[derive(Clone, Copy, PartialEq, Debug)]
enum Kind {
    Arc,
    Arena,
    ArcUnsync,
    ArenaUnsync,
    Res,
    ResArc,
    ResBlocking,
    Once,
    OnceArc,
    Local,
    LocalArc,
}
impl Kind {
    fn is_local(self) -> bool {
        matches!(self, Kind::Local | Kind::LocalArc)
    }
    fn is_res(self) -> bool {
        matches!(self, Kind::Res | Kind::ResArc | Kind::ResBlocking)
    }
    fn is_once(self) -> bool {
        matches!(self, Kind::Once | Kind::OnceArc)
    }
}
#[derive(Clone, Copy, PartialEq, Debug)]
enum EffKind {
    None,
    D,
    DM,
    MD,
    /// a dependent that PEEKS: polls `by_ref()` / `.await` once with `now_or_never()` and drops the future
    DP,
    DQ,
    /// no task-based subscriber, but a SYNCHRONOUS observer (ImmediateEffect reading `.get()`)
    Imm,
}

#[derive(Clone)]
enum Dv {
    A(ArcAsyncDerived<u32>),
    R(AsyncDerived<u32>),
    L(AsyncDerived<u32, LocalStorage>),
    RA(ArcResource<u32>),
    RR(Resource<u32>),
    OA(ArcOnceResource<u32>),
    OR(OnceResource<u32>),
    LA(ArcLocalResource<u32>),
    LR(LocalResource<u32>),
}
/// the same expression for every flavour of handle
macro_rules! each {
    ($self:expr, $d:ident => $e:expr) => {
        match $self {
            Dv::A($d) => $e,
            Dv::R($d) => $e,
            Dv::L($d) => $e,
            Dv::RA($d) => $e,
            Dv::RR($d) => $e,
            Dv::OA($d) => $e,
            Dv::OR($d) => $e,
            Dv::LA($d) => $e,
            Dv::LR($d) => $e,
        }
    };
}
impl Dv {
    fn new(kind: Kind, init: Option<u32>, f: impl Fn() -> Fut + Send + Sync + 'static) -> Dv {
        match (kind, init) {
            (Kind::Arc, None) => Dv::A(ArcAsyncDerived::new(f)),
            (Kind::Arc, i) => Dv::A(ArcAsyncDerived::new_with_initial(i, f)),
            (Kind::Arena, None) => Dv::R(AsyncDerived::new(f)),
            (Kind::Arena, i) => Dv::R(AsyncDerived::new_with_initial(i, f)),
            (Kind::ArcUnsync, None) => Dv::A(ArcAsyncDerived::new_unsync(f)),
            (Kind::ArcUnsync, i) => Dv::A(ArcAsyncDerived::new_unsync_with_initial(i, f)),
            (Kind::ArenaUnsync, None) => Dv::L(AsyncDerived::new_unsync(f)),
            (Kind::ArenaUnsync, i) => Dv::L(AsyncDerived::new_unsync_with_initial(i, f)),
            _ => unreachable!(),
        }
    }
    /// the real `leptos_server` resource over the source signals
    fn new_resource(kind: Kind, sh: Sh, srcs: Vec<ArcRwSignal<u32>>) -> Dv {
        let source = move || srcs.iter().map(|s| s.get()).collect::<Vec<u32>>();
        let fetch = move |inputs: Vec<u32>| start_fetch(&sh, inputs);
        match kind {
            Kind::ResArc => Dv::RA(ArcResource::new(source, fetch)),
            Kind::Res => Dv::RR(Resource::new(source, fetch)),
            Kind::ResBlocking => Dv::RR(Resource::new_blocking(source, fetch)),
            _ => unreachable!(),
        }
    }
    /// the real `leptos_server` local resource: the fetcher reads the sources (tracked); every fetch waits
    /// one executor tick (`Executor::tick()`) before it awaits the fetcher's future
    fn new_local(kind: Kind, f: impl Fn() -> Fut + Send + Sync + 'static) -> Dv {
        match kind {
            Kind::LocalArc => Dv::LA(ArcLocalResource::new(f)),
            Kind::Local => Dv::LR(LocalResource::new(f)),
            _ => unreachable!(),
        }
    }
    /// the real `leptos_server` once-resource: one future, started on the inputs given
    fn new_once(kind: Kind, sh: Sh, inputs: Vec<u32>) -> Dv {
        let fut = start_fetch(&sh, inputs);
        match kind {
            Kind::OnceArc => Dv::OA(ArcOnceResource::new(fut)),
            Kind::Once => Dv::OR(OnceResource::new(fut)),
            _ => unreachable!(),
        }
    }
    fn get_untracked(&self) -> Option<u32> {
        each!(self, d => d.get_untracked())
    }
    /// tracked read (inside the subscriber effect)
    fn get(&self) -> Option<u32> {
        each!(self, d => d.get())
    }
    fn mset(&self, v: u32) {
        match self {
            Dv::A(d) => d.set(Some(v)),
            Dv::R(d) => d.set(Some(v)),
            Dv::L(d) => d.set(Some(v)),
            Dv::RA(d) => d.set(Some(v)),
            Dv::RR(d) => d.set(Some(v)),
            Dv::OA(_) | Dv::OR(_) | Dv::LA(_) | Dv::LR(_) => unreachable!(),
        }
    }
    fn refetch(&self) {
        match self {
            Dv::A(d) => d.mark_dirty(),
            Dv::R(d) => d.mark_dirty(),
            Dv::L(d) => d.mark_dirty(),
            Dv::RA(d) => d.refetch(),
            Dv::RR(d) => d.refetch(),
            Dv::LA(d) => d.refetch(),
            Dv::LR(d) => d.refetch(),
            Dv::OA(_) | Dv::OR(_) => unreachable!(),
        }
    }
    /// the loading indication as the public API shows it: `ready()` does not resolve while loading
    fn loading(&self) -> bool {
        use std::future::IntoFuture;
        match self {
            // no `ready()` on a local resource: its `.await` resolves at once exactly when it is not loading
            Dv::LA(d) => d.clone().into_future().now_or_never().is_none(),
            Dv::LR(d) => d.into_future().now_or_never().is_none(),
            Dv::A(d) => d.ready().now_or_never().is_none(),
            Dv::R(d) => d.ready().now_or_never().is_none(),
            Dv::L(d) => d.ready().now_or_never().is_none(),
            Dv::RA(d) => d.ready().now_or_never().is_none(),
            Dv::RR(d) => d.ready().now_or_never().is_none(),
            Dv::OA(d) => d.ready().now_or_never().is_none(),
            Dv::OR(d) => d.ready().now_or_never().is_none(),
        }
    }
    /// poll `by_ref()` (or `.await`) once and drop the future: what a `select` / timeout race / `now_or_never` does
    fn peek(&self, by_ref: bool) -> Option<u32> {
        use std::future::IntoFuture;
        match (self, by_ref) {
            (Dv::A(d), true) => d.by_ref().now_or_never().map(|g| *g),
            (Dv::R(d), true) => d.by_ref().now_or_never().map(|g| *g),
            (Dv::L(d), true) => d.by_ref().now_or_never().map(|g| *g),
            (Dv::RA(d), true) => d.by_ref().now_or_never().map(|g| *g),
            (Dv::RR(d), true) => d.by_ref().now_or_never().map(|g| *g),
            (Dv::A(d), false) => d.clone().into_future().now_or_never(),
            (Dv::R(d), false) => (*d).into_future().now_or_never(),
            (Dv::L(d), false) => (*d).into_future().now_or_never(),
            (Dv::RA(d), false) => d.clone().into_future().now_or_never(),
            (Dv::RR(d), false) => (*d).into_future().now_or_never(),
            _ => unreachable!(),
        }
    }
    /// one conversion step: `a` into the `Arc…` type, `r` into the arena type, `c` clone
    fn convert(self, step: char) -> Option<Dv> {
        Some(match (self, step) {
            (d, 'c') => d.clone(),
            (Dv::A(d), 'a') => Dv::A(d),
            (Dv::R(d), 'a') => Dv::A(d.into()),
            (Dv::L(d), 'a') => Dv::A(d.into()),
            (Dv::A(d), 'r') => Dv::R(d.into()),
            (Dv::R(d), 'r') => Dv::R(d),
            (Dv::L(d), 'r') => Dv::L(d),
            (Dv::RA(d), 'a') => Dv::RA(d),
            (Dv::RR(d), 'a') => Dv::RA(d.into()),
            (Dv::RA(d), 'r') => Dv::RR(d.into()),
            (Dv::RR(d), 'r') => Dv::RR(d),
            (Dv::LA(d), 'a') => Dv::LA(d),
            (Dv::LR(d), 'a') => Dv::LA(d.into()),
            (Dv::LA(d), 'r') => Dv::LR(d.into()),
            (Dv::LR(d), 'r') => Dv::LR(d),
            _ => return None,
        })
    }
    /// a `read_untracked()` guard, kept by the caller
    fn read_guard(&self) -> Box<dyn std::any::Any> {
        match self {
            Dv::A(d) => Box::new(d.read_untracked()),
            Dv::R(d) => Box::new(d.read_untracked()),
            Dv::L(d) => Box::new(d.read_untracked()),
            Dv::RA(d) => Box::new(d.read_untracked()),
            Dv::RR(d) => Box::new(d.read_untracked()),
            _ => unreachable!(),
        }
    }
    /// `by_ref().await`: the value and the guard
    async fn by_ref_guard(self) -> (u32, Box<dyn std::any::Any>) {
        match self {
            Dv::A(d) => {
                let g = d.by_ref().await;
                (*g, Box::new(g))
            }
            Dv::R(d) => {
                let g = d.by_ref().await;
                (*g, Box::new(g))
            }
            Dv::L(d) => {
                let g = d.by_ref().await;
                (*g, Box::new(g))
            }
            Dv::RA(d) => {
                let g = d.by_ref().await;
                (*g, Box::new(g))
            }
            Dv::RR(d) => {
                let g = d.by_ref().await;
                (*g, Box::new(g))
            }
            _ => unreachable!(),
        }
    }
    async fn await_value(self, how: char) -> u32 {
        match (self, how) {
            (Dv::A(d), 'v') => d.await,
            (Dv::R(d), 'v') => d.await,
            (Dv::L(d), 'v') => d.await,
            (Dv::RA(d), 'v') => d.await,
            (Dv::RR(d), 'v') => d.await,
            (Dv::OA(d), 'v') => d.await,
            (Dv::OR(d), 'v') => d.await,
            (Dv::LA(d), 'v') => d.await,
            (Dv::LR(d), 'v') => d.await,
            (Dv::LA(_), _) | (Dv::LR(_), _) => unreachable!(),
            (this, 'r') => {
                match &this {
                    Dv::A(d) => d.ready().await,
                    Dv::R(d) => d.ready().await,
                    Dv::L(d) => d.ready().await,
                    Dv::RA(d) => d.ready().await,
                    Dv::RR(d) => d.ready().await,
                    Dv::OA(d) => d.ready().await,
                    Dv::OR(d) => d.ready().await,
                    Dv::LA(_) | Dv::LR(_) => unreachable!(),
                }
                this.get_untracked().unwrap_or(u32::MAX)
            }
            (Dv::A(d), _) => *d.by_ref().await,
            (Dv::R(d), _) => *d.by_ref().await,
            (Dv::L(d), _) => *d.by_ref().await,
            (Dv::RA(d), _) => *d.by_ref().await,
            (Dv::RR(d), _) => *d.by_ref().await,
            (Dv::OA(_), _) | (Dv::OR(_), _) => unreachable!(),
        }
    }
}

/// a stand-in for a `<Suspense/>` boundary: an owner that provides a `SuspenseContext`, plus the task
/// list the boundary watches
struct Boundary {
    owner: Owner,
    tasks: ArcRwSignal<SlotMap<DefaultKey, ()>>,
    /// the readers created so far and not yet disposed; the abort handles of the awaiting ones
    readers: Vec<Owner>,
    aborts: Vec<AbortHandle>,
}
impl Boundary {
    fn new(parent: &Owner) -> Self {
        let tasks = ArcRwSignal::new(SlotMap::new());
        let owner = parent.child();
        owner.with(|| provide_context(SuspenseContext { tasks: tasks.clone() }));
        Boundary { owner, tasks, readers: vec![], aborts: vec![] }
    }
    fn pending(&self) -> usize {
        self.tasks.read_untracked().len()
    }
}

// ------------------------------------------------------------------ one live case

struct Live {
    kind: Kind,
    eff: EffKind,
    init: Option<u32>,
    owner: Option<Owner>,
    srcs: Vec<ArcRwSignal<u32>>,
    dv: Option<Dv>,
    sh: Sh,
    /// spawn index of the first awaiter task
    aw_base: usize,
    torn: bool,
    // ---- the oracle's own bookkeeping (from the op history only)
    cur_src: Vec<u32>,
    tags: BTreeSet<&'static str>,
    saw_stale: bool,
    boundary: Option<Boundary>,
    fx: Option<Fx>,
    /// kind ('a' awaiter, 'r' reader spawned by a boundary read) of every task spawned after the set-up
    spawned: Vec<char>,
    /// op clock values: boundary reads, manual writes, the first poll of the derived's task
    bread_at: Vec<usize>,
    mset_at: Vec<usize>,
    first_poll_d: Option<usize>,
    /// op clock values of the polls of live awaiters under the boundary (each registers the boundary)
    saw_poll_at: Vec<usize>,
    /// the awaiters under the boundary spawned before this spawn index have been dropped with their reader
    saw_dropped_upto: usize,
    /// synchronous reads whose reader has been disposed: no registration for the next run is left, only the
    /// handle for the load they were made in
    bread_handle_only: Vec<usize>,
    no_reader: bool,
    /// guards the harness itself holds (`hold`); whether guards / manual writes were used in this case
    sync_guards: Vec<Box<dyn std::any::Any>>,
    used_guards: bool,
    used_mset: bool,
    /// `pause` was used in this case; the owner is paused now; a source write / refetch was made while it was and none since
    imm: Option<reactive_graph::effect::ImmediateEffect>,
    /// cfg kind `k!n` / `k!!n`: the function writes its own source (to `n`) during its first run; ready at once
    self_write: Option<(u32, bool)>,
    used_pause: bool,
    paused: bool,
    missed_while_paused: bool,
    /// tasks spawned by synchronous reads under the boundary that have not been polled with loading off yet:
    /// each holds a task handle of the boundary until then, whatever becomes of its reader
    live_readers: usize,
}

fn opt(v: Option<u32>) -> String {
    v.map(|v| v.to_string()).unwrap_or_else(|| "-".into())
}
fn join(xs: Vec<String>, sep: &str) -> String {
    if xs.is_empty() {
        "-".into()
    } else {
        xs.join(sep)
    }
}

impl Live {
    fn new() -> Self {
        sched::reset();
        Live {
            kind: Kind::Arc,
            eff: EffKind::None,
            init: None,
            owner: None,
            srcs: vec![],
            dv: None,
            sh: Default::default(),
            aw_base: 1,
            torn: false,
            cur_src: vec![],
            tags: BTreeSet::new(),
            saw_stale: false,
            boundary: None,
            fx: None,
            spawned: vec![],
            bread_at: vec![],
            mset_at: vec![],
            first_poll_d: None,
            saw_poll_at: vec![],
            saw_dropped_upto: 0,
            bread_handle_only: vec![],
            no_reader: true,
            sync_guards: vec![],
            used_guards: false,
            used_mset: false,
            imm: None,
            self_write: None,
            used_pause: false,
            paused: false,
            missed_while_paused: false,
            live_readers: 0,
        }
    }
    fn teardown(&mut self) {
        if self.torn {
            return;
        }
        self.torn = true;
        self.imm = None;
        self.sync_guards.clear();
        self.sh.lock().unwrap().releases.clear();
        sched::reset();
        self.dv = None;
        self.boundary = None;
        self.srcs.clear();
        {
            let mut g = self.sh.lock().unwrap();
            let f = std::mem::take(&mut g.fetches);
            drop(g);
            drop(f);
        }
        sched::reset();
        if let Some(o) = self.owner.take() {
            o.cleanup();
            o.unset();
        }
        sched::reset();
    }

    fn configure(&mut self, kind: Kind, srcs: Vec<u32>, init: Option<u32>, eff: EffKind, via_memo: bool, fx: Option<Fx>) {
        let owner = Owner::new();
        owner.set();
        self.boundary = Some(Boundary::new(&owner));
        self.owner = Some(owner);
        self.kind = kind;
        self.eff = eff;
        self.init = init;
        self.cur_src = srcs.clone();
        self.srcs = srcs.iter().map(|v| ArcRwSignal::new(*v)).collect();
        let via = via_memo.then(|| {
            let srcs = self.srcs.clone();
            ArcMemo::new(move |_| srcs.iter().map(|s| s.get()).collect::<Vec<u32>>())
        });
        if via_memo {
            self.tags.insert("memo-source");
        }
        let dv = if kind.is_res() {
            self.tags.insert("resource");
            Dv::new_resource(kind, self.sh.clone(), self.srcs.clone())
        } else if kind.is_once() {
            self.tags.insert("once-resource");
            Dv::new_once(kind, self.sh.clone(), srcs.clone())
        } else if kind.is_local() {
            self.tags.insert("local-resource");
            Dv::new_local(kind, fetcher(self.sh.clone(), self.srcs.clone(), None))
        } else if let Some(fx) = fx.clone() {
            self.tags.insert("dynamic-reads");
            if !fx.post.is_empty() {
                self.tags.insert("reads-after-await");
            }
            Dv::new(kind, init, fetcher_fx(self.sh.clone(), self.srcs.clone(), fx))
        } else if let Some((k, instant)) = self.self_write {
            self.tags.insert(if instant { "self-write-first-run-ready-at-once" } else { "self-write-first-run" });
            let d = Dv::new(kind, init, fetcher_self_write(self.sh.clone(), self.srcs.clone(), k, instant));
            if self.cur_src[0] < k {
                self.cur_src[0] = k;
            }
            d
        } else {
            Dv::new(kind, init, fetcher(self.sh.clone(), self.srcs.clone(), via))
        };
        self.fx = fx;
        if eff != EffKind::None && eff != EffKind::Imm {
            let memo = {
                let srcs = self.srcs.clone();
                ArcMemo::new(move |_| {
                    let vs: Vec<u32> = srcs.iter().map(|s| s.get()).collect();
                    memo_fn(&vs)
                })
            };
            let d = dv.clone();
            let sh = self.sh.clone();
            Effect::new(move |_| {
                let rec = match eff {
                    EffKind::D => (d.get(), None),
                    EffKind::DP | EffKind::DQ => (d.peek(eff == EffKind::DP), None),
                    EffKind::DM => {
                        let a = d.get();
                        let b = memo.get();
                        (a, Some(b))
                    }
                    EffKind::MD => {
                        let b = memo.get();
                        let a = d.get();
                        (a, Some(b))
                    }
                    EffKind::None | EffKind::Imm => unreachable!(),
                };
                sh.lock().unwrap().elog.push(rec);
            });
        }
        if kind.is_once() || eff == EffKind::Imm {
            // a synchronous observer: it runs INSIDE the notification of the completion; what it reads there must be
            // the loaded value (it is never told again)
            let d = dv.clone();
            let sh = self.sh.clone();
            self.imm = Some(reactive_graph::effect::ImmediateEffect::new(move || {
                let v = d.get();
                sh.lock().unwrap().imm_last = Some(v);
            }));
            self.tags.insert("synchronous-observer");
        }
        self.aw_base = sched::task_count();
        self.dv = Some(dv);
        if self.cur_src.len() >= 2 {
            self.tags.insert("multi-source");
        }
        if init.is_some() {
            self.tags.insert("init-value");
        }
        self.tags.insert(match eff {
            EffKind::None => "no-effect",
            EffKind::D => "effect-d",
            EffKind::DM => "effect-dm",
            EffKind::MD => "effect-md",
            EffKind::DP => "effect-peeks-by-ref",
            EffKind::DQ => "effect-peeks-await",
            EffKind::Imm => "no-effect",
        });
    }

    /// bookkeeping for a poll: the first poll of the derived's task, polls of awaiters under the boundary
    fn note_poll(&mut self, polled: Option<usize>, clock: usize) {
        let Some(id) = polled else { return };
        if id == self.d_id() && self.first_poll_d.is_none() {
            self.first_poll_d = Some(clock);
        }
        if id == self.d_id() && self.paused {
            // the task consumes its notification without looking at its sources
            self.missed_while_paused = true;
        }
        if id >= self.aw_base + self.saw_dropped_upto && self.spawned.get(id - self.aw_base) == Some(&'s') {
            self.saw_poll_at.push(clock);
        }
        // the task of a synchronous read is `ready().await; drop(handle)`: it ends when polled with loading off
        if id >= self.aw_base
            && self.spawned.get(id - self.aw_base) == Some(&'r')
            && !self.dv.as_ref().unwrap().loading()
        {
            self.live_readers = self.live_readers.saturating_sub(1);
        }
    }

    /// the op clock values at which the loop took the registered contexts: the first poll of its task (initial
    /// future) and whenever it called the fetcher again
    fn takes(&self) -> Vec<usize> {
        let g = self.sh.lock().unwrap();
        let mut takes: Vec<usize> = self.first_poll_d.into_iter().collect();
        for f in g.fetches.iter().skip(1) {
            if takes.last() != Some(&f.born) {
                takes.push(f.born);
            }
        }
        takes
    }

    /// spawn index of the derived's own task: a local resource's first fetch spawns its tick task before it
    fn d_id(&self) -> usize {
        if self.kind.is_local() { 1 } else { 0 }
    }

    fn task_name(&self, id: usize) -> String {
        if id == self.d_id() {
            "d".into()
        } else if id < self.d_id() {
            "t0".into()
        } else if id < self.aw_base {
            "e".into()
        } else {
            let k = id - self.aw_base;
            let kind = self.spawned.get(k).copied().unwrap_or('?');
            let n = self.spawned[..k.min(self.spawned.len())].iter().filter(|c| **c == kind).count();
            // the tick task of fetch 0 is `t0`; later ones are numbered from 1
            format!("{kind}{}", if kind == 't' { n + 1 } else { n })
        }
    }

    /// the derived's task has taken the result of its fetch and has not stored it yet (it waits for the write lock,
    /// or has been woken by the lock and not been polled): the lock is not readable, `blocking_read` would never return
    fn write_waiting(&self, loading: bool) -> bool {
        let g = self.sh.lock().unwrap();
        self.used_guards && loading && g.fetches.last().map(|f| f.returned).unwrap_or(false)
    }

    fn in_flight(&self) -> bool {
        let g = self.sh.lock().unwrap();
        g.fetches.last().map(|f| !f.returned && f.tx.as_ref().map(|t| !t.is_canceled()).unwrap_or(true)).unwrap_or(false)
    }

    fn complete(&mut self, f: usize) {
        let (tx, stale, v, nf) = {
            let mut g = self.sh.lock().unwrap();
            let nf = g.fetches.len();
            let Some(fe) = g.fetches.get_mut(f) else { return };
            let Some(tx) = fe.tx.take() else { return };
            (tx, fe.inputs != self.cur_src, fetch_fn(&fe.inputs), nf)
        };
        let canceled = tx.is_canceled();
        let _ = tx.send(v);
        if canceled {
            self.tags.insert("complete-dropped-fetch");
        } else if stale {
            self.tags.insert("stale-completion");
        } else {
            self.tags.insert("fresh-completion");
        }
        if f + 1 < nf {
            self.tags.insert("complete-old-fetch");
        }
    }

    fn obs(&mut self) -> String {
        let dv = self.dv.clone().unwrap();
        let rl = sched::ready();
        // while a guard on the value is held it is not read synchronously: `blocking_read` never returns on this
        // thread once the derived's task waits for the write lock
        let ld = dv.loading();
        let guards = self.sync_guards.len() + self.sh.lock().unwrap().holder_guards;
        let readable = guards == 0 && !self.write_waiting(ld);
        let val = if readable { dv.get_untracked() } else { None };
        let g = self.sh.lock().unwrap();
        let nf = g.fetches.len();
        let fin = g.fetches.last().map(|f| f.inputs.clone()).unwrap_or_default();
        // ---- oracle
        let mut allowed: Vec<Option<u32>> = vec![None, self.init];
        for w in &g.writers {
            allowed.push(Some(match *w {
                W::Manual(v) => v,
                W::Fetch(f) => fetch_fn(&g.fetches[f].inputs),
            }));
        }
        let all_resolved = g
            .fetches
            .iter()
            .all(|f| f.tx.as_ref().map(|t| t.is_canceled()).unwrap_or(true));
        if g.fetches.first().map(|f| f.tx.as_ref().map(|t| t.is_canceled()).unwrap_or(false)).unwrap_or(false) {
            self.tags.insert("initial-fetch-dropped");
        }
        let settled = rl.is_empty() && all_resolved && guards == 0;
        // ---- the boundary: its task list is non-empty while a load it has read from is in flight
        let bp = self.boundary.as_ref().map(|b| b.pending()).unwrap_or(0);
        let in_flight = !all_resolved;
        // the loop takes the registered contexts when it starts a fetch: at the first poll of its task
        // (initial future) and whenever it calls the fetcher again
        let mut takes: Vec<usize> = self.first_poll_d.into_iter().collect();
        for f in g.fetches.iter().skip(1) {
            if takes.last() != Some(&f.born) {
                takes.push(f.born);
            }
        }
        let t_cur = takes.last().copied();
        let t_prev = if takes.len() >= 2 { Some(takes[takes.len() - 2]) } else { None };
        let covered = self.bread_at.iter().any(|b| t_prev.map(|p| *b > p).unwrap_or(true))
            || self.bread_handle_only.iter().any(|b| t_cur.map(|c| *b > c).unwrap_or(false))
            || self.saw_poll_at.iter().any(|b| t_prev.map(|p| *b > p).unwrap_or(true) && t_cur.map(|c| *b <= c).unwrap_or(false));
        let mset_during = self.mset_at.iter().any(|m| t_cur.map(|c| *m > c).unwrap_or(true));
        let expected = match g.writers.last() {
            Some(W::Manual(v)) => Some(*v),
            _ => Some(fetch_fn(&match &self.fx {
                Some(fx) => eval_fx(fx, &self.cur_src),
                None => self.cur_src.clone(),
            })),
        };
        let verdict = if readable && !allowed.contains(&val) {
            "fail fabricated"
        } else if rl.is_empty() && in_flight && !mset_during && covered && bp == 0 {
            "fail suspense-missed"
        } else if rl.is_empty() && !in_flight && guards == 0 && bp != 0 {
            "fail suspense-stuck"
        } else if self.no_reader && bp > self.live_readers {
            // the boundary waits on behalf of a reader that does not exist any more
            "fail suspense-stale"
        } else if !settled {
            "ok"
        } else if ld {
            "fail loading-stuck"
        } else if val != expected && self.missed_while_paused {
            // a paused owner's derived looks at its sources again only when it is notified again
            "ok"
        } else if val != expected {
            self.saw_stale = true;
            "fail stale"
        } else if g.aw.iter().zip(&g.aw_aborted).any(|(r, x)| r.is_none() && !*x) {
            "fail awaiter-parked"
        } else if g.imm_last.is_some() && g.imm_last != Some(val) {
            "fail sync-observer-stale"
        } else if !matches!(self.eff, EffKind::None | EffKind::Imm) && g.elog.last().map(|r| r.0) != Some(val) {
            "fail subscriber-stale"
        } else {
            "ok"
        };
        if settled {
            self.tags.insert("settled");
        }
        format!(
            "rl={} val={} ld={} nf={} fin={} aw={} eff={} bp={} ## {}",
            join(rl.iter().map(|id| self.task_name(*id)).collect(), ","),
            if readable { opt(val) } else { "~".to_string() },
            ld as u8,
            nf,
            join(fin.iter().map(|v| v.to_string()).collect(), "."),
            join(g.aw.iter().zip(&g.aw_aborted).map(|(r, x)| if *x { "x".into() } else { opt(*r) }).collect(), ","),
            join(g.elog.iter().map(|(d, m)| format!("{}:{}", opt(*d), opt(*m))).collect(), ";"),
            bp,
            verdict
        )
    }

    fn apply(&mut self, line: &str) -> String {
        let w: Vec<&str> = line.split_whitespace().collect();
        let num = |s: &str| s.parse::<u32>().ok();
        let idx = |s: &str| s.parse::<usize>().ok();
        const BAD: &str = "bad-op";
        if let ["cfg", kind, srcs, init, eff] | ["cfg", kind, srcs, init, eff, _] | ["cfg", kind, srcs, init, eff, _, _] = w.as_slice() {
            let via_memo = match w.get(5) {
                None | Some(&"sig") => false,
                Some(&"memo") => true,
                _ => return BAD.into(),
            };
            if self.dv.is_some() {
                return BAD.into();
            }
            let (kind, self_write) = match kind.split_once('!') {
                None => (*kind, None),
                Some((k, rest)) => {
                    let (instant, n) = match rest.strip_prefix('!') {
                        Some(n) => (true, n),
                        None => (false, rest),
                    };
                    let Some(n) = num(n) else { return BAD.into() };
                    if !matches!(k, "arc" | "arena" | "arc-unsync" | "arena-unsync") || w.len() != 5 || *init != "-" || *eff != "none" || srcs.contains(',') {
                        return BAD.into();
                    }
                    (k, Some((n, instant)))
                }
            };
            let kind = &kind;
            let (kind, conv) = match kind.split_once('~') {
                None => (*kind, ""),
                Some((k, c)) => {
                    if c.is_empty() || c.len() > 4 || !c.chars().all(|x| matches!(x, 'a' | 'r' | 'c')) || k.starts_with("once") {
                        return BAD.into();
                    }
                    (k, c)
                }
            };
            let kind = match kind {
                "arc" => Kind::Arc,
                "arena" => Kind::Arena,
                "arc-unsync" => Kind::ArcUnsync,
                "arena-unsync" => Kind::ArenaUnsync,
                "res" => Kind::Res,
                "res-arc" => Kind::ResArc,
                "res-blocking" => Kind::ResBlocking,
                "once" => Kind::Once,
                "once-arc" => Kind::OnceArc,
                "local" => Kind::Local,
                "local-arc" => Kind::LocalArc,
                _ => return BAD.into(),
            };
            if (kind.is_res() || kind.is_once() || kind.is_local()) && (w.len() >= 6 || *init != "-") {
                return BAD.into();
            }
            if w.len() == 7 && via_memo {
                return BAD.into();
            }
            let vs: Option<Vec<u32>> = srcs.split(',').map(num).collect();
            let Some(vs) = vs else { return BAD.into() };
            if vs.is_empty() || vs.len() > 3 {
                return BAD.into();
            }
            let init = if *init == "-" {
                None
            } else {
                match num(init) {
                    Some(v) => Some(v),
                    None => return BAD.into(),
                }
            };
            let eff = match *eff {
                "none" => EffKind::None,
                "d" => EffKind::D,
                "dm" => EffKind::DM,
                "md" => EffKind::MD,
                "dp" => EffKind::DP,
                "dq" => EffKind::DQ,
                "i" => EffKind::Imm,
                _ => return BAD.into(),
            };
            // a peeking dependent sees `None` while loading even if an older value is there: driven on first loads only
            // (no initial value, no reloads: `set` / `refetch` / `mset` are refused below), handles with `by_ref()`
            if matches!(eff, EffKind::DP | EffKind::DQ)
                && (init.is_some() || kind.is_once() || kind.is_local() || w.len() >= 6)
            {
                return BAD.into();
            }
            let fx = match w.get(6) {
                None => None,
                Some(s) => match parse_fx(vs.len(), s) {
                    Some(fx) => Some(fx),
                    None => return BAD.into(),
                },
            };
            self.self_write = self_write;
            self.configure(kind, vs, init, eff, via_memo, fx);
            if !conv.is_empty() {
                // every later op goes through the converted handle; the constructed one is dropped
                let mut dv = self.dv.take().unwrap();
                for step in conv.chars() {
                    dv = dv.convert(step).unwrap();
                }
                self.dv = Some(dv);
                self.tags.insert("converted-handle");
            }
            return w.join(" ");
        }
        if self.dv.is_none() {
            return BAD.into();
        }
        let dv = self.dv.clone().unwrap();
        if self.kind.is_once() && matches!(w.as_slice(), ["set", ..] | ["refetch"] | ["mset", ..] | ["attach", "b"] | ["attach", "s"]) {
            return BAD.into();
        }
        // a local resource has no `Write` impl, no `ready()` and no `by_ref()`
        if self.kind.is_local() && matches!(w.as_slice(), ["mset", ..] | ["attach", "b"] | ["attach", "r"]) {
            return BAD.into();
        }
        // guards on the value: plain configurations only (see the rule text), never together with manual writes; no
        // synchronous access while one is held
        let guards_now = self.sync_guards.len() + self.sh.lock().unwrap().holder_guards;
        let guards_ok = self.eff == EffKind::None
            && !self.kind.is_once()
            && !self.kind.is_local()
            && self.fx.as_ref().map(|f| f.post.is_empty()).unwrap_or(true)
            && !self.used_mset;
        if matches!(self.eff, EffKind::DP | EffKind::DQ) && matches!(w.as_slice(), ["set", ..] | ["refetch"] | ["mset", ..]) {
            return BAD.into();
        }
        // with a synchronous observer: no manual writes, guards or pauses (it reads the value synchronously inside
        // every notification)
        if self.eff == EffKind::Imm
            && matches!(w.as_slice(), ["mset", ..] | ["attach", "h"] | ["hold"] | ["pause"] | ["resume"])
        {
            return BAD.into();
        }
        // pausing the derived's owner: plain configurations only
        if matches!(w.as_slice(), ["pause"] | ["resume"])
            && (self.eff != EffKind::None
                || self.kind.is_once()
                || self.kind.is_local()
                || self.used_mset
                || self.used_guards
                || self.first_poll_d.is_none())
        {
            return BAD.into();
        }
        if self.used_pause && matches!(w.as_slice(), ["mset", ..] | ["attach", "h"] | ["hold"]) {
            return BAD.into();
        }
        if matches!(w.as_slice(), ["attach", "h"] | ["hold"]) && !guards_ok {
            return BAD.into();
        }
        if matches!(w.as_slice(), ["mset", ..]) && self.used_guards {
            return BAD.into();
        }
        if (guards_now != 0 || self.write_waiting(dv.loading())) && matches!(w.as_slice(), ["bread"] | ["get"] | ["hold"]) {
            // it could block the thread for good: the op is skipped
            self.tags.insert("blocking-access-skipped");
            return self.obs();
        }
        let clock = {
            let mut g = self.sh.lock().unwrap();
            g.clock += 1;
            g.clock
        };
        match w.as_slice() {
            ["set", i, v] => {
                let (Some(i), Some(v)) = (idx(i), num(v)) else { return BAD.into() };
                if i < self.srcs.len() {
                    if self.in_flight() {
                        self.tags.insert("write-during-fetch");
                    }
                    self.cur_src[i] = v;
                    self.srcs[i].set(v);
                    self.missed_while_paused = self.paused;
                }
            }
            ["pause"] => {
                self.used_pause = true;
                self.paused = true;
                self.tags.insert("owner-paused");
                self.owner.as_ref().unwrap().pause();
            }
            ["resume"] => {
                self.paused = false;
                self.owner.as_ref().unwrap().resume();
            }
            ["refetch"] => {
                if self.in_flight() {
                    self.tags.insert("refetch-during-fetch");
                } else {
                    self.tags.insert("refetch");
                }
                dv.refetch();
                self.missed_while_paused = self.paused;
            }
            ["mset", v] => {
                let Some(v) = num(v) else { return BAD.into() };
                if self.in_flight() {
                    self.tags.insert("manual-write-during-fetch");
                } else {
                    self.tags.insert("manual-write-at-rest");
                }
                self.sh.lock().unwrap().writers.push(W::Manual(v));
                self.mset_at.push(clock);
                self.used_mset = true;
                dv.mset(v);
            }
            ["complete", f] => {
                let f = if *f == "last" {
                    self.sh.lock().unwrap().fetches.len() - 1
                } else {
                    match idx(f) {
                        Some(f) => f,
                        None => return BAD.into(),
                    }
                };
                self.complete(f);
            }
            ["attach"] | ["attach", _] => {
                let how = if w.len() == 2 {
                    match w[1] {
                        "v" => 'v',
                        "r" => 'r',
                        "b" => 'b',
                        "s" => 's',
                        "h" => 'h',
                        _ => return BAD.into(),
                    }
                } else {
                    'v'
                };
                self.tags.insert(if dv.loading() { "awaiter-before-ready" } else { "awaiter-after-ready" });
                let i = {
                    let mut g = self.sh.lock().unwrap();
                    g.aw.push(None);
                    g.aw_aborted.push(false);
                    g.aw.len() - 1
                };
                let sh = self.sh.clone();
                if how == 's' {
                    // like a `Suspend` below the boundary: the future runs in a reader's owner (so its polls see
                    // the `SuspenseContext`) and is dropped when the reader is disposed
                    let b = self.boundary.as_mut().unwrap();
                    let reader = b.owner.child();
                    let fut = reader.with(|| ScopedFuture::new(dv.await_value('v')));
                    let (handle, reg) = AbortHandle::new_pair();
                    b.readers.push(reader);
                    b.aborts.push(handle);
                    self.no_reader = false;
                    self.spawned.push('s');
                    any_spawner::Executor::spawn_local(async move {
                        match Abortable::new(fut, reg).await {
                            Ok(v) => sh.lock().unwrap().aw[i] = Some(v),
                            Err(_) => sh.lock().unwrap().aw_aborted[i] = true,
                        }
                    });
                } else if how == 'h' {
                    self.used_guards = true;
                    self.tags.insert("guard-held-across-await");
                    self.spawned.push('h');
                    let (tx, rx) = oneshot::channel::<()>();
                    self.sh.lock().unwrap().releases.push(Some(tx));
                    any_spawner::Executor::spawn_local(async move {
                        let (v, guard) = dv.by_ref_guard().await;
                        {
                            let mut g = sh.lock().unwrap();
                            g.aw[i] = Some(v);
                            g.holder_guards += 1;
                        }
                        let _ = rx.await;
                        drop(guard);
                        sh.lock().unwrap().holder_guards -= 1;
                    });
                } else {
                    self.spawned.push('a');
                    any_spawner::Executor::spawn_local(async move {
                        let v = dv.await_value(how).await;
                        sh.lock().unwrap().aw[i] = Some(v);
                    });
                }
            }
            ["poll", j] => {
                let Some(j) = idx(j) else { return BAD.into() };
                let r = sched::ready();
                if r.len() >= 2 {
                    self.tags.insert("schedule-choice");
                }
                let polled = sched::poll_nth_ready(j);
                self.note_poll(polled, clock);
            }
            ["idle"] => {
                for _ in 0..100_000 {
                    // every poll gets its own clock value (the order of a take and a registration matters)
                    let clock = {
                        let mut g = self.sh.lock().unwrap();
                        g.clock += 1;
                        g.clock
                    };
                    let polled = sched::poll_nth_ready(0);
                    if polled.is_none() {
                        break;
                    }
                    self.note_poll(polled, clock);
                }
            }
            ["get"] => {}
            ["bread"] => {
                let (loading, has_value) = (dv.loading(), dv.get_untracked().is_some());
                self.tags.insert(match (has_value, loading) {
                    (false, _) => "boundary-read-first-load",
                    (true, false) => "boundary-read-idle",
                    (true, true) => "boundary-read-reloading",
                });
                let before = sched::task_count();
                let b = self.boundary.as_mut().unwrap();
                let reader = b.owner.child();
                let _ = reader.with(|| dv.get_untracked());
                b.readers.push(reader);
                self.no_reader = false;
                for _ in before..sched::task_count() {
                    self.spawned.push('r');
                    self.live_readers += 1;
                }
                self.bread_at.push(clock);
            }
            ["hold"] => {
                self.used_guards = true;
                self.tags.insert("guard-held-by-reader");
                self.sync_guards.push(dv.read_guard());
            }
            ["release"] => {
                self.sync_guards.clear();
                let txs: Vec<oneshot::Sender<()>> =
                    self.sh.lock().unwrap().releases.iter_mut().filter_map(|t| t.take()).collect();
                for tx in txs {
                    let _ = tx.send(());
                }
            }
            ["bdrop"] => {
                self.tags.insert(if self.in_flight() { "readers-dropped-during-fetch" } else { "readers-dropped" });
                let b = self.boundary.as_mut().unwrap();
                for reader in b.readers.drain(..) {
                    reader.cleanup();
                }
                for h in b.aborts.drain(..) {
                    h.abort();
                }
                // registrations end with the readers; the handle of a synchronous read made during the load in
                // flight stays until that load has finished
                let t_cur = self.takes().last().copied();
                let during: Vec<usize> =
                    self.bread_at.drain(..).filter(|b| t_cur.map(|c| *b > c).unwrap_or(false)).collect();
                self.bread_handle_only.extend(during);
                self.saw_poll_at.clear();
                self.saw_dropped_upto = self.spawned.len();
                self.no_reader = true;
            }
            _ => return BAD.into(),
        }
        // tasks spawned by the code under test during this op (the tick tasks of a local resource's fetches)
        while self.aw_base + self.spawned.len() < sched::task_count() {
            self.spawned.push('t');
        }
        self.obs()
    }

    fn tags(&self) -> Vec<String> {
        let mut t: BTreeSet<String> = self.tags.iter().map(|s| s.to_string()).collect();
        if self.saw_stale {
            t.insert("stale-at-settled".into());
        }
        let interesting = t.iter().any(|x| {
            !matches!(x.as_str(), "no-effect" | "effect-d" | "settled" | "fresh-completion" | "multi-source" | "init-value")
        });
        if !interesting {
            t.insert("plain".into());
        }
        t.into_iter().collect()
    }
}
impl Drop for Live {
    fn drop(&mut self) {
        self.teardown()
    }
}

/// what the watchdog needs to finish the output when the (single) harness thread blocks for good inside an op
struct Progress {
    /// index of the op line being applied, when it was started
    line: usize,
    since: std::time::Instant,
    case_line: Option<String>,
    outs: Vec<String>,
    done: bool,
}

fn run(ops_path: &str, out_path: &str) -> std::io::Result<()> {
    let text = std::fs::read_to_string(ops_path)?;
    let lines: Arc<Vec<String>> = Arc::new(text.lines().map(|l| l.trim().to_string()).collect());
    let out = Arc::new(Mutex::new(std::io::BufWriter::new(std::fs::File::create(out_path)?)));
    let prog = Arc::new(Mutex::new(Progress { line: 0, since: std::time::Instant::now(), case_line: None, outs: vec![], done: false }));
    // WATCHDOG: an op normally takes microseconds.  If one does not return for 10 s the thread is blocked for good (a
    // synchronous reader inside a notification that holds a lock, ...): the op gets the verdict `fail …-deadlock`, the
    // rest of the file is filled in and the process ends, so that the check reports a violation instead of hanging.
    {
        let (lines, out, prog) = (lines.clone(), out.clone(), prog.clone());
        std::thread::spawn(move || loop {
            std::thread::sleep(std::time::Duration::from_millis(250));
            let p = prog.lock().unwrap();
            if p.done {
                return;
            }
            if p.since.elapsed() > std::time::Duration::from_secs(10) {
                let mut o = out.lock().unwrap();
                if let Some(c) = &p.case_line {
                    let _ = writeln!(o, "{c} tags=deadlock");
                }
                for l in &p.outs {
                    let _ = writeln!(o, "{l}");
                }
                let _ = writeln!(o, "blocked ## fail sync-observer-deadlock");
                for l in lines.iter().skip(p.line + 1) {
                    if l.starts_with("case ") {
                        let _ = writeln!(o, "{l} tags=");
                    } else {
                        let _ = writeln!(o, "dead");
                    }
                }
                let _ = o.flush();
                std::process::exit(0);
            }
        });
    }
    let mut cur: Option<(String, Live, Vec<String>)> = None;
    fn flush(
        out: &Arc<Mutex<std::io::BufWriter<std::fs::File>>>,
        cur: &mut Option<(String, Live, Vec<String>)>,
    ) -> std::io::Result<()> {
        if let Some((case_line, mut live, outs)) = cur.take() {
            let tags = live.tags();
            live.teardown();
            let mut out = out.lock().unwrap();
            writeln!(out, "{} tags={}", case_line, tags.join(","))?;
            for o in outs {
                writeln!(out, "{o}")?;
            }
        }
        Ok(())
    }
    for (idx, line) in lines.iter().enumerate() {
        let line = line.as_str();
        let w: Vec<&str> = line.split_whitespace().collect();
        {
            let mut p = prog.lock().unwrap();
            p.line = idx;
            p.since = std::time::Instant::now();
        }
        if let ["case", n] = w.as_slice() {
            flush(&out, &mut cur)?;
            cur = Some((format!("case {n}"), Live::new(), vec![]));
            let mut p = prog.lock().unwrap();
            p.case_line = Some(format!("case {n}"));
            p.outs.clear();
            continue;
        }
        match cur.as_mut() {
            Some((_, live, outs)) => {
                let o = match catch_unwind(AssertUnwindSafe(|| live.apply(line))) {
                    Ok(o) => o,
                    Err(_) => "panic ## fail panic".to_string(),
                };
                prog.lock().unwrap().outs.push(o.clone());
                outs.push(o);
            }
            None => writeln!(out.lock().unwrap(), "bad-op")?,
        }
    }
    flush(&out, &mut cur)?;
    prog.lock().unwrap().done = true;
    let r = out.lock().unwrap().flush();
    r
}

// ------------------------------------------------------------------ generator

const KINDS: [&str; 4] = ["arc", "arena", "arc-unsync", "arena-unsync"];
const EFFS: [&str; 4] = ["none", "d", "dm", "md"];
const VIAS: [&str; 2] = ["sig", "memo"];

struct Gen {
    out: std::io::BufWriter<std::fs::File>,
    cases: usize,
}
impl Gen {
    fn case(&mut self, prefix: &str, lines: &[String]) {
        writeln!(self.out, "case {}{}", prefix, self.cases).unwrap();
        for l in lines {
            writeln!(self.out, "{l}").unwrap();
        }
        self.cases += 1;
    }
}

/// closing sequence: resolve whatever is in flight and run to idle, enough rounds to settle
fn settle(l: &mut Vec<String>, rounds: usize) {
    for _ in 0..rounds {
        l.push("complete last".into());
        l.push("idle".into());
    }
}

/// exhaustive small scope: every sequence of length `len` over the alphabet, for one source and
/// every effect kind; then settle.  Source writes take fresh values so that every write is visible.
fn gen_exhaustive(g: &mut Gen, len: usize, alphabet: &[&str], effs: &[&str], prefix: &str) {
    let n = alphabet.len();
    let total = n.pow(len as u32);
    let mut rot = 0usize;
    for (eff, via) in effs.iter().flat_map(|e| VIAS.iter().map(move |v| (e, v))) {
        for code in 0..total {
            let mut c = code;
            let mut l = vec![format!("cfg {} 0 {} {} {}", KINDS[rot % 4], if rot % 5 == 4 { "7" } else { "-" }, eff, via)];
            rot += 1;
            let mut next_val = 1;
            for _ in 0..len {
                let a = alphabet[c % n];
                c /= n;
                if a == "set" {
                    l.push(format!("set 0 {next_val}"));
                    next_val += 1;
                } else {
                    l.push(a.to_string());
                }
            }
            settle(&mut l, 3);
            g.case(prefix, &l);
        }
    }
}

/// all interleavings of two source writes, the completions of the fetches they cause and the
/// polls of the derived's task / the effect's task (the shape "overlapping writes, first result last")
fn gen_two_writes(g: &mut Gen) {
    let alphabet = ["set", "complete last", "poll 0", "poll 1", "poll 2"];
    for (eff, via) in EFFS.iter().flat_map(|e| VIAS.iter().map(move |v| (e, v))) {
        for pre in ["", "idle", "complete last;idle", "attach;idle", "attach;complete last;idle"] {
            for code in 0..alphabet.len().pow(4) {
                let mut c = code;
                let mut seq = vec![];
                for _ in 0..4 {
                    seq.push(alphabet[c % alphabet.len()]);
                    c /= alphabet.len();
                }
                if seq.iter().filter(|a| **a == "set").count() != 2 {
                    continue;
                }
                let mut l = vec![format!("cfg arc 1,2 - {eff} {via}")];
                for p in pre.split(';').filter(|p| !p.is_empty()) {
                    l.push(p.to_string());
                }
                let mut k = 0;
                for a in seq {
                    if a == "set" {
                        l.push(format!("set {} {}", k % 2, 3 + k));
                        k += 1;
                    } else {
                        l.push(a.to_string());
                    }
                }
                settle(&mut l, 3);
                g.case("w", &l);
            }
        }
    }
}

/// every op sequence of length `len` over `alphabet` for each of the given `cfg` lines; then settle
fn gen_exhaustive_cfgs(g: &mut Gen, len: usize, alphabet: &[&str], cfgs: &[String], prefix: &str) {
    let n = alphabet.len();
    for cfg in cfgs {
        for code in 0..n.pow(len as u32) {
            let mut c = code;
            let mut l = vec![cfg.clone()];
            let mut next_val = 1;
            for _ in 0..len {
                let a = alphabet[c % n];
                c /= n;
                if a == "set" {
                    l.push(format!("set 0 {next_val}"));
                    next_val += 1;
                } else {
                    l.push(a.to_string());
                }
            }
            settle(&mut l, 3);
            g.case(prefix, &l);
        }
    }
}

/// the stand-in Suspense boundary reading at every phase (no value + loading, value + idle, value +
/// reloading), interleaved with writes, completions and polls, on every flavour of handle
fn gen_suspense(g: &mut Gen, thorough: bool) {
    let cfgs: Vec<String> = [
        "cfg arc 0 - none", "cfg arena 0 - d", "cfg arc-unsync 0 7 none", "cfg arena-unsync 0 - none memo",
        "cfg res 0 - none", "cfg res-arc 0 - d",
    ]
    .iter()
    .map(|s| s.to_string())
    .collect();
    let alphabet = ["set", "complete last", "bread", "poll 0", "poll 1", "idle"];
    for len in 1..=4 {
        gen_exhaustive_cfgs(g, len, &alphabet, &cfgs, &format!("s{len}-"));
    }
    // a first load, then the phases again
    let pre: Vec<String> = cfgs
        .iter()
        .flat_map(|c| ["idle;complete last;idle", "bread;idle;complete last;idle"].iter().map(move |p| format!("{c};{p}")))
        .collect();
    let alphabet2 = ["set", "complete last", "bread", "poll 0", "poll 1", "mset 50", "refetch"];
    for cfgpre in &pre {
        let n = alphabet2.len();
        let len = if thorough { 4 } else { 3 };
        for code in 0..n.pow(len as u32) {
            let mut c = code;
            let mut l: Vec<String> = cfgpre.split(';').map(|s| s.to_string()).collect();
            let mut next_val = 1;
            for _ in 0..len {
                let a = alphabet2[c % n];
                c /= n;
                if a == "set" {
                    l.push(format!("set 0 {next_val}"));
                    next_val += 1;
                } else {
                    l.push(a.to_string());
                }
            }
            settle(&mut l, 3);
            g.case("t-", &l);
        }
    }
}

/// readers under the boundary that come and go: synchronous reads and awaiters (`attach s`), `bdrop` at every
/// phase (before a load, while a load holds their ids, between loads), then reloads
fn gen_readers(g: &mut Gen, thorough: bool) {
    let cfgs: Vec<String> = [
        "cfg arc 0 - none", "cfg arena 0 - d", "cfg arc-unsync 0 7 none", "cfg arena-unsync 0 - none memo",
        "cfg res 0 - none", "cfg res-arc 0 - d",
    ]
    .iter()
    .map(|s| s.to_string())
    .collect();
    let alphabet = ["set", "complete last", "bread", "attach s", "bdrop", "poll 0", "poll 1", "idle"];
    for len in 1..=3 {
        gen_exhaustive_cfgs(g, len, &alphabet, &cfgs, &format!("b{len}-"));
    }
    gen_exhaustive_cfgs(g, 4, &alphabet, &cfgs[..2], "b4-");
    if thorough {
        gen_exhaustive_cfgs(g, 4, &alphabet, &cfgs[2..], "b4-");
        gen_exhaustive_cfgs(g, 5, &alphabet, &cfgs[..1], "b5-");
    }
    // after a first load, with a reader that has read / awaited the value
    let pre: Vec<String> = cfgs
        .iter()
        .flat_map(|c| {
            ["idle;complete last;idle;bread;idle", "idle;complete last;idle;attach s;idle", "bread;attach s;idle;complete last;idle"]
                .iter()
                .map(move |p| format!("{c};{p}"))
        })
        .collect();
    let alphabet2 = ["set", "complete last", "bread", "attach s", "bdrop", "poll 0", "poll 1"];
    for cfgpre in &pre {
        let n = alphabet2.len();
        let len = if thorough { 4 } else { 3 };
        for code in 0..n.pow(len as u32) {
            let mut c = code;
            let mut l: Vec<String> = cfgpre.split(';').map(|s| s.to_string()).collect();
            let mut next_val = 1;
            for _ in 0..len {
                let a = alphabet2[c % n];
                c /= n;
                if a == "set" {
                    l.push(format!("set 0 {next_val}"));
                    next_val += 1;
                } else {
                    l.push(a.to_string());
                }
            }
            settle(&mut l, 3);
            // and one more reload after everything has settled
            l.push("set 0 9".into());
            settle(&mut l, 3);
            g.case("bt-", &l);
        }
    }
    // local and once resources
    let other: Vec<String> = ["cfg local 0 - none", "cfg local-arc 0 - d", "cfg once 3 - none", "cfg once-arc 3 - d"]
        .iter()
        .map(|s| s.to_string())
        .collect();
    let lalpha = ["set", "complete last", "bread", "attach s", "bdrop", "poll 0", "poll 1", "poll 2"];
    for len in 1..=3 {
        gen_exhaustive_cfgs(g, len, &lalpha, &other[..2], &format!("bl{len}-"));
    }
    let oalpha = ["complete last", "bread", "attach", "bdrop", "poll 0", "poll 1", "idle"];
    for len in 1..=(if thorough { 5 } else { 4 }) {
        gen_exhaustive_cfgs(g, len, &oalpha, &other[2..], &format!("bo{len}-"));
    }
}

/// readers that HOLD a guard on the value (`attach h`: a `by_ref()` guard kept across a further await; `hold`: a
/// `read_untracked()` guard kept by the harness) while sources change, reloads complete and new awaiters of every
/// future kind (`.await`, `by_ref()`, `ready()`) arrive; every case ends with `release` and a settle suffix
fn gen_guards(g: &mut Gen, thorough: bool) {
    let cfgs: Vec<String> = [
        "cfg arc 0 - none", "cfg arena 0 - none", "cfg arc-unsync 0 7 none", "cfg arena-unsync 0 - none memo",
        "cfg res 0 - none", "cfg res-arc 0 - none",
    ]
    .iter()
    .map(|s| s.to_string())
    .collect();
    let finish = |l: &mut Vec<String>| {
        settle(l, 2);
        l.push("release".into());
        settle(l, 3);
    };
    let run = |g: &mut Gen, pre: &str, alphabet: &[&str], len: usize, prefix: &str| {
        let n = alphabet.len();
        for code in 0..n.pow(len as u32) {
            let mut c = code;
            let mut l: Vec<String> = pre.split(';').map(|s| s.to_string()).collect();
            let mut next_val = 1;
            for _ in 0..len {
                let a = alphabet[c % n];
                c /= n;
                if a == "set" {
                    l.push(format!("set 0 {next_val}"));
                    next_val += 1;
                } else {
                    l.push(a.to_string());
                }
            }
            finish(&mut l);
            g.case(prefix, &l);
        }
    };
    let full = ["set", "complete last", "attach", "attach b", "attach r", "attach h", "hold", "release", "poll 0", "poll 1", "idle"];
    let core = ["set", "complete last", "attach", "attach h", "hold", "release", "poll 0", "poll 1"];
    for cfg in &cfgs {
        for len in 1..=3 {
            run(g, cfg, &full, len, &format!("g{len}-"));
        }
    }
    for cfg in &cfgs[..2] {
        run(g, cfg, &core, 4, "g4-");
    }
    // a reader already holds the value of the first load; then reloads and new awaiters
    let after = ["set", "complete last", "attach", "attach b", "attach r", "release", "poll 0", "poll 1"];
    for cfg in [&cfgs[0], &cfgs[1], &cfgs[4]] {
        for pre in ["idle;complete last;idle;attach h;idle", "idle;complete last;idle;hold", "attach h;idle;complete last;idle"] {
            run(g, &format!("{cfg};{pre}"), &after, if thorough { 5 } else { 4 }, "gh-");
        }
    }
    if thorough {
        for cfg in &cfgs[2..] {
            run(g, cfg, &core, 4, "g4-");
        }
        run(g, &cfgs[0], &core, 5, "g5-");
    }
}

/// the derived's owner is paused and resumed around source writes, refetches, completions and polls (after a first
/// load); every case ends with `resume`, a settle suffix, one more write with the owner running and a settle suffix:
/// then the derived must be on the latest inputs
fn gen_pause(g: &mut Gen, thorough: bool) {
    let cfgs = ["cfg arc 0 - none", "cfg arena 0 - none", "cfg res 0 - none", "cfg res-arc 0 - none", "cfg arena-unsync 0 - none memo"];
    let alphabet = ["set", "refetch", "complete last", "pause", "resume", "poll 0", "idle", "attach"];
    let n = alphabet.len();
    let len = if thorough { 5 } else { 4 };
    for cfg in cfgs {
        for code in 0..n.pow(len as u32) {
            let mut c = code;
            let mut l: Vec<String> = vec![cfg.to_string(), "idle".into(), "complete last".into(), "idle".into()];
            let mut next_val = 1;
            for _ in 0..len {
                let a = alphabet[c % n];
                c /= n;
                if a == "set" {
                    l.push(format!("set 0 {next_val}"));
                    next_val += 1;
                } else {
                    l.push(a.to_string());
                }
            }
            settle(&mut l, 2);
            l.push("resume".into());
            settle(&mut l, 2);
            l.push("set 0 9".into());
            settle(&mut l, 3);
            g.case("pz-", &l);
        }
    }
}

/// a SYNCHRONOUS observer (cfg effect kind `i`: an `ImmediateEffect` reading `.get()`) on every AsyncDerived-based
/// flavour: it runs inside the notification of every completion; what it saw at its last run must be the loaded value
/// (a run that never returns is caught by the watchdog: `fail sync-observer-deadlock`)
fn gen_sync_observer(g: &mut Gen, thorough: bool) {
    let mut cfgs: Vec<String> = ["arc", "arena", "arc-unsync", "arena-unsync", "res", "res-arc", "res-blocking", "local", "local-arc", "arena~a", "res~ar"]
        .iter()
        .map(|k| format!("cfg {k} 0 - i"))
        .collect();
    cfgs.push("cfg arena 0 - i memo".into());
    cfgs.push("cfg arc 0 7 i".into());
    let alphabet = ["set", "refetch", "complete last", "attach", "poll 0", "poll 1", "idle"];
    for len in 1..=(if thorough { 4 } else { 3 }) {
        gen_exhaustive_cfgs(g, len, &alphabet, &cfgs, &format!("so{len}-"));
    }
    let loaded: Vec<String> = cfgs.iter().map(|c| format!("{c};idle;complete last;idle")).collect();
    let n = alphabet.len();
    for cfgpre in &loaded {
        for code in 0..n.pow(3) {
            let mut c = code;
            let mut l: Vec<String> = cfgpre.split(';').map(|s| s.to_string()).collect();
            let mut next_val = 1;
            for _ in 0..3 {
                let a = alphabet[c % n];
                c /= n;
                if a == "set" {
                    l.push(format!("set 0 {next_val}"));
                    next_val += 1;
                } else {
                    l.push(a.to_string());
                }
            }
            settle(&mut l, 3);
            g.case("sol-", &l);
        }
    }
}

/// the derived's function writes its own source during its first synchronous run (guarded: only while the value is
/// below 3), with the initial future ready at once (`!!`) and pending (`!`); then anything
fn gen_self_write(g: &mut Gen, thorough: bool) {
    let mut cfgs: Vec<String> = vec![];
    for k in KINDS {
        for m in ["!!3", "!3"] {
            for src in [1, 5] {
                cfgs.push(format!("cfg {k}{m} {src} - none"));
            }
        }
    }
    let alphabet = ["set", "refetch", "complete last", "attach", "poll 0", "idle"];
    for len in 1..=(if thorough { 4 } else { 3 }) {
        gen_exhaustive_cfgs(g, len, &alphabet, &cfgs, &format!("sw{len}-"));
    }
}

/// dependents that PEEK at the value (`by_ref()` / `.await` polled once with `now_or_never()` and dropped) during a
/// first load: they must run again when the load has finished
fn gen_peek(g: &mut Gen, thorough: bool) {
    let mut cfgs: Vec<String> = vec![];
    for k in ["arc", "arena", "arc-unsync", "res", "res-arc", "arena~a", "res~ar"] {
        for e in ["dp", "dq"] {
            cfgs.push(format!("cfg {k} 0 - {e}"));
        }
    }
    let alphabet = ["complete last", "poll 0", "poll 1", "poll 2", "idle", "attach"];
    for len in 1..=(if thorough { 5 } else { 4 }) {
        gen_exhaustive_cfgs(g, len, &alphabet, &cfgs, &format!("pk{len}-"));
    }
}

/// every conversion between the `Arc…` and the arena handle of a resource / async derived (`From` / `into()`), and
/// clones: reads, awaits, `refetch` and source writes THROUGH the converted handle
fn gen_conversions(g: &mut Gen, thorough: bool) {
    let res: Vec<String> = ["res~a", "res~ar", "res-arc~r", "res-arc~rc", "res-blocking~a", "res~c"]
        .iter()
        .enumerate()
        .map(|(i, k)| format!("cfg {k} 0 - {}", ["none", "d"][i % 2]))
        .collect();
    let local: Vec<String> = ["local~a", "local-arc~r", "local~ar", "local-arc~rc", "local-arc~ra"]
        .iter()
        .enumerate()
        .map(|(i, k)| format!("cfg {k} 0 - {}", ["none", "d"][i % 2]))
        .collect();
    let plain: Vec<String> = ["arc~r", "arena~a", "arena~ac", "arc-unsync~r", "arena-unsync~a", "arc~ra"]
        .iter()
        .enumerate()
        .map(|(i, k)| format!("cfg {k} 0 - {}", ["none", "d"][i % 2]))
        .collect();
    let ralpha = ["set", "refetch", "complete last", "attach", "attach b", "bread", "poll 0", "idle"];
    let lalpha = ["set", "refetch", "complete last", "attach", "bread", "poll 0", "poll 1", "idle"];
    let palpha = ["set", "refetch", "mset 50", "complete last", "attach", "attach r", "poll 0", "idle"];
    for (cfgs, alpha, p) in [(&res, &ralpha, "cr"), (&local, &lalpha, "cl"), (&plain, &palpha, "cp")] {
        for len in 1..=3 {
            gen_exhaustive_cfgs(g, len, alpha, cfgs, &format!("{p}{len}-"));
        }
        if thorough {
            gen_exhaustive_cfgs(g, 4, alpha, cfgs, &format!("{p}4-"));
        }
        // after a first load
        let loaded: Vec<String> = cfgs.iter().map(|c| format!("{c};idle;complete last;idle")).collect();
        for cfgpre in &loaded {
            let n = alpha.len();
            for code in 0..n.pow(3) {
                let mut c = code;
                let mut l: Vec<String> = cfgpre.split(';').map(|s| s.to_string()).collect();
                let mut next_val = 1;
                for _ in 0..3 {
                    let a = alpha[c % n];
                    c /= n;
                    if a == "set" {
                        l.push(format!("set 0 {next_val}"));
                        next_val += 1;
                    } else {
                        l.push(a.to_string());
                    }
                }
                settle(&mut l, 3);
                g.case(&format!("{p}l-"), &l);
            }
        }
    }
}

/// fetchers with conditional / indexed reads placed in the closure body, before and after the first await, so
/// that an input is first read in a second or later run: every write sequence that flips the flag / index and
/// then writes the newly read input, interleaved with completions and polls
fn gen_dynamic(g: &mut Gen, thorough: bool) {
    // (sources, fetcher): flag = source 0
    let progs: Vec<(&str, &str)> = vec![
        ("0,5", "R0.C1/-/-"),
        ("0,5", "-/R0.C1/-"),
        ("0,5", "R0/-/C1"),
        ("0,5", "-/R0/C1"),
        ("0,5", "-/-/R0.C1"),
        ("0,5", "R0/C1/-"),
        ("1,5", "R0/-/C1"),
        ("0,5,6", "R0.X/-/-"),
        ("0,5,6", "-/R0.X/-"),
        ("0,5,6", "R0/-/X"),
        ("0,5,6", "-/-/R0.X"),
        ("0,5,6", "R0/X/C2"),
    ];
    let mut cfgs: Vec<String> = vec![];
    for (i, (srcs, fx)) in progs.iter().enumerate() {
        cfgs.push(format!("cfg {} {} - {} sig {}", KINDS[i % 4], srcs, ["none", "d"][i % 2], fx));
    }
    // first load done, then: flip the flag, write the extra inputs, complete, poll
    let alphabet = ["set 0 1", "set 0 2", "set 0 0", "set 1 7", "set 2 8", "complete last", "idle"];
    let n = alphabet.len();
    let len = if thorough { 5 } else { 4 };
    for cfg in &cfgs {
        for pre in ["", "idle;complete last;idle"] {
            for code in 0..n.pow(len as u32) {
                let mut c = code;
                let mut l: Vec<String> = std::iter::once(cfg.clone())
                    .chain(pre.split(';').filter(|p| !p.is_empty()).map(|s| s.to_string()))
                    .collect();
                let mut ok = true;
                for _ in 0..len {
                    let a = alphabet[c % n];
                    c /= n;
                    if a == "set 2 8" && !cfg.contains("0,5,6") {
                        ok = false;
                        break;
                    }
                    l.push(a.to_string());
                }
                if !ok {
                    continue;
                }
                // the new input is written once more after everything has settled
                settle(&mut l, 2);
                l.push("set 1 9".into());
                settle(&mut l, 2);
                g.case("dy-", &l);
            }
        }
    }
    // with explicit polls of the derived's task and an awaiter / the boundary in the game
    let alphabet2 = ["set 0 1", "set 0 0", "set 1 7", "complete last", "poll 0", "poll 1", "attach", "bread"];
    for cfg in cfgs.iter().take(7) {
        let n = alphabet2.len();
        for code in 0..n.pow(3) {
            let mut c = code;
            let mut l = vec![cfg.clone(), "idle".into(), "complete last".into(), "idle".into()];
            for _ in 0..3 {
                l.push(alphabet2[c % n].to_string());
                c /= n;
            }
            settle(&mut l, 2);
            l.push("set 1 9".into());
            settle(&mut l, 2);
            g.case("dz-", &l);
        }
    }
}

/// the real `leptos_server` resources: refetch, source writes and their interleavings with executor progress
fn gen_resources(g: &mut Gen, thorough: bool) {
    let mut cfgs: Vec<String> = vec![];
    for (i, eff) in EFFS.iter().enumerate() {
        cfgs.push(format!("cfg {} 0 - {}", ["res", "res-arc", "res-blocking", "res"][i], eff));
    }
    let alphabet = ["set", "refetch", "complete last", "poll 0", "poll 1", "idle", "mset 50", "attach"];
    for len in 1..=3 {
        gen_exhaustive_cfgs(g, len, &alphabet, &cfgs, &format!("q{len}-"));
    }
    let core = ["set", "refetch", "complete last", "poll 0", "idle"];
    gen_exhaustive_cfgs(g, 4, &core, &cfgs, "q4-");
    gen_exhaustive_cfgs(g, 5, &core, &cfgs[..2], "q5-");
    if thorough {
        gen_exhaustive_cfgs(g, 6, &core, &cfgs[..2], "q6-");
        gen_exhaustive_cfgs(g, 4, &alphabet, &cfgs, "q4a-");
    }
    // after a first load
    let loaded: Vec<String> = cfgs.iter().map(|c| format!("{c};idle;complete last;idle")).collect();
    for cfgpre in &loaded {
        let n = core.len();
        for code in 0..n.pow(4) {
            let mut c = code;
            let mut l: Vec<String> = cfgpre.split(';').map(|s| s.to_string()).collect();
            let mut next_val = 1;
            for _ in 0..4 {
                let a = core[c % n];
                c /= n;
                if a == "set" {
                    l.push(format!("set 0 {next_val}"));
                    next_val += 1;
                } else {
                    l.push(a.to_string());
                }
            }
            settle(&mut l, 3);
            g.case("ql-", &l);
        }
    }
    // local resources: every fetch waits for its tick task (`t0`, `t1`, ..: extra entries in the ready list)
    let local: Vec<String> = ["cfg local 0 - none", "cfg local-arc 0 - d", "cfg local 0 - dm", "cfg local-arc 0 - md"]
        .iter()
        .map(|s| s.to_string())
        .collect();
    let lalpha = ["set", "refetch", "complete last", "attach", "bread", "poll 0", "poll 1", "poll 2"];
    for len in 1..=3 {
        gen_exhaustive_cfgs(g, len, &lalpha, &local, &format!("l{len}-"));
    }
    let lcore = ["set", "complete last", "poll 0", "poll 1", "poll 2"];
    gen_exhaustive_cfgs(g, 4, &lcore, &local, "l4-");
    gen_exhaustive_cfgs(g, 5, &lcore, &local[..2], "l5-");
    if thorough {
        gen_exhaustive_cfgs(g, 4, &lalpha, &local, "l4a-");
        gen_exhaustive_cfgs(g, 6, &lcore, &local[..2], "l6-");
    }
    // once-resources
    let once: Vec<String> = ["cfg once 3 - none", "cfg once-arc 3 - d", "cfg once 1,2 - dm", "cfg once-arc 2 - md"]
        .iter()
        .map(|s| s.to_string())
        .collect();
    let oalpha = ["complete last", "attach", "attach r", "bread", "poll 0", "poll 1", "poll 2", "idle"];
    for len in 1..=(if thorough { 4 } else { 3 }) {
        gen_exhaustive_cfgs(g, len, &oalpha, &once, &format!("o{len}-"));
    }
}

fn gen_random(g: &mut Gen, rng: &mut Rng) {
    let k = rng.range(1, 2);
    let srcs: Vec<String> = (0..k).map(|_| rng.below(4).to_string()).collect();
    let init = if rng.chance(1, 5) { rng.range(40, 49).to_string() } else { "-".into() };
    // at least half of the cases outside the known-finding class (which needs a memo-reading effect)
    let eff = match rng.below(10) {
        0..=2 => "none",
        3..=5 => "d",
        6..=7 => "dm",
        _ => "md",
    };
    let via = if rng.chance(2, 5) { "memo" } else { "sig" };
    let flavour = rng.below(12);
    let once = flavour == 9;
    let local = flavour >= 10;
    let mut l = vec![match flavour {
        0..=5 if k == 2 && rng.chance(1, 3) => format!(
            "cfg {} {} {} {} sig {}",
            rng.pick(&KINDS),
            srcs.join(","),
            init,
            eff,
            rng.pick(&["R0.C1/-/-", "-/R0.C1/-", "R0/-/C1", "-/-/R0.C1", "R0/-/X", "-/R0.X/-", "R1/-/R0", "R0.R1/-/C1"])
        ),
        0..=5 => format!("cfg {} {} {} {} {}", rng.pick(&KINDS), srcs.join(","), init, eff, via),
        6..=8 => format!("cfg {} {} - {}", rng.pick(&["res", "res-arc", "res-blocking"]), srcs.join(","), eff),
        9 => format!("cfg {} {} - {}", rng.pick(&["once", "once-arc"]), srcs.join(","), eff),
        _ => format!("cfg {} {} - {}", rng.pick(&["local", "local-arc"]), srcs.join(","), eff),
    }];
    let len = rng.range(3, 30);
    let poll_bias = rng.range(0, 8);
    let mut naw = 0;
    for _ in 0..len {
        match rng.below(20 + 2 * poll_bias) {
            0..=7 if once => l.push((*rng.pick(&["bread", "attach", "complete last", "poll 0", "bdrop"])).to_string()),
            0..=3 => l.push(format!("set {} {}", rng.below(k), rng.below(10))),
            4 => l.push((*rng.pick(&["bread", "bread", "bdrop"])).to_string()),
            5 => l.push("refetch".into()),
            6 | 7 if local => l.push("complete last".into()),
            6 | 7 => l.push(format!("mset {}", rng.range(50, 59))),
            8..=11 => l.push("complete last".into()),
            12 => l.push(format!("complete {}", rng.below(5))),
            13 | 14 => {
                if naw < 4 {
                    naw += 1;
                    l.push(format!(
                        "attach {}",
                        if local {
                            *rng.pick(&["v", "s"])
                        } else if once {
                            *rng.pick(&["v", "r"])
                        } else {
                            *rng.pick(&["v", "v", "r", "b", "s"])
                        }
                    ));
                }
            }
            15 | 16 => l.push("idle".into()),
            17 => l.push("get".into()),
            _ => l.push(format!("poll {}", rng.below(6))),
        }
    }
    if rng.chance(5, 6) {
        settle(&mut l, 3);
    }
    g.case("r", &l);
}

fn generate(seed: u64, n: usize, path: &str, tier: &str) -> std::io::Result<()> {
    let mut g = Gen { out: std::io::BufWriter::new(std::fs::File::create(path)?), cases: 0 };
    let thorough = tier == "thorough";
    let alphabet = ["set", "refetch", "mset 50", "complete last", "attach", "poll 0", "poll 1", "poll 2"];
    for len in 1..=3 {
        gen_exhaustive(&mut g, len, &alphabet, &EFFS, &format!("x{len}-"));
    }
    // length 4/5 without the ops that matter least for the interleaving question
    let core = ["set", "complete last", "mset 50", "poll 0", "poll 1"];
    gen_exhaustive(&mut g, 4, &core, &EFFS, "y4-");
    gen_two_writes(&mut g);
    gen_suspense(&mut g, thorough);
    gen_resources(&mut g, thorough);
    gen_dynamic(&mut g, thorough);
    gen_readers(&mut g, thorough);
    gen_guards(&mut g, thorough);
    gen_conversions(&mut g, thorough);
    gen_pause(&mut g, thorough);
    gen_peek(&mut g, thorough);
    gen_sync_observer(&mut g, thorough);
    gen_self_write(&mut g, thorough);
    if thorough {
        gen_exhaustive(&mut g, 4, &alphabet, &EFFS, "x4-");
        gen_exhaustive(&mut g, 5, &core, &EFFS, "y5-");
        gen_exhaustive(&mut g, 6, &core, &["dm", "md"], "y6-");
    }
    let mut rng = Rng::new(seed);
    for _ in 0..n {
        gen_random(&mut g, &mut rng);
    }
    g.out.flush()
}

fn main() {
    match parse_cli() {
        Cmd::Gen { seed, n, ops, tier } => generate(seed, n, &ops, &tier).expect("gen"),
        Cmd::Run { ops, out } => {
            quiet_panics();
            sched::install();
            run(&ops, &out).expect("run")
        }
    }
}
