//! C14 correspondence harness: the REAL `leptos_router` matchers from /repo's working tree.
//!
//! Route definitions arrive as data and are realised with the real types:
//! `StaticSegment` / `ParamSegment` / `OptionalParamSegment` / `WildcardSegment`, the real
//! macro-generated tuple impls of `PossibleRouteMatch` (arity 0..=6, arbitrarily nested; every
//! field is a thin `Dyn` wrapper that only forwards to the wrapped real value), `NestedRoute`,
//! the real sibling containers (`(A,)`, `(A,B)`, `(A,B,C)`, `(A,B,C,D)`, `StaticVec`),
//! `AnyNestedRoute` for type erasure, `RouteDefs::{new,new_with_base,match_route,generate_routes}`,
//! `ExpandOptionals::expand_optionals`, `StaticPath::into_paths`.
//!
//! Op grammar (prefix notation, `,`-separated tokens, strings as hex, `-` = empty):
//!   case <name>
//!   routes <base> <top>        base: `~` = none | hex ; top := (T<k>|V<k>),<route>*k
//!        route := (R<k>|V<k>)[<mode>],<seg>,<route>*k   R: children as a tuple (k<=4), V: as StaticVec, k=0: leaf
//!        mode  := p | i | a | s | g   `.ssr_mode(..)` on the route before `.child(..)`: PartiallyBlocked, InOrder, Async,
//!                 Static(StaticRoute with prerender_params), Static(.. plus a regenerate fn); absent = OutOfOrder (the default)
//!        seg   := s<hex> | p<name> | o<name> | w<name> | t<n>,<seg>*n      (n <= 6)
//!     -> flat <routes> exp <expanded routes> ## verdict      (real generate_routes / expand_optionals)
//!        every flat route carries `@<mode>~<regen>~<methods>`: mode o|p|i|a|s<id> (id = preorder index of the route
//!        whose StaticRoute it is, read back through the real `to_prerendered_params`), regen = ids of the
//!        regeneration fns in order (`-` = none; each fn is called and reports its id), methods = sorted initials
//!   match <path>   -> none | panic | m <pos>:<matched>/<pos>:<matched>... <params> ## verdict
//!   seg <seg> <path> -> none | panic | some <matched> <remaining> <params> ## verdict   (PossibleRouteMatch::test)
//!   build <i> <vals> -> <path> <match result> ## verdict   (StaticPath::into_paths on expanded flat route i, then match_route;
//!        when the generated route is Static and optional-free: RouteListing::new(..).into_static_paths() with its own StaticRoute)
//! <params> = `-` or name=hex,name=hex (in the router's order); <routes> = r|r.. ; r = `_` or seg.seg..
//!
//! Implementation-side oracle (independent of the Lean model): a from-scratch segment-wise matcher over
//! the REAL `generate_routes()` + `expand_optionals()` output, with the joining rule of
//! integrations/axum `to_axum_path`.  Strict = the registered pattern as is; lenient = one trailing `/`
//! of the path ignored.  Required: strict match => router matches; router matches => lenient match of
//! the winning definition with the same params; no earlier definition has a strict match.
use hx_common::*;
use leptos_router::{
    any_nested_match::AnyNestedMatch,
    any_nested_route::{AnyNestedRoute, IntoAnyNestedRoute},
    params::ParamsMap,
    static_routes::{RegenerationFn, StaticParamsMap, StaticPath, StaticRoute},
    ExpandOptionals, GeneratedRouteData, MatchInterface, MatchNestedRoutes, MatchParams, Method, NestedRoute,
    OptionalParamSegment, ParamSegment, PartialPathMatch, PathSegment, PossibleRouteMatch, RouteDefs,
    RouteListing, RouteMatchId, SsrMode, StaticSegment, WildcardSegment,
};
use std::cell::RefCell;
use std::collections::HashMap;
use std::fmt;
use std::panic::{catch_unwind, AssertUnwindSafe};
use std::sync::Arc;
use tachys::view::iterators::StaticVec;

// ------------------------------------------------------------------ route data

#[derive(Clone, Debug, PartialEq)]
enum SegT {
    St(String),
    Param(String),
    Opt(String),
    Splat(String),
    Tup(Vec<SegT>),
}

#[derive(Clone, Debug)]
struct RouteT {
    segs: SegT,
    vec_kind: bool,
    /// 'o' (default) | 'p' | 'i' | 'a' | 's' | 'g'
    mode: char,
    children: Vec<RouteT>,
}

#[derive(Clone, Debug)]
struct DefsT {
    base: Option<String>,
    vec_kind: bool,
    tops: Vec<RouteT>,
}

fn name_ok(n: &str) -> bool {
    !n.is_empty() && n.bytes().all(|b| b.is_ascii_lowercase() || b.is_ascii_digit())
}

fn parse_seg<'a>(t: &mut std::slice::Iter<'a, &'a str>) -> Option<SegT> {
    let tok = *t.next()?;
    let (k, rest) = tok.split_at(tok.char_indices().nth(1).map(|x| x.0).unwrap_or(tok.len()));
    match k {
        "s" => Some(SegT::St(unhex_str(rest)?)),
        "p" if name_ok(rest) => Some(SegT::Param(rest.into())),
        "o" if name_ok(rest) => Some(SegT::Opt(rest.into())),
        "w" if name_ok(rest) => Some(SegT::Splat(rest.into())),
        "t" => {
            let n: usize = rest.parse().ok()?;
            if n > 6 || rest.len() != 1 {
                return None;
            }
            let mut v = vec![];
            for _ in 0..n {
                v.push(parse_seg(t)?);
            }
            Some(SegT::Tup(v))
        }
        _ => None,
    }
}

fn parse_route<'a>(t: &mut std::slice::Iter<'a, &'a str>) -> Option<RouteT> {
    let tok = *t.next()?;
    let (k, rest) = tok.split_at(1.min(tok.len()));
    let vec_kind = match k {
        "R" => false,
        "V" => true,
        _ => return None,
    };
    let mut rc = rest.chars();
    let n = rc.next()?.to_digit(10)? as usize;
    let mode = match rc.next() {
        None => 'o',
        Some(c @ ('p' | 'i' | 'a' | 's' | 'g')) => c,
        Some(_) => return None,
    };
    if rc.next().is_some() || (!vec_kind && n > 4) || n > 8 {
        return None;
    }
    let segs = parse_seg(t)?;
    let mut children = vec![];
    for _ in 0..n {
        children.push(parse_route(t)?);
    }
    Some(RouteT { segs, vec_kind, mode, children })
}

fn parse_defs(base: &str, tree: &str) -> Option<DefsT> {
    let base = if base == "~" { None } else { Some(unhex_str(base)?) };
    let toks: Vec<&str> = tree.split(',').collect();
    let mut it = toks.iter();
    let tok = *it.next()?;
    let (k, rest) = tok.split_at(1.min(tok.len()));
    let vec_kind = match k {
        "T" => false,
        "V" => true,
        _ => return None,
    };
    let n: usize = rest.parse().ok()?;
    if rest.len() != 1 || n == 0 || (!vec_kind && n > 4) || n > 8 {
        return None;
    }
    let mut tops = vec![];
    for _ in 0..n {
        tops.push(parse_route(&mut it)?);
    }
    if it.next().is_some() {
        return None;
    }
    Some(DefsT { base, vec_kind, tops })
}

fn show_seg(s: &SegT, out: &mut Vec<String>) {
    match s {
        SegT::St(t) => out.push(format!("s{}", hex(t.as_bytes()))),
        SegT::Param(n) => out.push(format!("p{n}")),
        SegT::Opt(n) => out.push(format!("o{n}")),
        SegT::Splat(n) => out.push(format!("w{n}")),
        SegT::Tup(v) => {
            out.push(format!("t{}", v.len()));
            for x in v {
                show_seg(x, out)
            }
        }
    }
}

fn show_route(r: &RouteT, out: &mut Vec<String>) {
    let m = if r.mode == 'o' { String::new() } else { r.mode.to_string() };
    out.push(format!("{}{}{m}", if r.vec_kind { "V" } else { "R" }, r.children.len()));
    show_seg(&r.segs, out);
    for c in &r.children {
        show_route(c, out)
    }
}

fn show_defs(d: &DefsT) -> String {
    let mut out = vec![format!("{}{}", if d.vec_kind { "V" } else { "T" }, d.tops.len())];
    for r in &d.tops {
        show_route(r, &mut out)
    }
    format!(
        "{} {}",
        match &d.base {
            None => "~".to_string(),
            Some(b) => hex(b.as_bytes()),
        },
        out.join(",")
    )
}

// ------------------------------------------------------------------ realisation with the real types

/// forwards to the wrapped real matcher; exists only because the tuple impls want `Self: Debug`
#[derive(Clone)]
struct Dyn(Arc<dyn PossibleRouteMatch + Send + Sync>);
impl fmt::Debug for Dyn {
    fn fmt(&self, f: &mut fmt::Formatter<'_>) -> fmt::Result {
        f.write_str("Dyn")
    }
}
impl PossibleRouteMatch for Dyn {
    fn optional(&self) -> bool {
        self.0.optional()
    }
    fn test<'a>(&self, path: &'a str) -> Option<PartialPathMatch<'a>> {
        self.0.test(path)
    }
    fn generate_path(&self, path: &mut Vec<PathSegment>) {
        self.0.generate_path(path)
    }
}

thread_local! {
    static INTERN: RefCell<HashMap<String, &'static str>> = RefCell::new(HashMap::new());
}
fn leak(s: &str) -> &'static str {
    INTERN.with(|m| {
        let mut m = m.borrow_mut();
        if let Some(x) = m.get(s) {
            return *x;
        }
        let l: &'static str = Box::leak(s.to_string().into_boxed_str());
        m.insert(s.to_string(), l);
        l
    })
}

fn realise_seg(s: &SegT) -> Dyn {
    match s {
        SegT::St(t) => Dyn(Arc::new(StaticSegment(leak(t)))),
        SegT::Param(n) => Dyn(Arc::new(ParamSegment(leak(n)))),
        SegT::Opt(n) => Dyn(Arc::new(OptionalParamSegment(leak(n)))),
        SegT::Splat(n) => Dyn(Arc::new(WildcardSegment(leak(n)))),
        SegT::Tup(v) => {
            let mut f = v.iter().map(realise_seg);
            macro_rules! nx {
                () => {
                    f.next().unwrap()
                };
            }
            match v.len() {
                0 => Dyn(Arc::new(())),
                1 => Dyn(Arc::new((nx!(),))),
                2 => Dyn(Arc::new((nx!(), nx!()))),
                3 => Dyn(Arc::new((nx!(), nx!(), nx!()))),
                4 => Dyn(Arc::new((nx!(), nx!(), nx!(), nx!()))),
                5 => Dyn(Arc::new((nx!(), nx!(), nx!(), nx!(), nx!()))),
                6 => Dyn(Arc::new((nx!(), nx!(), nx!(), nx!(), nx!(), nx!()))),
                _ => unreachable!("arity checked by the parser"),
            }
        }
    }
}

fn route_id(id: RouteMatchId) -> u16 {
    // RouteMatchId's field is crate-private; its derived Debug prints `RouteMatchId(n)`
    let s = format!("{id:?}");
    s.trim_start_matches("RouteMatchId(").trim_end_matches(')').parse().expect("RouteMatchId debug format")
}

struct Realised {
    defs: RouteDefs<AnyNestedRoute>,
    /// every top-level definition on its own (for per-definition flat routes)
    tops: Vec<AnyNestedRoute>,
    /// route id -> index among its siblings
    pos: HashMap<u16, usize>,
}

macro_rules! pack {
    ($kids:expr, $vec_kind:expr, $k:expr) => {{
        let mut kids: Vec<AnyNestedRoute> = $kids;
        let k = $k;
        if $vec_kind {
            k(StaticVec::from(kids).into_any_nested_route())
        } else {
            match kids.len() {
                1 => {
                    let a = kids.pop().unwrap();
                    k((a,).into_any_nested_route())
                }
                2 => {
                    let b = kids.pop().unwrap();
                    let a = kids.pop().unwrap();
                    k((a, b).into_any_nested_route())
                }
                3 => {
                    let c = kids.pop().unwrap();
                    let b = kids.pop().unwrap();
                    let a = kids.pop().unwrap();
                    k((a, b, c).into_any_nested_route())
                }
                4 => {
                    let d = kids.pop().unwrap();
                    let c = kids.pop().unwrap();
                    let b = kids.pop().unwrap();
                    let a = kids.pop().unwrap();
                    k((a, b, c, d).into_any_nested_route())
                }
                _ => unreachable!("arity checked by the parser"),
            }
        }
    }};
}

thread_local! {
    /// the values the prerender-params closures of the Static routes hand out (set by `build`)
    static BUILD_VALS: RefCell<Vec<(String, Vec<String>)>> = const { RefCell::new(Vec::new()) };
    /// ids reported by the regeneration fns when called
    static REGEN_LOG: RefCell<Vec<usize>> = const { RefCell::new(Vec::new()) };
}

/// The real `SsrMode` for a mode letter; a Static route's `StaticRoute` is tagged with the route's
/// preorder index so that its identity can be read back from the generated table.
fn realise_mode(c: char, seq: usize) -> SsrMode {
    match c {
        'p' => SsrMode::PartiallyBlocked,
        'i' => SsrMode::InOrder,
        'a' => SsrMode::Async,
        's' | 'g' => {
            let mut sr = StaticRoute::new().prerender_params(move || async move {
                let mut m = StaticParamsMap::new();
                BUILD_VALS.with(|v| {
                    for (k, x) in v.borrow().iter() {
                        m.insert(k, x.clone());
                    }
                });
                m.insert("__id", vec![seq.to_string()]);
                m
            });
            if c == 'g' {
                sr = sr.regenerate(move |_| {
                    REGEN_LOG.with(|l| l.borrow_mut().push(seq));
                    futures::stream::empty::<()>()
                });
            }
            SsrMode::Static(sr)
        }
        _ => SsrMode::OutOfOrder,
    }
}

fn realise_route(
    r: &RouteT,
    my_pos: usize,
    next_id: &mut u16,
    seq: &mut usize,
    pos: &mut HashMap<u16, usize>,
) -> AnyNestedRoute {
    // NestedRoute::new draws the id: parent before children => ids in preorder
    let me = NestedRoute::new(realise_seg(&r.segs), || ());
    // the default is left untouched when no mode is given
    let me = if r.mode == 'o' { me } else { me.ssr_mode(realise_mode(r.mode, *seq)) };
    pos.insert(*next_id, my_pos);
    *next_id = next_id.wrapping_add(1);
    *seq += 1;
    if r.children.is_empty() {
        me.into_any_nested_route()
    } else {
        let kids: Vec<AnyNestedRoute> =
            r.children.iter().enumerate().map(|(i, c)| realise_route(c, i, next_id, seq, pos)).collect();
        pack!(kids, r.vec_kind, |c: AnyNestedRoute| me.child(c).into_any_nested_route())
    }
}

fn realise(d: &DefsT) -> Realised {
    let mut pos = HashMap::new();
    let mut next_id = route_id(RouteMatchId::new_from_route_id()).wrapping_add(1);
    let mut seq = 0usize;
    let tops: Vec<AnyNestedRoute> =
        d.tops.iter().enumerate().map(|(i, r)| realise_route(r, i, &mut next_id, &mut seq, &mut pos)).collect();
    let all: AnyNestedRoute = pack!(tops.clone(), d.vec_kind, |c: AnyNestedRoute| c);
    let defs = match &d.base {
        None => RouteDefs::new(all),
        Some(b) => RouteDefs::new_with_base(all, b.clone()),
    };
    Realised { defs, tops, pos }
}

// ------------------------------------------------------------------ observables

fn show_pseg(s: &PathSegment) -> String {
    match s {
        PathSegment::Unit => "u".into(),
        PathSegment::Static(t) => format!("s{}", hex(t.as_bytes())),
        PathSegment::Param(n) => format!("p{n}"),
        PathSegment::OptionalParam(n) => format!("o{n}"),
        PathSegment::Splat(n) => format!("w{n}"),
    }
}

fn show_flat(rs: &[Vec<PathSegment>]) -> String {
    if rs.is_empty() {
        return "!".into();
    }
    rs.iter()
        .map(|r| if r.is_empty() { "_".to_string() } else { r.iter().map(show_pseg).collect::<Vec<_>>().join(".") })
        .collect::<Vec<_>>()
        .join("|")
}

fn show_mode(m: &SsrMode) -> String {
    match m {
        SsrMode::OutOfOrder => "o".into(),
        SsrMode::PartiallyBlocked => "p".into(),
        SsrMode::InOrder => "i".into(),
        SsrMode::Async => "a".into(),
        SsrMode::Static(sr) => {
            let id = futures::executor::block_on(sr.to_prerendered_params())
                .and_then(|m| m.get("__id").and_then(|v| v.first().cloned()))
                .unwrap_or_else(|| "?".into());
            format!("s{id}")
        }
    }
}

fn show_regen(fns: &[RegenerationFn]) -> String {
    REGEN_LOG.with(|l| l.borrow_mut().clear());
    for f in fns {
        let _ = f(&ParamsMap::new());
    }
    let ids: Vec<String> = REGEN_LOG.with(|l| l.borrow().iter().map(|i| i.to_string()).collect());
    if ids.len() != fns.len() {
        return "?".into();
    }
    if ids.is_empty() {
        "-".into()
    } else {
        ids.join(".")
    }
}

fn show_methods(ms: &std::collections::HashSet<Method>) -> String {
    let mut v: Vec<&str> = ms
        .iter()
        .map(|m| match m {
            Method::Get => "G",
            Method::Post => "P",
            Method::Put => "U",
            Method::Delete => "D",
            Method::Patch => "A",
        })
        .collect();
    v.sort();
    if v.is_empty() {
        "-".into()
    } else {
        v.concat()
    }
}

fn show_segs(r: &[PathSegment]) -> String {
    if r.is_empty() {
        "_".to_string()
    } else {
        r.iter().map(show_pseg).collect::<Vec<_>>().join(".")
    }
}

fn show_gen(gs: &[GeneratedRouteData]) -> String {
    if gs.is_empty() {
        return "!".into();
    }
    gs.iter()
        .map(|g| {
            format!(
                "{}@{}~{}~{}",
                show_segs(&g.segments),
                show_mode(&g.ssr_mode),
                show_regen(&g.regenerate),
                show_methods(&g.methods)
            )
        })
        .collect::<Vec<_>>()
        .join("|")
}

/// Independent expectation for the generated table, straight from the definition tree: every
/// root-to-leaf chain is one entry; segments are concatenated, the mode is the first strictest one
/// on the chain, the regeneration fns are those of the chain's `g` routes in order.
fn expected_gen(d: &DefsT) -> String {
    fn flat_seg(s: &SegT, out: &mut Vec<String>) {
        match s {
            SegT::St(t) => out.push(format!("s{}", hex(t.as_bytes()))),
            SegT::Param(n) => out.push(format!("p{n}")),
            SegT::Opt(n) => out.push(format!("o{n}")),
            SegT::Splat(n) => out.push(format!("w{n}")),
            SegT::Tup(l) => l.iter().for_each(|x| flat_seg(x, out)),
        }
    }
    fn rank(c: char) -> usize {
        match c {
            'p' => 1,
            'i' => 2,
            'a' => 3,
            's' | 'g' => 4,
            _ => 0,
        }
    }
    fn go(r: &RouteT, seq: &mut usize, chain: &mut Vec<(Vec<String>, char, usize)>, out: &mut Vec<String>) {
        let mut segs = vec![];
        flat_seg(&r.segs, &mut segs);
        chain.push((segs, r.mode, *seq));
        *seq += 1;
        if r.children.is_empty() {
            let all: Vec<String> = chain.iter().flat_map(|c| c.0.clone()).collect();
            let mut best = (chain[0].1, chain[0].2);
            for c in chain.iter() {
                if rank(c.1) > rank(best.0) {
                    best = (c.1, c.2)
                }
            }
            let mode = if rank(best.0) == 4 { format!("s{}", best.1) } else { best.0.to_string() };
            let regen: Vec<String> = chain.iter().filter(|c| c.1 == 'g').map(|c| c.2.to_string()).collect();
            out.push(format!(
                "{}@{mode}~{}~G",
                if all.is_empty() { "_".into() } else { all.join(".") },
                if regen.is_empty() { "-".into() } else { regen.join(".") }
            ));
        } else {
            for c in &r.children {
                go(c, seq, chain, out)
            }
        }
        chain.pop();
    }
    let mut out = vec![];
    let mut seq = 0;
    for t in &d.tops {
        go(t, &mut seq, &mut vec![], &mut out)
    }
    if out.is_empty() {
        "!".into()
    } else {
        out.join("|")
    }
}

fn show_params(p: &[(String, String)]) -> String {
    if p.is_empty() {
        return "-".into();
    }
    p.iter().map(|(k, v)| format!("{k}={}", hex(v.as_bytes()))).collect::<Vec<_>>().join(",")
}

struct Got {
    chain: Vec<(usize, String)>,
    params: Vec<(String, String)>,
}

fn walk(m: AnyNestedMatch, pos: &HashMap<u16, usize>) -> Got {
    let params: Vec<(String, String)> = m.to_params().into_iter().map(|(k, v)| (k.to_string(), v)).collect();
    let mut chain = vec![];
    let mut cur = Some(m);
    while let Some(m) = cur {
        let id = route_id(m.as_id());
        chain.push((*pos.get(&id).unwrap_or(&999), m.as_matched().to_string()));
        let (_view, child) = m.into_view_and_child();
        cur = child;
    }
    Got { chain, params }
}

enum Outcome {
    Panic,
    None,
    Some(Got),
}

fn run_match(r: &Realised, path: &str) -> Outcome {
    match catch_unwind(AssertUnwindSafe(|| r.defs.match_route(path).map(|m| walk(m, &r.pos)))) {
        Err(_) => Outcome::Panic,
        Ok(None) => Outcome::None,
        Ok(Some(g)) => Outcome::Some(g),
    }
}

fn show_outcome(o: &Outcome) -> String {
    match o {
        Outcome::Panic => "panic".into(),
        Outcome::None => "none".into(),
        Outcome::Some(g) => format!(
            "m {} {}",
            g.chain.iter().map(|(p, m)| format!("{p}:{}", hex(m.as_bytes()))).collect::<Vec<_>>().join("/"),
            show_params(&g.params)
        ),
    }
}

// ------------------------------------------------------------------ oracle: independent flat matcher

#[derive(Debug, Clone, PartialEq)]
enum Tok {
    Lit(String),
    Par(String),
    Spl(String),
}

/// twin of integrations/axum `to_axum_path` (+ the `"" -> "/"` rule of `into_route_listing`)
fn axum_path(segs: &[PathSegment]) -> String {
    let mut path = String::new();
    for s in segs {
        let raw = s.as_raw_str();
        if !raw.is_empty() && !raw.starts_with('/') {
            path.push('/');
        }
        match s {
            PathSegment::Static(t) => path.push_str(t),
            PathSegment::Param(n) => {
                path.push('{');
                path.push_str(n);
                path.push('}');
            }
            PathSegment::Splat(n) => {
                path.push_str("{*");
                path.push_str(n);
                path.push('}');
            }
            PathSegment::Unit | PathSegment::OptionalParam(_) => {}
        }
    }
    if path.is_empty() {
        "/".into()
    } else {
        path
    }
}

fn pattern_tokens(p: &str) -> Option<Vec<Tok>> {
    let rest = p.strip_prefix('/')?;
    Some(
        rest.split('/')
            .map(|t| {
                if let Some(n) = t.strip_prefix("{*").and_then(|x| x.strip_suffix('}')) {
                    Tok::Spl(n.into())
                } else if let Some(n) = t.strip_prefix('{').and_then(|x| x.strip_suffix('}')) {
                    Tok::Par(n.into())
                } else {
                    Tok::Lit(t.into())
                }
            })
            .collect(),
    )
}

fn tok_match(pat: &[Tok], toks: &[&str]) -> Option<Vec<(String, String)>> {
    match pat.split_first() {
        None => toks.is_empty().then(Vec::new),
        Some((Tok::Spl(n), _)) => Some(vec![(n.clone(), toks.join("/"))]),
        Some((p, ps)) => {
            let (t, ts) = toks.split_first()?;
            match p {
                Tok::Lit(s) => {
                    if s == t {
                        tok_match(ps, ts)
                    } else {
                        None
                    }
                }
                Tok::Par(n) => {
                    if t.is_empty() {
                        None
                    } else {
                        let mut r = tok_match(ps, ts)?;
                        r.insert(0, (n.clone(), t.to_string()));
                        Some(r)
                    }
                }
                Tok::Spl(_) => unreachable!(),
            }
        }
    }
}

/// all parameter assignments under which `path` matches the flat route (strict; plus lenient if asked)
fn flat_match(segs: &[PathSegment], path: &str, lenient: bool) -> Vec<Vec<(String, String)>> {
    let mut out = vec![];
    let Some(pat) = pattern_tokens(&axum_path(segs)) else { return out };
    let Some(rest) = path.strip_prefix('/') else { return out };
    let toks: Vec<&str> = rest.split('/').collect();
    if let Some(p) = tok_match(&pat, &toks) {
        out.push(p)
    }
    if lenient && path.len() > 1 && path.ends_with('/') {
        if let Some(p) = tok_match(&pat, &toks[..toks.len() - 1]) {
            out.push(p)
        }
    }
    out
}

struct Flat {
    /// per top-level definition: expanded flat routes (base prepended, as the routers register them)
    per_def: Vec<Vec<Vec<PathSegment>>>,
}

fn flat_of(r: &Realised) -> Flat {
    let (base, _) = r.defs.generate_routes();
    let base = base.map(|b| PathSegment::Static(b.to_string().into()));
    let per_def = r
        .tops
        .iter()
        .map(|t| {
            t.generate_routes()
                .into_iter()
                .flat_map(|g| {
                    let full: Vec<PathSegment> = base.iter().cloned().chain(g.segments).collect();
                    full.expand_optionals()
                })
                .collect()
        })
        .collect();
    Flat { per_def }
}

fn judge(flat: &Flat, path: &str, got: &Outcome) -> String {
    // a request path starts with '/'; anything else is outside the property
    if !path.starts_with('/') {
        return "ok".into();
    }
    let strict_first = flat.per_def.iter().position(|d| d.iter().any(|f| !flat_match(f, path, false).is_empty()));
    match got {
        Outcome::Panic => "fail panic".into(),
        Outcome::None => match strict_first {
            None => "ok".into(),
            Some(i) => format!("fail flat-only def={i}"),
        },
        Outcome::Some(g) => {
            let i = g.chain.first().map(|c| c.0).unwrap_or(999);
            let Some(d) = flat.per_def.get(i) else { return "fail winner-unknown".into() };
            let all: Vec<Vec<(String, String)>> = d.iter().flat_map(|f| flat_match(f, path, true)).collect();
            if all.is_empty() {
                return "fail router-only".into();
            }
            if let Some(j) = strict_first {
                if j < i {
                    return format!("fail winner got={i} first={j}");
                }
            }
            if !all.iter().any(|p| *p == g.params) {
                return "fail params".into();
            }
            "ok".into()
        }
    }
}

// ------------------------------------------------------------------ ops

/// the parts of a generated Static entry (base included), for `build` through the real `RouteListing`
#[derive(Clone)]
struct Origin {
    segments: Vec<PathSegment>,
    ssr_mode: SsrMode,
    methods: std::collections::HashSet<Method>,
    regenerate: Vec<RegenerationFn>,
}

#[derive(Default)]
struct State {
    cur: Option<(Realised, Flat, Vec<Vec<PathSegment>>, Vec<Option<Origin>>)>,
}

fn tags_of_name(name: &str) -> String {
    match name.split_once('~') {
        Some((_, t)) if !t.is_empty() => format!(" tags={}", t.replace('+', ",")),
        _ => String::new(),
    }
}

fn op(st: &mut State, line: &str) -> String {
    let w: Vec<&str> = line.split_whitespace().collect();
    match w.as_slice() {
        ["case", n] => {
            st.cur = None;
            format!("case {n}{}", tags_of_name(n))
        }
        ["routes", base, tree] => {
            let Some(d) = parse_defs(base, tree) else { return "bad-op".into() };
            let r = realise(&d);
            let (_, gen) = r.defs.generate_routes();
            let gens: Vec<GeneratedRouteData> = gen.into_iter().collect();
            let flat_all: Vec<Vec<PathSegment>> = gens.iter().map(|g| g.segments.clone()).collect();
            let expanded: Vec<Vec<PathSegment>> = flat_all.iter().flat_map(|f| f.expand_optionals()).collect();
            // oracle: 2^k expansions each, no optional left, pairwise distinct per route
            let mut ok = true;
            for f in &flat_all {
                let k = f.iter().filter(|s| matches!(s, PathSegment::OptionalParam(_))).count();
                let e = f.expand_optionals();
                ok &= e.len() == 1 << k;
                ok &= e.iter().all(|x| x.iter().all(|s| !matches!(s, PathSegment::OptionalParam(_))));
            }
            // the container's list is the concatenation of the per-definition lists
            let cat: Vec<Vec<PathSegment>> =
                r.tops.iter().flat_map(|t| t.generate_routes().into_iter().map(|g| g.segments).collect::<Vec<_>>()).collect();
            ok &= cat == flat_all;
            let shown = show_gen(&gens);
            // every chain of the definition tree is listed once, with the whole chain's segments,
            // the strictest mode on the chain and the chain's regeneration fns
            let table_ok = shown == expected_gen(&d);
            let out = format!(
                "flat {} exp {} ## {}",
                shown,
                show_flat(&expanded),
                if !table_ok {
                    "fail generate"
                } else if ok {
                    "ok"
                } else {
                    "fail expand"
                }
            );
            let flat = flat_of(&r);
            let exp_with_base: Vec<Vec<PathSegment>> = flat.per_def.iter().flatten().cloned().collect();
            // origin of every expanded route: its generated entry when that entry is Static and optional-free
            let base_seg = r.defs.generate_routes().0.map(|b| PathSegment::Static(b.to_string().into()));
            let origin: Vec<Option<Origin>> = gens
                .iter()
                .flat_map(|g| {
                    let n = g.segments.expand_optionals().len();
                    let o = (n == 1 && matches!(g.ssr_mode, SsrMode::Static(_))).then(|| Origin {
                        segments: base_seg.iter().cloned().chain(g.segments.clone()).collect(),
                        ssr_mode: g.ssr_mode.clone(),
                        methods: g.methods.clone(),
                        regenerate: g.regenerate.clone(),
                    });
                    std::iter::repeat_n(o, n)
                })
                .collect();
            st.cur = Some((r, flat, exp_with_base, origin));
            out
        }
        ["match", p] => {
            let (Some(path), Some((r, flat, _, _))) = (unhex_str(p), st.cur.as_ref()) else { return "bad-op".into() };
            let got = run_match(r, &path);
            format!("{} ## {}", show_outcome(&got), judge(flat, &path, &got))
        }
        ["seg", tree, p] => {
            let Some(path) = unhex_str(p) else { return "bad-op".into() };
            let toks: Vec<&str> = tree.split(',').collect();
            let mut it = toks.iter();
            let Some(s) = parse_seg(&mut it) else { return "bad-op".into() };
            if it.next().is_some() {
                return "bad-op".into();
            }
            let d = realise_seg(&s);
            let r = catch_unwind(AssertUnwindSafe(|| {
                d.test(&path).map(|m| {
                    let (ma, re) = (m.matched().to_string(), m.remaining().to_string());
                    (ma, re, m.params().into_iter().map(|(k, v)| (k.to_string(), v)).collect::<Vec<_>>())
                })
            }));
            match r {
                Err(_) => "panic ## fail panic".into(),
                Ok(None) => "none ## ok".into(),
                Ok(Some((ma, re, ps))) => {
                    let v = if format!("{ma}{re}") != path {
                        "fail partition"
                    } else if ps.iter().any(|(k, v)| !k.starts_with('w') && v.contains('/')) {
                        "fail param-has-slash"
                    } else {
                        "ok"
                    };
                    format!("some {} {} {} ## {}", hex(ma.as_bytes()), hex(re.as_bytes()), show_params(&ps), v)
                }
            }
        }
        ["build", i, vals] => {
            let Some((r, flat, exp, origin)) = st.cur.as_ref() else { return "bad-op".into() };
            let Ok(i) = i.parse::<usize>() else { return "bad-op".into() };
            let vals: Option<Vec<String>> =
                if *vals == "~" { Some(vec![]) } else { vals.split(',').map(unhex_str).collect() };
            let (Some(vals), Some(route)) = (vals, exp.get(i)) else { return "bad-op".into() };
            let names: Vec<String> = route
                .iter()
                .filter_map(|s| match s {
                    PathSegment::Param(n) | PathSegment::Splat(n) => Some(n.to_string()),
                    _ => None,
                })
                .collect();
            if names.len() != vals.len() || (1..names.len()).any(|k| names[..k].contains(&names[k])) {
                return "bad-op".into();
            }
            let mut map = StaticParamsMap::new();
            for (n, v) in names.iter().zip(&vals) {
                map.insert(n, vec![v.clone()]);
            }
            let built = match origin.get(i).cloned().flatten() {
                // a Static entry: the way the integrations build its paths, with its own StaticRoute
                Some(g) if g.segments == *route => {
                    BUILD_VALS.with(|v| *v.borrow_mut() = map.0.clone());
                    let b = catch_unwind(AssertUnwindSafe(|| {
                        let listing = RouteListing::new(g.segments, g.ssr_mode, g.methods, g.regenerate);
                        futures::executor::block_on(listing.into_static_paths())
                    }));
                    BUILD_VALS.with(|v| v.borrow_mut().clear());
                    match b {
                        Ok(Some(b)) => Ok(b),
                        Ok(None) => return "no-static ## fail build-static".into(),
                        Err(e) => Err(e),
                    }
                }
                Some(_) => return "origin ## fail build-origin".into(),
                None => catch_unwind(AssertUnwindSafe(|| StaticPath::new(route.clone()).into_paths(Some(map)))),
            };
            let Ok(built) = built else { return "panic-build ## fail panic".into() };
            let [built] = built.as_slice() else { return format!("built{} ## fail build-count", built.len()) };
            let path = built.as_ref().to_string();
            let got = run_match(r, &path);
            let want: Vec<(String, String)> = names.into_iter().zip(vals).collect();
            // the built path matches the flat route it was built from, with exactly these values …
            let self_ok = flat_match(route, &path, false).iter().any(|p| *p == want);
            let mut v = judge(flat, &path, &got);
            if v == "ok" && path.starts_with('/') {
                if !self_ok {
                    v = "fail build-not-flat".into()
                } else if !matches!(got, Outcome::Some(_)) {
                    v = "fail build-no-match".into()
                }
            }
            format!("{} {} ## {}", hex(path.as_bytes()), show_outcome(&got), v)
        }
        _ => "bad-op".into(),
    }
}

fn main() {
    match parse_cli() {
        Cmd::Gen { seed, n, ops, tier } => {
            quiet_panics();
            gen::gen(seed, n, &ops, &tier).unwrap()
        }
        Cmd::Run { ops, out } => {
            quiet_panics();
            let mut st = State::default();
            run_ops(&ops, &out, |l| op(&mut st, l)).unwrap()
        }
    }
}

// ------------------------------------------------------------------ generator

mod gen {
    use super::*;
    use std::io::Write;

    pub const ALPHA: [char; 5] = ['/', 'a', 'b', 'é', '%'];

    struct Names {
        p: usize,
        o: usize,
        w: usize,
    }

    const STATICS: &[&str] = &["a", "b", "ab", "ba", "é", "%", "aé", "a%", "bb", "éa"];

    fn gen_static(r: &mut Rng) -> String {
        let s = *r.pick(STATICS);
        if r.chance(1, 8) {
            format!("/{s}")
        } else {
            s.to_string()
        }
    }

    fn gen_atom(r: &mut Rng, nm: &mut Names, allow_splat: bool) -> SegT {
        match r.below(20) {
            0..=10 => SegT::St(gen_static(r)),
            11..=15 => {
                nm.p += 1;
                SegT::Param(format!("p{}", nm.p))
            }
            16..=18 => {
                nm.o += 1;
                SegT::Opt(format!("o{}", nm.o))
            }
            _ => {
                if allow_splat {
                    nm.w += 1;
                    SegT::Splat(format!("w{}", nm.w))
                } else {
                    SegT::St(gen_static(r))
                }
            }
        }
    }

    /// random tuple nesting of an atom list (units sprinkled in)
    fn nest(r: &mut Rng, atoms: Vec<SegT>, depth: usize, flat_only: bool) -> SegT {
        if atoms.len() == 1 && r.chance(2, 3) {
            return atoms.into_iter().next().unwrap();
        }
        if atoms.is_empty() {
            return SegT::Tup(vec![]);
        }
        let mut fields: Vec<SegT> = vec![];
        let mut i = 0;
        while i < atoms.len() {
            if !flat_only && depth < 2 && atoms.len() - i >= 1 && r.chance(1, 5) {
                let take = r.range(1, (atoms.len() - i).min(3));
                fields.push(nest(r, atoms[i..i + take].to_vec(), depth + 1, false));
                i += take;
            } else {
                fields.push(atoms[i].clone());
                i += 1;
            }
            if !flat_only && r.chance(1, 12) && fields.len() < 5 {
                fields.push(SegT::Tup(vec![]));
            }
        }
        if fields.len() > 6 {
            fields.truncate(6);
        }
        SegT::Tup(fields)
    }

    fn gen_segs(r: &mut Rng, nm: &mut Names, leaf: bool, top: bool) -> SegT {
        // whole-route specials
        if r.chance(1, 7) {
            return SegT::St(if r.chance(1, 2) { "".into() } else { "/".into() });
        }
        let _ = top;
        let n = *r.pick(&[1, 1, 1, 2, 2, 3]);
        let mut atoms = vec![];
        for i in 0..n {
            let last = i + 1 == n;
            // wildcard only as the last segment of a leaf (`SplatLast`, what the crate's docs require)
            let allow = leaf && last;
            atoms.push(gen_atom(r, nm, allow));
        }
        let flat_only = r.chance(1, 2);
        nest(r, atoms, 0, flat_only)
    }

    /// `.ssr_mode(..)` at every level: mostly the default, otherwise any of the other modes
    fn gen_mode(r: &mut Rng) -> char {
        if r.chance(1, 2) {
            'o'
        } else {
            *r.pick(&['p', 'i', 'a', 's', 'g'])
        }
    }

    fn gen_route(r: &mut Rng, nm: &mut Names, depth: usize, top: bool) -> RouteT {
        let kids = if depth >= 3 {
            0
        } else {
            *r.pick(&[0, 0, 0, 1, 1, 2, 2, 3, 4][..if depth == 1 { 9 } else { 7 }])
        };
        let segs = gen_segs(r, nm, kids == 0, top);
        let vec_kind = r.chance(1, 4);
        let children = (0..kids).map(|_| gen_route(r, nm, depth + 1, false)).collect();
        RouteT { segs, vec_kind, mode: gen_mode(r), children }
    }

    pub fn gen_defs(r: &mut Rng) -> DefsT {
        let mut nm = Names { p: 0, o: 0, w: 0 };
        let n = *r.pick(&[1, 1, 2, 2, 3, 4]);
        let tops = (0..n).map(|_| gen_route(r, &mut nm, 1, true)).collect();
        // well-formed bases only: none, "", "/x", "/x/y" (a base without a leading slash, or "/",
        // can never match a request path and is not a route table anybody registers)
        let base = match r.below(10) {
            0 | 1 => Some(format!("/{}", r.pick(STATICS))),
            2 => Some(format!("/{}/{}", r.pick(STATICS), r.pick(STATICS))),
            3 => Some("".into()),
            _ => None,
        };
        DefsT { base, vec_kind: r.chance(1, 5), tops }
    }

    // ---- small-scope route families (exhaustive)

    fn st(s: &str) -> SegT {
        SegT::St(s.into())
    }
    fn leaf(segs: SegT) -> RouteT {
        RouteT { segs, vec_kind: false, mode: 'o', children: vec![] }
    }
    fn seg_choices() -> Vec<SegT> {
        vec![st("a"), st("ab"), st("é"), SegT::Param("p".into()), SegT::Opt("o".into()), SegT::Splat("w".into())]
    }
    fn seg_lists() -> Vec<SegT> {
        let mut v = vec![st(""), st("/")];
        for s in seg_choices() {
            v.push(s);
        }
        let mut k = 0;
        for a in seg_choices() {
            for b in seg_choices() {
                if matches!(a, SegT::Splat(_)) {
                    continue;
                }
                k += 1;
                let rename = |s: &SegT, sfx: &str| match s {
                    SegT::Param(n) => SegT::Param(format!("{n}{sfx}")),
                    SegT::Opt(n) => SegT::Opt(format!("{n}{sfx}")),
                    SegT::Splat(n) => SegT::Splat(format!("{n}{sfx}")),
                    x => x.clone(),
                };
                let _ = k;
                v.push(SegT::Tup(vec![rename(&a, "1"), rename(&b, "2")]));
            }
        }
        v
    }

    pub fn families() -> Vec<(DefsT, &'static str)> {
        let mut out = vec![];
        let lists = seg_lists();
        for s in &lists {
            out.push((DefsT { base: None, vec_kind: false, tops: vec![leaf(s.clone())] }, "fam-leaf"));
        }
        // nested pairs: parent from a short list, child from the full list
        let parents = vec![
            st(""),
            st("/"),
            st("a"),
            SegT::Param("q".into()),
            SegT::Opt("r".into()),
            SegT::Tup(vec![st("a"), SegT::Opt("r".into())]),
            SegT::Tup(vec![SegT::Opt("r".into()), SegT::Opt("t".into())]),
        ];
        for p in &parents {
            for c in &lists {
                out.push((
                    DefsT {
                        base: None,
                        vec_kind: false,
                        tops: vec![RouteT { segs: p.clone(), vec_kind: false, mode: 'o', children: vec![leaf(c.clone())] }],
                    },
                    "fam-nested",
                ));
            }
        }
        // siblings: declaration order
        let sib = vec![st("a"), st("ab"), SegT::Param("p".into()), SegT::Opt("o".into()), SegT::Splat("w".into()), st("")];
        for a in &sib {
            for b in &sib {
                out.push((DefsT { base: None, vec_kind: false, tops: vec![leaf(a.clone()), leaf(b.clone())] }, "fam-sib"));
            }
        }
        // base paths
        for b in ["/a", "/a/b", "", "/é"] {
            for s in [st("b"), st(""), st("/"), SegT::Param("p".into()), SegT::Opt("o".into())] {
                out.push((DefsT { base: Some(b.into()), vec_kind: false, tops: vec![leaf(s)] }, "fam-base"));
            }
        }
        out
    }

    /// `.ssr_mode(..)` at every level of a small tree, every combination: the generated table must list
    /// every chain with its whole prefix whatever the modes are
    pub fn mode_families() -> Vec<(DefsT, &'static str)> {
        let mut out = vec![];
        let with = |segs: SegT, mode: char, children: Vec<RouteT>| RouteT { segs, vec_kind: false, mode, children };
        let all = ['o', 'p', 'i', 'a', 's', 'g'];
        for &pm in &all {
            for &cm in &all {
                for base in [None, Some("/x".to_string())] {
                    if base.is_some() && !(pm == 'o' || cm == 'o') {
                        continue;
                    }
                    out.push((
                        DefsT {
                            base,
                            vec_kind: false,
                            tops: vec![
                                with(st("a"), pm, vec![with(SegT::Tup(vec![st("b"), SegT::Param("p".into())]), cm, vec![])]),
                                with(st("b"), cm, vec![]),
                            ],
                        },
                        "fam-mode",
                    ));
                }
            }
        }
        let some = ['o', 'i', 's', 'g'];
        for &rm in &some {
            for &cm in &some {
                for &gm in &some {
                    out.push((
                        DefsT {
                            base: None,
                            vec_kind: false,
                            tops: vec![with(
                                st("a"),
                                rm,
                                vec![
                                    with(
                                        st("b"),
                                        cm,
                                        vec![with(SegT::Param("p".into()), gm, vec![]), with(st("a"), 'o', vec![])],
                                    ),
                                    with(SegT::Opt("o".into()), gm, vec![]),
                                ],
                            )],
                        },
                        "fam-mode",
                    ));
                }
            }
        }
        out
    }

    // ---- paths

    /// all strings over ALPHA of length <= n, DFS (prefix) order, each prefixed with '/'
    pub fn all_paths(n: usize) -> Vec<String> {
        fn go(cur: &mut String, left: usize, out: &mut Vec<String>) {
            out.push(format!("/{cur}"));
            if left == 0 {
                return;
            }
            for c in ALPHA {
                cur.push(c);
                go(cur, left - 1, out);
                cur.pop();
            }
        }
        let mut out = vec![];
        go(&mut String::new(), n, &mut out);
        out
    }

    fn shape_tags(d: &DefsT) -> Vec<&'static str> {
        fn seg_has(s: &SegT, f: &dyn Fn(&SegT) -> bool) -> bool {
            f(s) || matches!(s, SegT::Tup(v) if v.iter().any(|x| seg_has(x, f)))
        }
        fn any_route(r: &RouteT, f: &dyn Fn(&RouteT) -> bool) -> bool {
            f(r) || r.children.iter().any(|c| any_route(c, f))
        }
        let any = |f: &dyn Fn(&RouteT) -> bool| d.tops.iter().any(|r| any_route(r, f));
        let mut t = vec![];
        if any(&|r| !r.children.is_empty()) {
            t.push("nested")
        }
        if d.tops.len() > 1 || any(&|r| r.children.len() > 1) {
            t.push("siblings")
        }
        if any(&|r| seg_has(&r.segs, &|s| matches!(s, SegT::Opt(_)))) {
            t.push("opt")
        }
        if any(&|r| seg_has(&r.segs, &|s| matches!(s, SegT::Splat(_)))) {
            t.push("splat")
        }
        if any(&|r| seg_has(&r.segs, &|s| matches!(s, SegT::Param(_)))) {
            t.push("param")
        }
        if any(&|r| matches!(&r.segs, SegT::Tup(v) if v.iter().any(|x| matches!(x, SegT::Tup(_))))) {
            t.push("tupnest")
        }
        if any(&|r| matches!(&r.segs, SegT::St(s) if s == "/" || s.is_empty())) {
            t.push("rootseg")
        }
        if d.base.is_some() {
            t.push("base")
        }
        if any(&|r| r.mode != 'o') {
            t.push("mode")
        }
        if any(&|r| matches!(r.mode, 's' | 'g')) {
            t.push("static-mode")
        }
        if t.is_empty() {
            t.push("static")
        }
        t
    }

    /// paths aimed at the route set: built from its own flat routes, then perturbed
    fn aimed_paths(r: &mut Rng, exp: &[Vec<PathSegment>], n: usize) -> Vec<String> {
        let vals: &[&str] = &["a", "b", "ab", "é", "%", "x", "a%2Fb", "éé"];
        let mut out = vec![];
        if exp.is_empty() {
            return out;
        }
        for _ in 0..n {
            let route = r.pick(exp);
            let mut p = String::new();
            for s in route {
                match s {
                    PathSegment::Static(t) => {
                        if !(t.starts_with('/') || t.is_empty()) {
                            p.push('/')
                        }
                        p.push_str(t)
                    }
                    PathSegment::Param(_) => {
                        p.push('/');
                        p.push_str(*r.pick(vals))
                    }
                    PathSegment::Splat(_) => {
                        for _ in 0..r.below(3) {
                            p.push('/');
                            p.push_str(*r.pick(vals))
                        }
                    }
                    _ => {}
                }
            }
            if p.is_empty() {
                p.push('/')
            }
            let mut cs: Vec<char> = p.chars().collect();
            match r.below(10) {
                0 => cs.push('/'),
                1 => {
                    cs.push('/');
                    cs.push('/')
                }
                2 => {
                    let i = r.below(cs.len() + 1);
                    cs.insert(i, *r.pick(&ALPHA))
                }
                3 => {
                    let i = r.below(cs.len());
                    cs.remove(i);
                }
                4 => {
                    let i = r.below(cs.len() + 1);
                    cs.insert(i, '/')
                }
                5 => cs.push(*r.pick(&ALPHA)),
                _ => {}
            }
            let mut s: String = cs.into_iter().collect();
            if !s.starts_with('/') {
                s.insert(0, '/')
            }
            out.push(s);
        }
        out
    }

    fn emit_set(
        f: &mut impl Write,
        r: &mut Rng,
        idx: usize,
        d: &DefsT,
        fam: &str,
        paths: &[String],
        aimed: usize,
        builds: usize,
        block: usize,
    ) -> std::io::Result<()> {
        let real = realise(d);
        let flat = flat_of(&real);
        let exp: Vec<Vec<PathSegment>> = flat.per_def.iter().flatten().cloned().collect();
        let shape = shape_tags(d).join("+");
        let routes_line = format!("routes {}", show_defs(d));
        let mut all: Vec<String> = aimed_paths(r, &exp, aimed);
        all.extend(paths.iter().cloned());
        let mut bi = 0;
        for chunk in all.chunks(block.max(1)) {
            let hit = chunk.iter().any(|p| !matches!(run_match(&real, p), Outcome::None));
            writeln!(f, "case {idx}.{bi}~{fam}+{shape}+{}", if hit { "hit" } else { "nohit" })?;
            writeln!(f, "{routes_line}")?;
            for p in chunk {
                writeln!(f, "match {}", hex(p.as_bytes()))?;
            }
            bi += 1;
        }
        if builds > 0 && !exp.is_empty() {
            writeln!(f, "case {idx}.b~{fam}+{shape}+build")?;
            writeln!(f, "{routes_line}")?;
            let vals: &[&str] = &["a", "b", "ab", "é", "%", "éa", "a%"];
            for _ in 0..builds {
                let i = r.below(exp.len());
                let k = exp[i].iter().filter(|s| matches!(s, PathSegment::Param(_) | PathSegment::Splat(_))).count();
                let vs: Vec<String> = (0..k).map(|_| hex(r.pick(vals).as_bytes())).collect();
                writeln!(f, "build {i} {}", if vs.is_empty() { "~".into() } else { vs.join(",") })?;
            }
        }
        Ok(())
    }

    fn gen_seg_cases(f: &mut impl Write, r: &mut Rng, n: usize, paths: &[String]) -> std::io::Result<()> {
        // PossibleRouteMatch::test on its own: every small segment shape x a slice of the exhaustive paths,
        // also on paths WITHOUT a leading slash (what a segment sees after a static prefix match)
        let lists = seg_lists();
        for i in 0..n {
            let s = if i < lists.len() {
                lists[i].clone()
            } else {
                let mut nm = Names { p: 0, o: 0, w: 0 };
                gen_segs(r, &mut nm, true, true)
            };
            let mut toks = vec![];
            show_seg(&s, &mut toks);
            writeln!(f, "case s{i}~segtest")?;
            for _ in 0..40 {
                let p = r.pick(paths);
                let p = if r.chance(1, 4) { p[1..].to_string() } else { p.clone() };
                writeln!(f, "seg {} {}", toks.join(","), hex(p.as_bytes()))?;
            }
        }
        Ok(())
    }

    pub fn gen(seed: u64, n: usize, path: &str, tier: &str) -> std::io::Result<()> {
        let mut r = Rng::new(seed);
        let mut f = std::io::BufWriter::new(std::fs::File::create(path)?);
        let thorough = tier == "thorough";
        // n = number of random route sets; the small-scope families are always included
        let fam_len = if thorough { 5 } else { 4 };
        let rnd_len = if thorough { 5 } else { 4 };
        let deep_len = if thorough { 8 } else { 7 };
        let fam_paths = all_paths(fam_len);
        let rnd_paths = all_paths(rnd_len);
        let mut idx = 0;
        for (d, fam) in families() {
            emit_set(&mut f, &mut r, idx, &d, fam, &fam_paths, 8, 4, 128)?;
            idx += 1;
        }
        let mode_paths = all_paths(3);
        for (d, fam) in mode_families() {
            emit_set(&mut f, &mut r, idx, &d, fam, &mode_paths, 8, 4, 256)?;
            idx += 1;
        }
        for _ in 0..n {
            let d = gen_defs(&mut r);
            emit_set(&mut f, &mut r, idx, &d, "rnd", &rnd_paths, 24, 6, 128)?;
            idx += 1;
        }
        // a few route sets against the deep exhaustive path set
        let deep = all_paths(deep_len);
        let deep_sets = if thorough { 3 } else { 2 };
        for k in 0..deep_sets {
            let d = if k == 0 {
                // the F-C14-1 shape with a param and a multi-byte static
                DefsT {
                    base: None,
                    vec_kind: false,
                    tops: vec![
                        RouteT {
                            segs: st("a"),
                            vec_kind: false,
                            mode: 'o',
                            children: vec![leaf(st("b")), leaf(SegT::Param("p".into()))],
                        },
                        leaf(SegT::Tup(vec![st("é"), SegT::Opt("o".into()), st("%")])),
                    ],
                }
            } else {
                gen_defs(&mut r)
            };
            emit_set(&mut f, &mut r, idx, &d, "deep", &deep, 0, 0, 512)?;
            idx += 1;
        }
        gen_seg_cases(&mut f, &mut r, (n / 4).max(45), &rnd_paths)?;
        f.flush()
    }
}
