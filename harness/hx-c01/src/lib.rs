//! Shared interpreter for C01 / C09 / C02: builds a program of real `reactive_graph`
//! signals, memos and effects from op lines, runs histories, logs what the real code did,
//! and evaluates the properties' oracles independently of the Lean model.
//!
//! Op grammar (one per line):
//!   case <name>
//!   mode arc|arena                     (which handle family; echo `ok`)
//!   acc <n>                            accessor / constructor variety (echo `ok`): every read site, write site, signal
//!                                      and memo definition picks its accessor / constructor / handle family from
//!                                      n + its site index (see `tracked!`, `untracked!`, `write_acc!`, `memo_ctor`,
//!                                      `sig_split`); without the line everything is `.get()` / `.set()` / `Memo::new`
//!   sig <init>                         node ids are assigned in order of definition
//!   memo <expr>
//!   memoc <k> <expr>                   memo with the COARSE comparator `|a, b| a.div_euclid(k) != b.div_euclid(k)`
//!                                      (2 <= k <= 9).  A coarse comparator deliberately suppresses downstream
//!                                      notification, so a memoc node must be a LEAF: a later def that reads it is `bad-op`.
//!   sel <K> <expr>                     `Selector::new(move || expr)`: defines K+1 consecutive ids: key nodes for the keys
//!                                      0..K-1 (reading key node j = `selector.selected(&j) as i64`) and the selector node
//!                                      itself (an executor task like a render effect; not readable, no pause/dispose op)
//!   eff <expr>
//!   set <id> <v> | read <id> | poll <i> | idle
//! <expr> prefix tokens: L<n> | R<id> (tracked read) | U<id> (read under untrack) |
//!   add e e | mulc <k> e | ite e e e | seq e e | wr <id> e
use hx_common::sched;
use reactive_graph::{
    computed::{ArcMemo, Memo, Selector},
    effect::{Effect, RenderEffect},
    graph::untrack,
    owner::Owner,
    signal::{arc_signal, signal, ArcReadSignal, ArcRwSignal, ArcWriteSignal, ReadSignal, RwSignal, WriteSignal},
    traits::{Get, GetUntracked, Read, ReadUntracked, Set, Update, With, WithUntracked, Write},
    wrappers::read::{ArcSignal, Signal},
};
use std::sync::{Arc, Mutex};

#[derive(Clone, Debug, PartialEq)]
pub enum Expr {
    Lit(i64),
    Rd(bool, usize),
    Add(Box<Expr>, Box<Expr>),
    Mulc(i64, Box<Expr>),
    Ite(Box<Expr>, Box<Expr>, Box<Expr>),
    Seq(Box<Expr>, Box<Expr>),
    Wr(usize, Box<Expr>),
    /// one `untrack(|| …)` scope around a sub-expression whose reads are all written `U<id>`;
    /// the model treats it as transparent (each inner read is already untracked)
    Unt(Box<Expr>),
}

pub fn parse_expr(toks: &[&str], pos: &mut usize) -> Option<Expr> {
    let t = *toks.get(*pos)?;
    *pos += 1;
    let sub = |pos: &mut usize| parse_expr(toks, pos).map(Box::new);
    Some(match t {
        "add" => Expr::Add(sub(pos)?, sub(pos)?),
        "mulc" => {
            let k: i64 = toks.get(*pos)?.parse().ok()?;
            *pos += 1;
            Expr::Mulc(k, sub(pos)?)
        }
        "ite" => Expr::Ite(sub(pos)?, sub(pos)?, sub(pos)?),
        "seq" => Expr::Seq(sub(pos)?, sub(pos)?),
        "unt" => Expr::Unt(sub(pos)?),
        "wr" => {
            let id: usize = toks.get(*pos)?.parse().ok()?;
            *pos += 1;
            Expr::Wr(id, sub(pos)?)
        }
        _ if t.starts_with('L') => Expr::Lit(t[1..].parse().ok()?),
        _ if t.starts_with('R') => Expr::Rd(true, t[1..].parse().ok()?),
        _ if t.starts_with('U') => Expr::Rd(false, t[1..].parse().ok()?),
        _ => return None,
    })
}

pub fn show_expr(e: &Expr) -> String {
    match e {
        Expr::Lit(n) => format!("L{n}"),
        Expr::Rd(true, i) => format!("R{i}"),
        Expr::Rd(false, i) => format!("U{i}"),
        Expr::Add(a, b) => format!("add {} {}", show_expr(a), show_expr(b)),
        Expr::Mulc(k, a) => format!("mulc {k} {}", show_expr(a)),
        Expr::Ite(c, t, e) => format!("ite {} {} {}", show_expr(c), show_expr(t), show_expr(e)),
        Expr::Seq(a, b) => format!("seq {} {}", show_expr(a), show_expr(b)),
        Expr::Wr(i, a) => format!("wr {i} {}", show_expr(a)),
        Expr::Unt(a) => format!("unt {}", show_expr(a)),
    }
}

#[derive(Clone, Debug, PartialEq)]
pub enum Def {
    Sig(i64),
    Memo(Expr),
    /// effects AND selector nodes (a selector node's body is its source expression; `Shared::sel` tells them apart)
    Eff(Expr),
    /// key node `j` of the selector node `.0`: reads `selector.selected(&j) as i64`
    Key(usize, i64),
}

/// how an effect node was created (the model sees both as `eff` nodes with different initial state)
#[derive(Clone, Copy, PartialEq)]
pub enum EffKind {
    Effect,
    Render,
    /// `Effect::new_sync`
    Sync,
    /// `Effect::new_isomorphic`
    Isomorphic,
    /// `Effect::watch(deps, handler, immediate)`: the body is the dependency function, the handler does nothing
    Watch(bool),
}

#[derive(Clone)]
enum Handle {
    ArcSig(ArcRwSignal<i64>),
    Sig(RwSignal<i64>),
    /// `arc_signal()` / `signal()`: the split read / write pair
    ArcSplit(ArcReadSignal<i64>, ArcWriteSignal<i64>),
    Split(ReadSignal<i64>, WriteSignal<i64>),
    ArcMemo(ArcMemo<i64>),
    Memo(Memo<i64>),
    Eff,
    Key(Selector<i64>, i64),
}

/// how other nodes read a signal/memo: directly, or through a wrapper / derived signal
#[derive(Clone)]
enum Reader {
    Direct,
    Wrapped(Signal<i64>),
    ArcWrapped(ArcSignal<i64>),
}

/// what one invocation of a body did (recorded by the interpreter inside the real closure)
#[derive(Clone, Debug, Default)]
pub struct RunRec {
    pub node: usize,
    /// tracked reads: (id, value returned, version of that node at read time)
    pub treads: Vec<(usize, i64, u64)>,
    pub result: i64,
    /// a read returned something else than the from-scratch value at that moment
    pub glitch: Option<(usize, i64, i64)>,
    pub justified: bool,
    /// global read clock at each tracked read (parallel to `treads`): when the subscription was (re)made
    pub tclock: Vec<u64>,
}

#[derive(Default)]
pub struct Shared {
    pub defs: Vec<Def>,
    handles: Vec<Handle>,
    readers: Vec<Reader>,
    /// current signal values as written by the harness / by effects (oracle's env)
    pub env: Vec<i64>,
    /// versions: signals = writes; memos/effects = runs with a result different from the previous one
    pub ver: Vec<u64>,
    pub last: Vec<Option<RunRec>>,
    pub runs: Vec<u64>,
    /// invocations since the log was last drained, in order
    pub log: Vec<RunRec>,
    stack: Vec<RunRec>,
    clock: u64,
    /// `acc <n>`
    acc: Option<usize>,
    /// memoc nodes: the comparator's bucket width
    pub coarse: Vec<Option<i64>>,
    /// selector nodes: (first key node id, number of keys)
    pub sel: Vec<Option<(usize, usize)>>,
    /// number of harness-level read / set ops so far (their accessor site index)
    op_sites: usize,
    /// wake log of the current op in canonical form: task ids in wake order, except that the wake-ups made by one
    /// selector run's notifications (old key, new key: the real code walks a hash map) are sorted
    wakes: Vec<usize>,
    seg: Vec<usize>,
    seg_open: bool,
}

impl Shared {
    /// move the executor's wake log into `wakes` (into the open selector segment, if any)
    fn sync_wakes(&mut self) {
        let w = sched::take_wakes();
        if self.seg_open {
            self.seg.extend(w)
        } else {
            self.wakes.extend(w)
        }
    }
    fn close_seg(&mut self) {
        self.sync_wakes();
        self.seg.sort();
        let seg = std::mem::take(&mut self.seg);
        self.wakes.extend(seg);
        self.seg_open = false;
    }
    pub fn is_sel(&self, id: usize) -> bool {
        matches!(self.sel.get(id), Some(Some(_)))
    }
    pub fn is_leaf(&self, id: usize) -> bool {
        matches!(self.coarse.get(id), Some(Some(_)))
    }
}

pub type Sh = Arc<Mutex<Shared>>;

/// from-scratch value of a node given the oracle's env (independent of the reactive system)
/// Key nodes count as inputs here (like a signal written by an effect): their value is what the selector's last
/// run stored, kept in `env` by `invoke`.  `scratch_deep` looks through the selector.
pub fn scratch(defs: &[Def], env: &[i64], id: usize) -> i64 {
    match defs.get(id) {
        Some(Def::Sig(_)) | Some(Def::Key(..)) => env[id],
        Some(Def::Memo(b)) | Some(Def::Eff(b)) => eval_pure(defs, env, b),
        None => 0,
    }
}

/// from-scratch value where key node j of a selector is `(from-scratch value of the selector's source) == j`,
/// unless the selector is excused (paused / not run since it was paused / disposed): then the stored flag
pub fn scratch_deep(defs: &[Def], env: &[i64], excused: &dyn Fn(usize) -> bool, id: usize) -> i64 {
    match defs.get(id) {
        Some(Def::Sig(_)) => env[id],
        Some(Def::Key(s, j)) => {
            if excused(*s) {
                env[id]
            } else {
                (scratch_deep(defs, env, excused, *s) == *j) as i64
            }
        }
        Some(Def::Memo(b)) | Some(Def::Eff(b)) => eval_deep(defs, env, excused, b),
        None => 0,
    }
}

fn eval_deep(defs: &[Def], env: &[i64], ex: &dyn Fn(usize) -> bool, e: &Expr) -> i64 {
    match e {
        Expr::Lit(n) => *n,
        Expr::Rd(_, i) => scratch_deep(defs, env, ex, *i),
        Expr::Add(a, b) => eval_deep(defs, env, ex, a).wrapping_add(eval_deep(defs, env, ex, b)),
        Expr::Mulc(k, a) => k.wrapping_mul(eval_deep(defs, env, ex, a)),
        Expr::Ite(c, t, f) => {
            if eval_deep(defs, env, ex, c) != 0 { eval_deep(defs, env, ex, t) } else { eval_deep(defs, env, ex, f) }
        }
        Expr::Seq(_, b) => eval_deep(defs, env, ex, b),
        Expr::Wr(_, a) => eval_deep(defs, env, ex, a),
        Expr::Unt(a) => eval_deep(defs, env, ex, a),
    }
}

pub fn eval_pure(defs: &[Def], env: &[i64], e: &Expr) -> i64 {
    match e {
        Expr::Lit(n) => *n,
        Expr::Rd(_, i) => scratch(defs, env, *i),
        Expr::Add(a, b) => eval_pure(defs, env, a).wrapping_add(eval_pure(defs, env, b)),
        Expr::Mulc(k, a) => k.wrapping_mul(eval_pure(defs, env, a)),
        Expr::Ite(c, t, f) => {
            if eval_pure(defs, env, c) != 0 { eval_pure(defs, env, t) } else { eval_pure(defs, env, f) }
        }
        Expr::Seq(_, b) => eval_pure(defs, env, b),
        Expr::Wr(_, a) => eval_pure(defs, env, a),
        Expr::Unt(a) => eval_pure(defs, env, a),
    }
}

pub fn has_untracked(e: &Expr) -> bool {
    match e {
        Expr::Lit(_) => false,
        Expr::Rd(t, _) => !*t,
        Expr::Add(a, b) | Expr::Seq(a, b) => has_untracked(a) || has_untracked(b),
        Expr::Mulc(_, a) | Expr::Wr(_, a) => has_untracked(a),
        Expr::Unt(_) => true,
        Expr::Ite(c, t, e) => has_untracked(c) || has_untracked(t) || has_untracked(e),
    }
}

pub fn has_write(e: &Expr) -> bool {
    match e {
        Expr::Lit(_) | Expr::Rd(..) => false,
        Expr::Wr(..) => true,
        Expr::Add(a, b) | Expr::Seq(a, b) => has_write(a) || has_write(b),
        Expr::Mulc(_, a) | Expr::Unt(a) => has_write(a),
        Expr::Ite(c, t, e) => has_write(c) || has_write(t) || has_write(e),
    }
}

/// number of accessor sites (reads and writes) in an expression, in preorder
pub fn sites(e: &Expr) -> usize {
    match e {
        Expr::Lit(_) => 0,
        Expr::Rd(..) => 1,
        Expr::Add(a, b) | Expr::Seq(a, b) => sites(a) + sites(b),
        Expr::Mulc(_, a) | Expr::Unt(a) => sites(a),
        Expr::Wr(_, a) => 1 + sites(a),
        Expr::Ite(c, t, f) => sites(c) + sites(t) + sites(f),
    }
}

/// tracked read accessors (all equal in the model)
macro_rules! tracked {
    ($x:expr, $a:expr) => {
        match $a {
            None => $x.get(),
            Some(a) => match a % 3 {
                0 => $x.get(),
                1 => $x.with(|v| *v),
                _ => *$x.read(),
            },
        }
    };
}

/// untracked read accessors (`U<id>` outside an `unt` scope)
macro_rules! untracked {
    ($x:expr, $a:expr) => {
        match $a {
            None => untrack(|| $x.get()),
            Some(a) => match a % 5 {
                0 => untrack(|| $x.get()),
                1 => $x.get_untracked(),
                2 => $x.with_untracked(|v| *v),
                3 => *$x.read_untracked(),
                _ => $x.try_get_untracked().unwrap(),
            },
        }
    };
}

macro_rules! write_acc {
    ($x:expr, $v:expr, $a:expr) => {
        match $a {
            None => $x.set($v),
            Some(a) => match a % 4 {
                0 => $x.set($v),
                1 => $x.update(|x| *x = $v),
                2 => {
                    *$x.write() = $v;
                }
                _ => {
                    $x.try_set($v);
                }
            },
        }
    };
}

macro_rules! read_with {
    ($m:ident, $h:expr, $r:expr, $a:expr) => {
        match $r {
            Reader::Wrapped(s) => $m!(s, $a),
            Reader::ArcWrapped(s) => $m!(s, $a),
            Reader::Direct => match $h {
                Handle::ArcSig(s) => $m!(s, $a),
                Handle::Sig(s) => $m!(s, $a),
                Handle::ArcSplit(s, _) => $m!(s, $a),
                Handle::Split(s, _) => $m!(s, $a),
                Handle::ArcMemo(m) => $m!(m, $a),
                Handle::Memo(m) => $m!(m, $a),
                Handle::Eff => 0,
                Handle::Key(..) => unreachable!(),
            },
        }
    };
}

/// `tracked` = false: the read is written `U<id>` and is not inside an `unt` scope
fn read_node(h: &Handle, r: &Reader, tracked: bool, a: Option<usize>) -> i64 {
    if let (Handle::Key(sel, j), Reader::Direct) = (h, r) {
        // a selector has one accessor
        return if tracked { sel.selected(j) as i64 } else { untrack(|| sel.selected(j) as i64) };
    }
    if tracked {
        read_with!(tracked, h, r, a)
    } else {
        read_with!(untracked, h, r, a)
    }
}

fn write_handle(h: &Handle, v: i64, a: Option<usize>) {
    match h {
        Handle::ArcSig(s) => write_acc!(s, v, a),
        Handle::Sig(s) => write_acc!(s, v, a),
        Handle::ArcSplit(_, s) => write_acc!(s, v, a),
        Handle::Split(_, s) => write_acc!(s, v, a),
        _ => {}
    }
}

/// memo constructor picked for node `id`: 0 = `new`, 1 = `new_owning`, 2 = `new_with_compare(f, |a, b| a != b)`
pub fn memo_ctor(acc: Option<usize>, id: usize) -> u8 {
    acc.map(|n| ((n + id) % 3) as u8).unwrap_or(0)
}

/// signal `id` is created by `signal()` / `arc_signal()` (split `ReadSignal` / `WriteSignal` pair) instead of
/// `RwSignal::new`: per case none / all / the even ids / the odd ids
pub fn sig_split(acc: Option<usize>, id: usize) -> bool {
    match acc.map(|n| n / 3 % 4) {
        None | Some(0) => false,
        Some(1) => true,
        Some(2) => id % 2 == 0,
        _ => id % 2 == 1,
    }
}

fn ne(a: Option<&i64>, b: Option<&i64>) -> bool {
    a != b
}

fn coarse<const K: i64>(a: Option<&i64>, b: Option<&i64>) -> bool {
    a.map(|x| x.div_euclid(K)) != b.map(|x| x.div_euclid(K))
}

/// the comparator is a `fn` pointer (cannot capture k): one instance per supported k
pub fn coarse_fn(k: i64) -> Option<fn(Option<&i64>, Option<&i64>) -> bool> {
    Some(match k {
        2 => coarse::<2>,
        3 => coarse::<3>,
        4 => coarse::<4>,
        5 => coarse::<5>,
        6 => coarse::<6>,
        7 => coarse::<7>,
        8 => coarse::<8>,
        9 => coarse::<9>,
        _ => return None,
    })
}

/// interpret an expression against the REAL reactive nodes (called from inside real closures)
fn interp(sh: &Sh, node: usize, e: &Expr) -> i64 {
    let mut pos = 0;
    interp_in(sh, e, false, node, &mut pos)
}

/// `pos` = preorder index of the next accessor site of node `node`'s body (skipped branches are counted)
fn interp_in(sh: &Sh, e: &Expr, in_unt: bool, node: usize, pos: &mut usize) -> i64 {
    match e {
        Expr::Lit(n) => *n,
        Expr::Unt(a) => untrack(|| interp_in(sh, a, true, node, pos)),
        Expr::Rd(tracked, id) => {
            let site = *pos;
            *pos += 1;
            let (h, r, acc) = {
                let g = sh.lock().unwrap();
                (g.handles.get(*id).cloned(), g.readers.get(*id).cloned(), g.acc)
            };
            let (Some(h), Some(r)) = (h, r) else { return 0 };
            // inside an `unt` scope the enclosing untrack already hides the observer
            let v = read_node(&h, &r, *tracked || in_unt, acc.map(|n| n + node * 7 + site));
            let mut g = sh.lock().unwrap();
            let ver = g.ver[*id];
            let expect = scratch(&g.defs, &g.env, *id);
            let defs_untracked_free = !g.defs.iter().any(|d| matches!(d, Def::Memo(b) if has_untracked(b)));
            g.clock += 1;
            let clock = g.clock;
            if let Some(top) = g.stack.last_mut() {
                if *tracked {
                    top.treads.push((*id, v, ver));
                    top.tclock.push(clock);
                }
                if defs_untracked_free && v != expect && top.glitch.is_none() {
                    top.glitch = Some((*id, v, expect));
                }
            }
            v
        }
        Expr::Add(a, b) => interp_in(sh, a, in_unt, node, pos).wrapping_add(interp_in(sh, b, in_unt, node, pos)),
        Expr::Mulc(k, a) => k.wrapping_mul(interp_in(sh, a, in_unt, node, pos)),
        Expr::Ite(c, t, f) => {
            if interp_in(sh, c, in_unt, node, pos) != 0 {
                let v = interp_in(sh, t, in_unt, node, pos);
                *pos += sites(f);
                v
            } else {
                *pos += sites(t);
                interp_in(sh, f, in_unt, node, pos)
            }
        }
        Expr::Seq(a, b) => {
            interp_in(sh, a, in_unt, node, pos);
            interp_in(sh, b, in_unt, node, pos)
        }
        Expr::Wr(id, a) => {
            let site = *pos;
            *pos += 1;
            let v = interp_in(sh, a, in_unt, node, pos);
            let (h, acc) = {
                let mut g = sh.lock().unwrap();
                if matches!(g.defs.get(*id), Some(Def::Sig(_))) {
                    g.env[*id] = v;
                    g.ver[*id] += 1;
                }
                (g.handles.get(*id).cloned(), g.acc)
            };
            if let Some(h) = h {
                write_handle(&h, v, acc.map(|n| n + node * 7 + site))
            }
            v
        }
    }
}

/// one invocation of node `id`'s body by the real system
fn invoke(sh: &Sh, id: usize, body: &Expr) -> i64 {
    {
        let mut g = sh.lock().unwrap();
        // wake-ups made so far belong to whatever ran before
        g.close_seg();
        // justification (C09): first run, or a tracked input of the previous run has a new version
        let justified = match &g.last[id] {
            None => true,
            Some(prev) => prev.treads.iter().any(|(x, _, vx)| g.ver[*x] != *vx),
        };
        g.stack.push(RunRec { node: id, justified, ..Default::default() });
    }
    let v = interp(sh, id, body);
    let mut g = sh.lock().unwrap();
    let mut rec = g.stack.pop().unwrap();
    rec.result = v;
    let changed = g.last[id].as_ref().map(|p| p.result) != Some(v);
    if changed {
        g.ver[id] += 1;
    }
    g.runs[id] += 1;
    g.last[id] = Some(rec.clone());
    g.log.push(rec);
    if let Some(Some((first, k))) = g.sel.get(id).cloned() {
        // the selector's source returned `v`: from now on `selected(j)` must answer `j == v`; the notifications that
        // follow (old key, new key, in hash-map order) form one wake segment
        for j in 0..k {
            let flag = (v == j as i64) as i64;
            if g.env[first + j] != flag {
                g.env[first + j] = flag;
                g.ver[first + j] += 1;
            }
        }
        g.sync_wakes();
        g.seg_open = true;
    }
    v
}

pub struct EffSlot {
    pub node: usize,
    owner: Owner,
    _effect: Option<Effect<reactive_graph::owner::LocalStorage>>,
    _effect_sync: Option<Effect<reactive_graph::owner::SyncStorage>>,
    render: Option<RenderEffect<i64>>,
    _selector: Option<Selector<i64>>,
    pub alive: bool,
    pub paused: bool,
    /// run count when last paused (excused from the convergence oracle until it runs again)
    pub paused_at_runs: Option<u64>,
}

pub struct Case {
    pub sh: Sh,
    owner: Owner,
    arena: bool,
    wrap: u8,
    pub effs: Vec<EffSlot>,
}

impl Case {
    pub fn new() -> Self {
        sched::install();
        sched::reset();
        let owner = Owner::new();
        owner.set();
        Case { sh: Arc::new(Mutex::new(Shared::default())), owner, arena: false, wrap: 0, effs: vec![] }
    }

    pub fn set_mode(&mut self, arena: bool) {
        self.arena = arena
    }

    /// 0 = read nodes directly, 1 = through `Signal::from(..)` / `ArcSignal::from(..)`,
    /// 2 = through a derived signal `Signal::derive(move || node.get())`
    pub fn set_wrap(&mut self, w: u8) {
        self.wrap = w
    }

    pub fn set_acc(&mut self, n: usize) {
        self.sh.lock().unwrap().acc = Some(n)
    }

    pub fn define(&mut self, d: Def) {
        self.define_kind(d, EffKind::Effect)
    }

    /// `memoc k expr`: a (leaf) memo with the coarse comparator
    pub fn define_memoc(&mut self, k: i64, b: Expr) {
        self.define_full(Def::Memo(b), EffKind::Effect, Some(k))
    }

    pub fn define_kind(&mut self, d: Def, kind: EffKind) {
        self.define_full(d, kind, None)
    }

    fn push_entry(&mut self, d: Def, h: Handle, reader: Reader, coarse: Option<i64>, sel: Option<(usize, usize)>) {
        let mut g = self.sh.lock().unwrap();
        g.env.push(if let Def::Sig(v) = &d { *v } else { 0 });
        g.defs.push(d);
        g.handles.push(h);
        g.readers.push(reader);
        g.ver.push(0);
        g.last.push(None);
        g.runs.push(0);
        g.coarse.push(coarse);
        g.sel.push(sel);
    }

    /// `sel K expr`: ids first..first+K-1 are the key nodes, first+K the selector node
    pub fn define_sel(&mut self, k: usize, b: Expr) {
        let first = self.sh.lock().unwrap().defs.len();
        let node = first + k;
        for j in 0..k {
            self.push_entry(Def::Key(node, j as i64), Handle::Eff, Reader::Direct, None, None);
        }
        self.push_entry(Def::Eff(b.clone()), Handle::Eff, Reader::Direct, None, Some((first, k)));
        // under its own child owner like every effect (root pause / resume reaches it)
        let child = self.owner.child();
        let sh = self.sh.clone();
        let sel = child.with(|| Selector::new(move || invoke(&sh, node, &b)));
        let wrap = self.wrap;
        let readers: Vec<Reader> = self.owner.with(|| {
            (0..k)
                .map(|j| {
                    if wrap == 2 {
                        let (s, j) = (sel.clone(), j as i64);
                        Reader::Wrapped(Signal::derive(move || s.selected(&j) as i64))
                    } else {
                        Reader::Direct
                    }
                })
                .collect()
        });
        {
            let mut g = self.sh.lock().unwrap();
            for (j, r) in readers.into_iter().enumerate() {
                g.handles[first + j] = Handle::Key(sel.clone(), j as i64);
                g.readers[first + j] = r;
            }
        }
        self.effs.push(EffSlot {
            node,
            owner: child,
            _effect: None,
            _effect_sync: None,
            render: None,
            _selector: Some(sel),
            alive: true,
            paused: false,
            paused_at_runs: None,
        });
    }

    fn define_full(&mut self, d: Def, kind: EffKind, coarse: Option<i64>) {
        let id = self.sh.lock().unwrap().defs.len();
        let sh = self.sh.clone();
        let arena = self.arena;
        let acc = self.sh.lock().unwrap().acc;
        let h = self.owner.with(|| match &d {
            Def::Sig(v) => match (arena, sig_split(acc, id)) {
                (true, false) => Handle::Sig(RwSignal::new(*v)),
                (false, false) => Handle::ArcSig(ArcRwSignal::new(*v)),
                (true, true) => {
                    let (r, w) = signal(*v);
                    Handle::Split(r, w)
                }
                (false, true) => {
                    let (r, w) = arc_signal(*v);
                    Handle::ArcSplit(r, w)
                }
            },
            Def::Memo(b) => {
                let b = b.clone();
                let cmp = coarse.and_then(coarse_fn);
                match (arena, cmp, memo_ctor(acc, id)) {
                    (true, Some(c), _) => Handle::Memo(Memo::new_with_compare(move |_| invoke(&sh, id, &b), c)),
                    (false, Some(c), _) => Handle::ArcMemo(ArcMemo::new_with_compare(move |_| invoke(&sh, id, &b), c)),
                    (true, None, 0) => Handle::Memo(Memo::new(move |_| invoke(&sh, id, &b))),
                    (false, None, 0) => Handle::ArcMemo(ArcMemo::new(move |_| invoke(&sh, id, &b))),
                    (true, None, 1) => Handle::Memo(Memo::new_owning(move |prev: Option<i64>| {
                        let v = invoke(&sh, id, &b);
                        (v, prev != Some(v))
                    })),
                    (false, None, 1) => Handle::ArcMemo(ArcMemo::new_owning(move |prev: Option<i64>| {
                        let v = invoke(&sh, id, &b);
                        (v, prev != Some(v))
                    })),
                    (true, None, _) => Handle::Memo(Memo::new_with_compare(move |_| invoke(&sh, id, &b), ne)),
                    (false, None, _) => Handle::ArcMemo(ArcMemo::new_with_compare(move |_| invoke(&sh, id, &b), ne)),
                }
            }
            Def::Eff(_) | Def::Key(..) => Handle::Eff,
        });
        let reader = self.owner.with(|| match (self.wrap, &h) {
            (1, Handle::Sig(x)) => Reader::Wrapped(Signal::from(*x)),
            (1, Handle::Split(x, _)) => Reader::Wrapped(Signal::from(*x)),
            (1, Handle::Memo(x)) => Reader::Wrapped(Signal::from(*x)),
            (1, Handle::ArcSig(x)) => Reader::ArcWrapped(ArcSignal::from(x.clone())),
            (1, Handle::ArcSplit(x, _)) => Reader::ArcWrapped(ArcSignal::from(x.clone())),
            (1, Handle::ArcMemo(x)) => Reader::ArcWrapped(ArcSignal::from(x.clone())),
            (2, Handle::Sig(x)) => {
                let x = *x;
                Reader::Wrapped(Signal::derive(move || x.get()))
            }
            (2, Handle::Split(x, _)) => {
                let x = *x;
                Reader::Wrapped(Signal::derive(move || x.get()))
            }
            (2, Handle::Memo(x)) => {
                let x = *x;
                Reader::Wrapped(Signal::derive(move || x.get()))
            }
            (2, Handle::ArcSig(x)) => {
                let x = x.clone();
                Reader::ArcWrapped(ArcSignal::derive(move || x.get()))
            }
            (2, Handle::ArcSplit(x, _)) => {
                let x = x.clone();
                Reader::ArcWrapped(ArcSignal::derive(move || x.get()))
            }
            (2, Handle::ArcMemo(x)) => {
                let x = x.clone();
                Reader::ArcWrapped(ArcSignal::derive(move || x.get()))
            }
            _ => Reader::Direct,
        });
        self.push_entry(d.clone(), h, reader, coarse, None);
        if let Def::Eff(b) = &d {
            // every effect lives under its own child owner so that it can be paused / disposed alone
            let child = self.owner.child();
            let b = b.clone();
            let sh = self.sh.clone();
            let (eff, eff_sync, render) = child.with(|| match kind {
                EffKind::Effect => (Some(Effect::new(move |_: Option<i64>| invoke(&sh, id, &b))), None, None),
                EffKind::Render => (None, None, Some(RenderEffect::new(move |_: Option<i64>| invoke(&sh, id, &b)))),
                EffKind::Sync => (None, Some(Effect::new_sync(move |_: Option<i64>| invoke(&sh, id, &b))), None),
                EffKind::Isomorphic => {
                    (None, Some(Effect::new_isomorphic(move |_: Option<i64>| invoke(&sh, id, &b))), None)
                }
                EffKind::Watch(immediate) => (
                    Some(Effect::watch(move || invoke(&sh, id, &b), |_: &i64, _: Option<&i64>, _: Option<()>| (), immediate)),
                    None,
                    None,
                ),
            });
            self.effs.push(EffSlot {
                node: id,
                owner: child,
                _effect: eff,
                _effect_sync: eff_sync,
                render,
                _selector: None,
                alive: true,
                paused: false,
                paused_at_runs: None,
            });
        }
    }

    pub fn eff_op(&mut self, node: usize, op: &str) -> bool {
        let runs = self.sh.lock().unwrap().runs.get(node).copied().unwrap_or(0);
        if self.sh.lock().unwrap().is_sel(node) {
            // a selector is not an owner-scoped effect: no pause / resume / dispose op on it (root pause reaches it)
            return false;
        }
        let Some(slot) = self.effs.iter_mut().find(|s| s.node == node) else { return false };
        match op {
            "pause" => {
                slot.owner.pause();
                slot.paused = true;
                slot.paused_at_runs = Some(runs);
            }
            "resume" => {
                slot.owner.resume();
                slot.paused = false;
            }
            "dispose" => {
                if slot.alive {
                    slot.alive = false;
                    slot.render = None;
                    slot.owner.cleanup();
                }
            }
            _ => return false,
        }
        true
    }

    /// does node `x` (by its last run's tracked reads) depend on signal `sig`?
    fn depends_on(g: &Shared, x: usize, sig: usize, depth: usize) -> bool {
        if x == sig {
            return true;
        }
        if depth == 0 {
            return false;
        }
        match (&g.defs[x], &g.last[x]) {
            (Def::Sig(_), _) | (Def::Key(..), _) => false,
            (_, Some(r)) => r.treads.iter().any(|t| Self::depends_on(g, t.0, sig, depth - 1)),
            _ => false,
        }
    }

    pub fn set(&mut self, id: usize, v: i64) -> bool {
        // the pause excuse covers only changes made DURING the pause: a write to a dependency of a
        // resumed effect ends it (the effect must be notified and run again)
        {
            let g = self.sh.lock().unwrap();
            for slot in self.effs.iter_mut() {
                if slot.alive && !slot.paused && slot.paused_at_runs.is_some() && Self::depends_on(&g, slot.node, id, 64) {
                    slot.paused_at_runs = None;
                }
            }
        }
        let h = {
            let mut g = self.sh.lock().unwrap();
            if !matches!(g.defs.get(id), Some(Def::Sig(_))) {
                return false;
            }
            g.env[id] = v;
            g.ver[id] += 1;
            g.op_sites += 1;
            (g.handles[id].clone(), g.acc.map(|n| n + g.op_sites))
        };
        write_handle(&h.0, v, h.1);
        true
    }

    pub fn read(&self, id: usize) -> Option<i64> {
        let (h, r, a) = {
            let mut g = self.sh.lock().unwrap();
            g.op_sites += 1;
            (g.handles.get(id).cloned()?, g.readers.get(id).cloned()?, g.acc.map(|n| n + g.op_sites))
        };
        if matches!(h, Handle::Eff) {
            return None;
        }
        Some(read_node(&h, &r, true, a))
    }

    /// `Owner::pause` / `Owner::resume` on the ROOT owner of the case (reaches every effect's owner)
    pub fn root_op(&mut self, op: &str) {
        let runs: Vec<u64> = self.sh.lock().unwrap().runs.clone();
        match op {
            "pauseall" => {
                self.owner.pause();
                for s in self.effs.iter_mut() {
                    if s.alive {
                        s.paused = true;
                        s.paused_at_runs = Some(runs[s.node]);
                    }
                }
            }
            _ => {
                self.owner.resume();
                for s in self.effs.iter_mut() {
                    s.paused = false;
                }
            }
        }
    }

    pub fn drain_log(&self) -> Vec<RunRec> {
        std::mem::take(&mut self.sh.lock().unwrap().log)
    }

    /// task ids woken since the last call, in canonical wake order (see `Shared::wakes`)
    pub fn take_wakes(&self) -> Vec<usize> {
        let mut g = self.sh.lock().unwrap();
        g.close_seg();
        std::mem::take(&mut g.wakes)
    }

    /// is the effect / selector node excused from the convergence oracle?
    pub fn excused(&self, node: usize, runs: &[u64]) -> bool {
        match self.effs.iter().find(|s| s.node == node) {
            Some(s) => !s.alive || s.paused || s.paused_at_runs == Some(runs[node]),
            None => false,
        }
    }

    /// effect node ids in definition order; the k-th spawned task is the k-th effect
    pub fn effect_ids(&self) -> Vec<usize> {
        let g = self.sh.lock().unwrap();
        g.defs.iter().enumerate().filter(|(_, d)| matches!(d, Def::Eff(_))).map(|(i, _)| i).collect()
    }

    /// ready effect node ids (woken tasks in spawn order)
    pub fn ready(&self) -> Vec<usize> {
        let eff = self.effect_ids();
        sched::ready().into_iter().filter_map(|t| eff.get(t).copied()).collect()
    }

    /// `Current(id)`: the last run of `id` saw exactly the values its tracked inputs have now
    pub fn current(&self, id: usize) -> bool {
        let g = self.sh.lock().unwrap();
        fn cur(g: &Shared, id: usize) -> bool {
            match &g.defs[id] {
                Def::Sig(_) | Def::Key(..) => true,
                _ => match &g.last[id] {
                    None => false,
                    Some(r) => r.treads.iter().all(|(x, v, _)| match &g.defs[*x] {
                        Def::Sig(_) | Def::Key(..) => g.env[*x] == *v,
                        _ => cur(g, *x) && g.last[*x].as_ref().map(|r| r.result) == Some(*v),
                    }),
                },
            }
        }
        cur(&g, id)
    }

    pub fn untracked_free(&self) -> bool {
        let g = self.sh.lock().unwrap();
        !g.defs.iter().any(|d| matches!(d, Def::Memo(b) | Def::Eff(b) if has_untracked(b)))
    }

    pub fn scratch(&self, id: usize) -> i64 {
        let g = self.sh.lock().unwrap();
        scratch(&g.defs, &g.env, id)
    }
}

impl Drop for Case {
    fn drop(&mut self) {
        self.effs.clear();
        // the handles hold closures that hold `sh`: break the cycle
        let (hs, rs) = {
            let mut g = self.sh.lock().unwrap();
            (std::mem::take(&mut g.handles), std::mem::take(&mut g.readers))
        };
        drop((hs, rs));
        self.owner.cleanup();
        sched::reset();
    }
}

pub fn parse_def(w: &[&str]) -> Option<Def> {
    match w {
        ["sig", v] => Some(Def::Sig(v.parse().ok()?)),
        ["memo", rest @ ..] => {
            let mut pos = 0;
            let e = parse_expr(rest, &mut pos)?;
            (pos == rest.len()).then_some(Def::Memo(e))
        }
        ["eff", rest @ ..] | ["reff", rest @ ..] | ["seff", rest @ ..] | ["ieff", rest @ ..] | ["weff", rest @ ..]
        | ["wieff", rest @ ..] => {
            let mut pos = 0;
            let e = parse_expr(rest, &mut pos)?;
            (pos == rest.len()).then_some(Def::Eff(e))
        }
        _ => None,
    }
}

pub mod gen;
pub mod modes;
