//! Shared interpreter for C01 / C09 / C02: builds a program of real `reactive_graph`
//! signals, memos and effects from op lines, runs histories, logs what the real code did,
//! and evaluates the properties' oracles independently of the Lean model.
//!
//! Op grammar (one per line):
//!   case <name>
//!   mode arc|arena                     (which handle family; echo `ok`)
//!   acc <n>                            accessor / constructor variety (echo `ok`): every read site, write site, signal
//!                                      and memo definition picks its accessor / constructor / handle family from
//!                                      n + its site index (see `tracked!`, `untracked!`, `write_acc!`, `memo_ctor`,
//!                                      `sig_split`); without the line everything is `.get()` / `.set()` / `Memo::new`
//!   sig <init>                         node ids are assigned in order of definition
//!   memo <expr>
//!   memoc <k> <expr>                   memo with the COARSE comparator `|a, b| a.div_euclid(k) != b.div_euclid(k)`
//!                                      (2 <= k <= 9).  A coarse comparator deliberately suppresses downstream
//!                                      notification, so a memoc node must be a LEAF: a later def that reads it is `bad-op`.
//!   sel <K> <expr>                     `Selector::new(move || expr)`: defines K+1 consecutive ids: key nodes for the keys
//!                                      0..K-1 (reading key node j = `selector.selected(&j) as i64`) and the selector node
//!                                      itself (an executor task like a render effect; not readable, no pause/dispose op)
//!   memoh <expr>                       leaf memo with the ASYMMETRIC comparator "high-water mark" `|old, new| new > old`
//!   wrap <w>                           how signals / memos are read: 0 directly, 1 `Signal::from` / `ArcSignal::from`,
//!                                      2 `Signal::derive` / `ArcSignal::derive`, 3 signals through `MappedSignal::new` /
//!                                      `ArcMappedSignal::new` (identity projection; WRITES go through it too),
//!                                      4 `MaybeSignal::from`, 5 `MaybeProp::from` (value `Some(v)`)
//!   ssig <a> <b>                       an `RwSignal<Two>` holding a struct of two i64 fields: two consecutive ids (field
//!                                      nodes).  Field nodes are written by `set` / `sset` and read by `read` ops and by
//!                                      slices only (a body that reads or writes one is `bad-op`)
//!   slice <f> <g> <s>                  `create_slice(rw, getter of field g, setter of field s)` (or `create_read_slice`
//!                                      + `create_write_slice`, from `acc`) over the struct signal whose first field node
//!                                      is <f>: a memo-like node whose value is field g; `sset <slice> <v>` calls its setter
//!   eff | reff | seff | ieff <expr>    Effect::new | RenderEffect::new | Effect::new_sync | Effect::new_isomorphic
//!   rieff <expr>                       RenderEffect::new_isomorphic
//!   weff | wieff | wseff | wsieff [h<id>] <expr>
//!                                      Effect::watch / watch_sync (i = immediate); the body is the dependency function,
//!                                      the handler reads signal <id> with `.get()` (or nothing)
//!   imeff <expr>                       ImmediateEffect::new: no executor task; runs at creation and inside notifications.
//!                                      Admitted bodies: no write, no untracked read, no key / field node, and the directly
//!                                      read nodes have pairwise disjoint signal ancestors (else `bad-op`): for those the
//!                                      effect runs exactly once per change and sees no mixture (see `imm_ok`)
//!   drop <memo>                        dispose (arena) / drop (arc) a memo that no node reads: it stays behind as a dead
//!                                      entry in its sources' subscriber lists; afterwards it cannot be read (`bad-op`)
//!   scope | endscope                   open / close a child owner: `sig` / `memo` / `memoc` / `memoh` defined in between are
//!                                      created under it, always in the reference-counted flavour (ArcRwSignal / arc_signal,
//!                                      ArcMemo with every constructor, ArcSignal / ArcMappedSignal wrappers); other defs are
//!                                      `bad-op` there; scopes do not nest
//!   cleanupscope <k>                   `Owner::cleanup` on the k-th scope's owner: its Arc nodes must keep working
//!   disposew <id>                      wrap signal / memo <id> in a fresh `Signal::from(..)` and `dispose()` that wrapper:
//!                                      nothing changes for the node and its other readers
//!   onclr <sig>                        (with `oncl`) the cleanup callbacks read signal <sig> with `.get()`: a cleanup is not part
//!                                      of the body, so this subscribes nobody
//!   setun <id> <v>                     untracked write (`update_untracked` / `write_untracked`) followed by an explicit
//!                                      `notify()` through the handle or its MappedSignal wrapper: the same as `set`
//!   wrap 6                             reads through `Signal<Option<T>>::from(Signal::from(node))`
//!   memof <sig>                        `ArcMemo::from(ArcRwSignal / ArcReadSignal)` (arena signals are converted first): a memo with
//!                                      body `R<sig>` whose closure the harness cannot instrument: its own runs are not listed
//!                                      in `runs=` (both sides); its version for the justification oracle = value changes of <sig>
//!   selc <K> <expr>                    `Selector::new_with_fn(source, |key, v| v == key || v == key + 1)` (a comparator that is not
//!                                      equality: a key matches two adjacent values), 2 <= K <= 8: K+2 consecutive ids: key nodes
//!                                      0..K-1, one hidden node (the model keeps the previous value there; not readable), the
//!                                      selector node.  `eruns=` lists a `selc` selector's runs without the values it read
//!   oncl                               every effect run registers one `on_cleanup` (C02 prints ` cl=<node>:<calls>,…`)
//!   set <id> <v> | sset <slice> <v> | read <id> | poll <i> | idle
//! <expr> prefix tokens: L<n> | R<id> (tracked read) | U<id> (read under untrack) |
//!   add e e | mulc <k> e | ite e e e | seq e e | wr <id> e
use hx_common::sched;
#[allow(deprecated)]
use reactive_graph::wrappers::read::MaybeSignal;
use reactive_graph::{
    computed::{create_read_slice, create_slice, create_write_slice, ArcMemo, Memo, Selector},
    effect::{Effect, ImmediateEffect, RenderEffect},
    graph::untrack,
    owner::{on_cleanup, Owner},
    signal::{
        arc_signal, signal, ArcMappedSignal, ArcReadSignal, ArcRwSignal, ArcWriteSignal, MappedSignal, ReadSignal, RwSignal,
        WriteSignal,
    },
    traits::{Get, GetUntracked, Notify, Read, ReadUntracked, Set, Update, UpdateUntracked, With, WithUntracked, Write},
    wrappers::{
        read::{ArcSignal, MaybeProp, Signal},
        write::SignalSetter,
    },
};
use std::cell::RefCell;
use std::sync::{Arc, Mutex};

thread_local! {
    /// the running case's shared state, for closures that cannot capture it: `Copy` slice getters and `fn` comparators
    static CUR: RefCell<Option<Sh>> = const { RefCell::new(None) };
}

/// the value of an `ssig` signal
#[derive(Clone, Debug, PartialEq)]
pub struct Two {
    pub a: i64,
    pub b: i64,
}

impl Two {
    fn get(&self, f: usize) -> i64 {
        if f == 0 { self.a } else { self.b }
    }
    fn put(&mut self, f: usize, v: i64) {
        if f == 0 { self.a = v } else { self.b = v }
    }
}

#[derive(Clone, Debug, PartialEq)]
pub enum Expr {
    Lit(i64),
    Rd(bool, usize),
    Add(Box<Expr>, Box<Expr>),
    Mulc(i64, Box<Expr>),
    Ite(Box<Expr>, Box<Expr>, Box<Expr>),
    Seq(Box<Expr>, Box<Expr>),
    Wr(usize, Box<Expr>),
    /// one `untrack(|| …)` scope around a sub-expression whose reads are all written `U<id>`;
    /// the model treats it as transparent (each inner read is already untracked)
    Unt(Box<Expr>),
}

pub fn parse_expr(toks: &[&str], pos: &mut usize) -> Option<Expr> {
    let t = *toks.get(*pos)?;
    *pos += 1;
    let sub = |pos: &mut usize| parse_expr(toks, pos).map(Box::new);
    Some(match t {
        "add" => Expr::Add(sub(pos)?, sub(pos)?),
        "mulc" => {
            let k: i64 = toks.get(*pos)?.parse().ok()?;
            *pos += 1;
            Expr::Mulc(k, sub(pos)?)
        }
        "ite" => Expr::Ite(sub(pos)?, sub(pos)?, sub(pos)?),
        "seq" => Expr::Seq(sub(pos)?, sub(pos)?),
        "unt" => Expr::Unt(sub(pos)?),
        "wr" => {
            let id: usize = toks.get(*pos)?.parse().ok()?;
            *pos += 1;
            Expr::Wr(id, sub(pos)?)
        }
        _ if t.starts_with('L') => Expr::Lit(t[1..].parse().ok()?),
        _ if t.starts_with('R') => Expr::Rd(true, t[1..].parse().ok()?),
        _ if t.starts_with('U') => Expr::Rd(false, t[1..].parse().ok()?),
        _ => return None,
    })
}

pub fn show_expr(e: &Expr) -> String {
    match e {
        Expr::Lit(n) => format!("L{n}"),
        Expr::Rd(true, i) => format!("R{i}"),
        Expr::Rd(false, i) => format!("U{i}"),
        Expr::Add(a, b) => format!("add {} {}", show_expr(a), show_expr(b)),
        Expr::Mulc(k, a) => format!("mulc {k} {}", show_expr(a)),
        Expr::Ite(c, t, e) => format!("ite {} {} {}", show_expr(c), show_expr(t), show_expr(e)),
        Expr::Seq(a, b) => format!("seq {} {}", show_expr(a), show_expr(b)),
        Expr::Wr(i, a) => format!("wr {i} {}", show_expr(a)),
        Expr::Unt(a) => format!("unt {}", show_expr(a)),
    }
}

#[derive(Clone, Debug, PartialEq)]
pub enum Def {
    Sig(i64),
    Memo(Expr),
    /// effects AND selector nodes (a selector node's body is its source expression; `Shared::sel` tells them apart)
    Eff(Expr),
    /// key node `j` of the selector node `.0`: reads `selector.selected(&j) as i64`
    Key(usize, i64),
}

/// how an effect node was created (the model sees both as `eff` nodes with different initial state)
#[derive(Clone, Copy, PartialEq)]
pub enum EffKind {
    Effect,
    Render,
    /// `Effect::new_sync`
    Sync,
    /// `Effect::new_isomorphic`
    Isomorphic,
    /// `Effect::watch(deps, handler, immediate)` / `Effect::watch_sync` (`sync`): the body is the dependency function
    Watch { immediate: bool, sync: bool },
    /// `RenderEffect::new_isomorphic`
    RenderIso,
    /// `ImmediateEffect::new`
    Immediate,
}

#[derive(Clone)]
enum Handle {
    ArcSig(ArcRwSignal<i64>),
    Sig(RwSignal<i64>),
    /// `arc_signal()` / `signal()`: the split read / write pair
    ArcSplit(ArcReadSignal<i64>, ArcWriteSignal<i64>),
    Split(ReadSignal<i64>, WriteSignal<i64>),
    ArcMemo(ArcMemo<i64>),
    Memo(Memo<i64>),
    Eff,
    Key(Selector<i64>, i64),
    /// field of an `ssig` signal
    Field(RwSignal<Two>, usize),
    /// `create_slice` / `create_read_slice` + `create_write_slice`
    Slice(Signal<i64>, SignalSetter<i64>),
}

/// how other nodes read a signal/memo: directly, or through a wrapper / derived signal
#[derive(Clone)]
enum Reader {
    Direct,
    Wrapped(Signal<i64>),
    ArcWrapped(ArcSignal<i64>),
    /// identity projections (signals only); writes go through them as well
    Mapped(MappedSignal<i64>),
    ArcMapped(ArcMappedSignal<i64>),
    #[allow(deprecated)]
    Maybe(MaybeSignal<i64>),
    Prop(MaybeProp<i64>),
    /// `Signal<Option<T>>::from(Signal<T>)`
    OptSig(Signal<Option<i64>>),
}

/// what one invocation of a body did (recorded by the interpreter inside the real closure)
#[derive(Clone, Debug, Default)]
pub struct RunRec {
    pub node: usize,
    /// tracked reads: (id, value returned, version of that node at read time)
    pub treads: Vec<(usize, i64, u64)>,
    pub result: i64,
    /// a read returned something else than the from-scratch value at that moment
    pub glitch: Option<(usize, i64, i64)>,
    pub justified: bool,
    /// global read clock at each tracked read (parallel to `treads`): when the subscription was (re)made
    pub tclock: Vec<u64>,
    /// the node's result before this run
    pub prev: Option<i64>,
}

#[derive(Default)]
pub struct Shared {
    pub defs: Vec<Def>,
    handles: Vec<Handle>,
    readers: Vec<Reader>,
    /// current signal values as written by the harness / by effects (oracle's env)
    pub env: Vec<i64>,
    /// versions: signals = writes; memos/effects = runs with a result different from the previous one
    pub ver: Vec<u64>,
    pub last: Vec<Option<RunRec>>,
    pub runs: Vec<u64>,
    /// invocations since the log was last drained, in order
    pub log: Vec<RunRec>,
    stack: Vec<RunRec>,
    clock: u64,
    /// `acc <n>`
    acc: Option<usize>,
    /// memoc nodes: the comparator's bucket width
    pub coarse: Vec<Option<i64>>,
    /// selector nodes: (first key node id, number of keys)
    pub sel: Vec<Option<(usize, usize)>>,
    /// number of harness-level read / set ops so far (their accessor site index)
    op_sites: usize,
    /// wake log of the current op in canonical form: task ids in wake order, except that the wake-ups made by one
    /// selector run's notifications (old key, new key: the real code walks a hash map) are sorted
    wakes: Vec<usize>,
    seg: Vec<usize>,
    seg_open: bool,
    /// the node whose body returned last (the comparator called next belongs to it)
    last_invoked: Option<usize>,
    /// first failure seen by the instrumentation (comparator arguments, `prev` argument, cleanup bookkeeping)
    pub bad: Option<String>,
    /// immediate effects (no executor task)
    pub imm: Vec<bool>,
    /// field nodes of `ssig` signals: (first field node, field index)
    pub field: Vec<Option<(usize, usize)>>,
    /// slice nodes: (first field node, getter field, setter field)
    pub slice: Vec<Option<(usize, usize, usize)>>,
    /// watch effects: the signal their handler reads
    handler_read: Vec<Option<usize>>,
    /// `oncl`
    pub oncl: bool,
    /// per effect node: runs whose `on_cleanup` has not been called yet
    cl_pending: Vec<Vec<u64>>,
    /// cleanup calls since the last drain (node ids)
    pub cl_calls: Vec<usize>,
    /// dropped memos
    pub dropped: Vec<usize>,
    /// `onclr`: the signal cleanup callbacks read
    pub onclr: Option<usize>,
    /// `memof` nodes: the signal they mirror
    pub from_of: Vec<Option<usize>>,
    /// selector nodes made by `selc`
    pub selc: Vec<usize>,
}

/// the `selc` comparator
pub fn selc_f(key: i64, v: i64) -> bool {
    v == key || v == key + 1
}

/// no previous value yet
pub const SELC_NONE: i64 = -1000;


impl Shared {
    /// move the executor's wake log into `wakes` (into the open selector segment, if any)
    fn sync_wakes(&mut self) {
        let w = sched::take_wakes();
        if self.seg_open {
            self.seg.extend(w)
        } else {
            self.wakes.extend(w)
        }
    }
    fn close_seg(&mut self) {
        self.sync_wakes();
        self.seg.sort();
        let seg = std::mem::take(&mut self.seg);
        self.wakes.extend(seg);
        self.seg_open = false;
    }
    pub fn is_sel(&self, id: usize) -> bool {
        matches!(self.sel.get(id), Some(Some(_)))
    }
    pub fn is_leaf(&self, id: usize) -> bool {
        matches!(self.coarse.get(id), Some(Some(_))) || self.dropped.contains(&id)
    }
    pub fn is_field(&self, id: usize) -> bool {
        matches!(self.field.get(id), Some(Some(_)))
    }
    pub fn is_imm(&self, id: usize) -> bool {
        self.imm.get(id).copied().unwrap_or(false)
    }
    /// signal `id` goes from `old` to `new`: a `memof` node over it has a new version iff the value differs
    fn note_write(&mut self, id: usize, old: i64, new: i64) {
        if old != new {
            for x in 0..self.from_of.len() {
                if self.from_of[x] == Some(id) {
                    self.ver[x] += 1;
                }
            }
        }
    }
    fn fail(&mut self, msg: String) {
        self.bad.get_or_insert(msg);
    }
}

/// signal ancestors of a node (through every read of memo bodies)
pub fn ancestors(defs: &[Def], id: usize, out: &mut Vec<usize>) {
    match defs.get(id) {
        Some(Def::Sig(_)) | Some(Def::Key(..)) => {
            if !out.contains(&id) {
                out.push(id)
            }
        }
        Some(Def::Memo(b)) | Some(Def::Eff(b)) => {
            let mut rs = vec![];
            direct_reads(b, &mut rs);
            for r in rs {
                ancestors(defs, r, out)
            }
        }
        None => {}
    }
}

pub fn direct_reads(e: &Expr, out: &mut Vec<usize>) {
    match e {
        Expr::Lit(_) => {}
        Expr::Rd(_, i) => {
            if !out.contains(i) {
                out.push(*i)
            }
        }
        Expr::Add(a, b) | Expr::Seq(a, b) => {
            direct_reads(a, out);
            direct_reads(b, out)
        }
        Expr::Mulc(_, a) | Expr::Wr(_, a) | Expr::Unt(a) => direct_reads(a, out),
        Expr::Ite(c, t, f) => {
            direct_reads(c, out);
            direct_reads(t, out);
            direct_reads(f, out)
        }
    }
}

/// Body admitted for an immediate effect.  An `ImmediateEffect` runs INSIDE the notification that reaches it; if two of
/// the nodes it reads directly depend on the written signal, it runs while the second one is not yet marked (it sees
/// new + old) and runs again afterwards.  With pairwise disjoint signal ancestors one write changes at most one of its
/// sources: one run per change, no mixture - the shapes the model's "run after the step" desugaring covers.
/// (Both restrictions describe real behaviour of the unchanged code: see hooks/imm-glitch-demo.)
pub fn imm_ok(defs: &[Def], e: &Expr) -> bool {
    if has_write(e) || has_untracked(e) {
        return false;
    }
    let mut rs = vec![];
    direct_reads(e, &mut rs);
    if rs.iter().any(|r| matches!(defs.get(*r), Some(Def::Key(..)))) {
        return false;
    }
    // depth <= 1: a directly read memo reads signals only.  Through a longer memo chain the effect's `mark_check` re-enters
    // the chain's own pull: the memo in the middle is recomputed twice, and a join memo is recomputed while one of its
    // sources is not yet marked (the effect then observes a value the memo never has from scratch).
    for r in &rs {
        if let Some(Def::Memo(b)) = defs.get(*r) {
            let mut inner = vec![];
            direct_reads(b, &mut inner);
            if inner.iter().any(|x| !matches!(defs.get(*x), Some(Def::Sig(_)))) {
                return false;
            }
        }
    }
    let anc: Vec<Vec<usize>> = rs
        .iter()
        .map(|r| {
            let mut v = vec![];
            ancestors(defs, *r, &mut v);
            v
        })
        .collect();
    for i in 0..anc.len() {
        for j in i + 1..anc.len() {
            if anc[i].iter().any(|x| anc[j].contains(x)) {
                return false;
            }
        }
    }
    true
}

pub type Sh = Arc<Mutex<Shared>>;

/// from-scratch value of a node given the oracle's env (independent of the reactive system)
/// Key nodes count as inputs here (like a signal written by an effect): their value is what the selector's last
/// run stored, kept in `env` by `invoke`.  `scratch_deep` looks through the selector.
pub fn scratch(defs: &[Def], env: &[i64], id: usize) -> i64 {
    match defs.get(id) {
        Some(Def::Sig(_)) | Some(Def::Key(..)) => env[id],
        Some(Def::Memo(b)) | Some(Def::Eff(b)) => eval_pure(defs, env, b),
        None => 0,
    }
}

/// from-scratch value where key node j of a selector is `(from-scratch value of the selector's source) == j`,
/// unless the selector is excused (paused / not run since it was paused / disposed): then the stored flag
pub fn scratch_deep(defs: &[Def], env: &[i64], excused: &dyn Fn(usize) -> bool, id: usize) -> i64 {
    match defs.get(id) {
        Some(Def::Sig(_)) => env[id],
        Some(Def::Key(s, j)) => {
            if excused(*s) {
                env[id]
            } else {
                let v = scratch_deep(defs, env, excused, *s);
                // `selc` keys are stored as 1000 + key, the hidden node as -1
                if *j >= 1000 {
                    selc_f(*j - 1000, v) as i64
                } else if *j < 0 {
                    env[id]
                } else {
                    (v == *j) as i64
                }
            }
        }
        Some(Def::Memo(b)) | Some(Def::Eff(b)) => eval_deep(defs, env, excused, b),
        None => 0,
    }
}

fn eval_deep(defs: &[Def], env: &[i64], ex: &dyn Fn(usize) -> bool, e: &Expr) -> i64 {
    match e {
        Expr::Lit(n) => *n,
        Expr::Rd(_, i) => scratch_deep(defs, env, ex, *i),
        Expr::Add(a, b) => eval_deep(defs, env, ex, a).wrapping_add(eval_deep(defs, env, ex, b)),
        Expr::Mulc(k, a) => k.wrapping_mul(eval_deep(defs, env, ex, a)),
        Expr::Ite(c, t, f) => {
            if eval_deep(defs, env, ex, c) != 0 { eval_deep(defs, env, ex, t) } else { eval_deep(defs, env, ex, f) }
        }
        Expr::Seq(_, b) => eval_deep(defs, env, ex, b),
        Expr::Wr(_, a) => eval_deep(defs, env, ex, a),
        Expr::Unt(a) => eval_deep(defs, env, ex, a),
    }
}

pub fn eval_pure(defs: &[Def], env: &[i64], e: &Expr) -> i64 {
    match e {
        Expr::Lit(n) => *n,
        Expr::Rd(_, i) => scratch(defs, env, *i),
        Expr::Add(a, b) => eval_pure(defs, env, a).wrapping_add(eval_pure(defs, env, b)),
        Expr::Mulc(k, a) => k.wrapping_mul(eval_pure(defs, env, a)),
        Expr::Ite(c, t, f) => {
            if eval_pure(defs, env, c) != 0 { eval_pure(defs, env, t) } else { eval_pure(defs, env, f) }
        }
        Expr::Seq(_, b) => eval_pure(defs, env, b),
        Expr::Wr(_, a) => eval_pure(defs, env, a),
        Expr::Unt(a) => eval_pure(defs, env, a),
    }
}

pub fn has_untracked(e: &Expr) -> bool {
    match e {
        Expr::Lit(_) => false,
        Expr::Rd(t, _) => !*t,
        Expr::Add(a, b) | Expr::Seq(a, b) => has_untracked(a) || has_untracked(b),
        Expr::Mulc(_, a) | Expr::Wr(_, a) => has_untracked(a),
        Expr::Unt(_) => true,
        Expr::Ite(c, t, e) => has_untracked(c) || has_untracked(t) || has_untracked(e),
    }
}

pub fn has_write(e: &Expr) -> bool {
    match e {
        Expr::Lit(_) | Expr::Rd(..) => false,
        Expr::Wr(..) => true,
        Expr::Add(a, b) | Expr::Seq(a, b) => has_write(a) || has_write(b),
        Expr::Mulc(_, a) | Expr::Unt(a) => has_write(a),
        Expr::Ite(c, t, e) => has_write(c) || has_write(t) || has_write(e),
    }
}

/// number of accessor sites (reads and writes) in an expression, in preorder
pub fn sites(e: &Expr) -> usize {
    match e {
        Expr::Lit(_) => 0,
        Expr::Rd(..) => 1,
        Expr::Add(a, b) | Expr::Seq(a, b) => sites(a) + sites(b),
        Expr::Mulc(_, a) | Expr::Unt(a) => sites(a),
        Expr::Wr(_, a) => 1 + sites(a),
        Expr::Ite(c, t, f) => sites(c) + sites(t) + sites(f),
    }
}

/// tracked read accessors (all equal in the model)
macro_rules! tracked {
    ($x:expr, $a:expr) => {
        match $a {
            None => $x.get(),
            Some(a) => match a % 3 {
                0 => $x.get(),
                1 => $x.with(|v| *v),
                _ => *$x.read(),
            },
        }
    };
}

/// untracked read accessors (`U<id>` outside an `unt` scope)
macro_rules! untracked {
    ($x:expr, $a:expr) => {
        match $a {
            None => untrack(|| $x.get()),
            Some(a) => match a % 5 {
                0 => untrack(|| $x.get()),
                1 => $x.get_untracked(),
                2 => $x.with_untracked(|v| *v),
                3 => *$x.read_untracked(),
                _ => $x.try_get_untracked().unwrap(),
            },
        }
    };
}

macro_rules! write_acc {
    ($x:expr, $v:expr, $a:expr) => {
        match $a {
            None => $x.set($v),
            Some(a) => match a % 4 {
                0 => $x.set($v),
                1 => $x.update(|x| *x = $v),
                2 => {
                    *$x.write() = $v;
                }
                _ => {
                    $x.try_set($v);
                }
            },
        }
    };
}

/// `MaybeProp<i64>`: the value is `Option<i64>`
macro_rules! tracked_opt {
    ($x:expr, $a:expr) => {
        match $a {
            None => $x.get().unwrap(),
            Some(a) => match a % 3 {
                0 => $x.get().unwrap(),
                1 => $x.with(|v| v.unwrap()),
                _ => (*$x.read()).unwrap(),
            },
        }
    };
}

macro_rules! untracked_opt {
    ($x:expr, $a:expr) => {
        match $a {
            None => untrack(|| $x.get().unwrap()),
            Some(a) => match a % 5 {
                0 => untrack(|| $x.get().unwrap()),
                1 => $x.get_untracked().unwrap(),
                2 => $x.with_untracked(|v| v.unwrap()),
                3 => (*$x.read_untracked()).unwrap(),
                _ => $x.try_get_untracked().unwrap().unwrap(),
            },
        }
    };
}

macro_rules! pick_opt {
    (tracked, $x:expr, $a:expr) => {
        tracked_opt!($x, $a)
    };
    (untracked, $x:expr, $a:expr) => {
        untracked_opt!($x, $a)
    };
}

macro_rules! read_with {
    ($m:ident, $h:expr, $r:expr, $a:expr) => {
        match $r {
            Reader::Wrapped(s) => $m!(s, $a),
            Reader::ArcWrapped(s) => $m!(s, $a),
            Reader::Mapped(s) => $m!(s, $a),
            Reader::ArcMapped(s) => $m!(s, $a),
            Reader::Maybe(s) => $m!(s, $a),
            Reader::Prop(s) => pick_opt!($m, s, $a),
            Reader::OptSig(s) => pick_opt!($m, s, $a),
            Reader::Direct => match $h {
                Handle::ArcSig(s) => $m!(s, $a),
                Handle::Sig(s) => $m!(s, $a),
                Handle::ArcSplit(s, _) => $m!(s, $a),
                Handle::Split(s, _) => $m!(s, $a),
                Handle::ArcMemo(m) => $m!(m, $a),
                Handle::Memo(m) => $m!(m, $a),
                Handle::Slice(s, _) => $m!(s, $a),
                Handle::Eff => 0,
                Handle::Key(..) | Handle::Field(..) => unreachable!(),
            },
        }
    };
}

/// `tracked` = false: the read is written `U<id>` and is not inside an `unt` scope
fn read_node(h: &Handle, r: &Reader, tracked: bool, a: Option<usize>) -> i64 {
    if let (Handle::Key(sel, j), Reader::Direct) = (h, r) {
        // a selector has one accessor
        return if tracked { sel.selected(j) as i64 } else { untrack(|| sel.selected(j) as i64) };
    }
    if let Handle::Field(rw, f) = h {
        // only `read` ops get here (no observer)
        let f = *f;
        return match a.map(|a| a % 3) {
            None | Some(0) => rw.get().get(f),
            Some(1) => rw.with(|t| t.get(f)),
            _ => rw.read().get(f),
        };
    }
    if tracked {
        read_with!(tracked, h, r, a)
    } else {
        read_with!(untracked, h, r, a)
    }
}

macro_rules! write_untracked_notify {
    ($x:expr, $v:expr, $a:expr) => {{
        match $a.map(|a| a % 2) {
            None | Some(0) => {
                $x.update_untracked(|x| *x = $v);
            }
            _ => {
                *$x.write_untracked() = $v;
            }
        }
        $x.notify();
    }};
}

/// `setun`: untracked write, then an explicit `notify()`
fn write_then_notify(h: &Handle, r: &Reader, v: i64, a: Option<usize>) -> bool {
    match r {
        Reader::Mapped(m) => {
            write_untracked_notify!(m, v, a);
            return true;
        }
        Reader::ArcMapped(m) => {
            write_untracked_notify!(m, v, a);
            return true;
        }
        _ => {}
    }
    match h {
        Handle::ArcSig(s) => write_untracked_notify!(s, v, a),
        Handle::Sig(s) => write_untracked_notify!(s, v, a),
        Handle::ArcSplit(_, s) => write_untracked_notify!(s, v, a),
        Handle::Split(_, s) => write_untracked_notify!(s, v, a),
        _ => return false,
    }
    true
}

fn write_handle(h: &Handle, r: &Reader, v: i64, a: Option<usize>) {
    match r {
        Reader::Mapped(m) => return write_acc!(m, v, a),
        Reader::ArcMapped(m) => return write_acc!(m, v, a),
        _ => {}
    }
    match h {
        Handle::Field(rw, f) => {
            let f = *f;
            match a.map(|a| a % 4) {
                None | Some(0) => rw.update(|t| t.put(f, v)),
                Some(1) => rw.write().put(f, v),
                Some(2) => {
                    let mut t = rw.get_untracked();
                    t.put(f, v);
                    rw.set(t)
                }
                _ => {
                    let mut t = rw.get_untracked();
                    t.put(f, v);
                    rw.try_set(t);
                }
            }
        }
        Handle::ArcSig(s) => write_acc!(s, v, a),
        Handle::Sig(s) => write_acc!(s, v, a),
        Handle::ArcSplit(_, s) => write_acc!(s, v, a),
        Handle::Split(_, s) => write_acc!(s, v, a),
        _ => {}
    }
}

/// memo constructor picked for node `id`: 0 = `new`, 1 = `new_owning`, 2 = `new_with_compare(f, |a, b| a != b)`
pub fn memo_ctor(acc: Option<usize>, id: usize) -> u8 {
    acc.map(|n| ((n + id) % 3) as u8).unwrap_or(0)
}

/// signal `id` is created by `signal()` / `arc_signal()` (split `ReadSignal` / `WriteSignal` pair) instead of
/// `RwSignal::new`: per case none / all / the even ids / the odd ids
pub fn sig_split(acc: Option<usize>, id: usize) -> bool {
    match acc.map(|n| n / 3 % 4) {
        None | Some(0) => false,
        Some(1) => true,
        Some(2) => id % 2 == 0,
        _ => id % 2 == 1,
    }
}

/// Every comparator handed to `new_with_compare` reports its arguments: the first must be the memo's previous value
/// (`None` on the first run), the second the value its body has just returned.
fn cmp_log(a: Option<&i64>, b: Option<&i64>) {
    CUR.with(|c| {
        if let Some(sh) = &*c.borrow() {
            let mut g = sh.lock().unwrap();
            if let Some(id) = g.last_invoked {
                let (prev, res) = match &g.last[id] {
                    Some(r) => (r.prev, Some(r.result)),
                    None => (None, None),
                };
                if a.copied() != prev || b.copied() != res {
                    g.fail(format!(
                        "comparator-args memo {id}: called with ({a:?}, {b:?}), previous value {prev:?}, computed value {res:?}"
                    ));
                }
            }
        }
    })
}

fn ne(a: Option<&i64>, b: Option<&i64>) -> bool {
    cmp_log(a, b);
    a != b
}

fn coarse<const K: i64>(a: Option<&i64>, b: Option<&i64>) -> bool {
    cmp_log(a, b);
    a.map(|x| x.div_euclid(K)) != b.map(|x| x.div_euclid(K))
}

/// asymmetric: only an increase counts as a change
fn highwater(a: Option<&i64>, b: Option<&i64>) -> bool {
    cmp_log(a, b);
    match (a, b) {
        (Some(a), Some(b)) => b > a,
        _ => true,
    }
}

/// the comparator is a `fn` pointer (cannot capture k): one instance per supported k
pub fn coarse_fn(k: i64) -> Option<fn(Option<&i64>, Option<&i64>) -> bool> {
    Some(match k {
        // `memoh`
        0 => highwater,
        2 => coarse::<2>,
        3 => coarse::<3>,
        4 => coarse::<4>,
        5 => coarse::<5>,
        6 => coarse::<6>,
        7 => coarse::<7>,
        8 => coarse::<8>,
        9 => coarse::<9>,
        _ => return None,
    })
}

/// interpret an expression against the REAL reactive nodes (called from inside real closures)
fn interp(sh: &Sh, node: usize, e: &Expr) -> i64 {
    let mut pos = 0;
    interp_in(sh, e, false, node, &mut pos)
}

/// `pos` = preorder index of the next accessor site of node `node`'s body (skipped branches are counted)
fn interp_in(sh: &Sh, e: &Expr, in_unt: bool, node: usize, pos: &mut usize) -> i64 {
    match e {
        Expr::Lit(n) => *n,
        Expr::Unt(a) => untrack(|| interp_in(sh, a, true, node, pos)),
        Expr::Rd(tracked, id) => {
            let site = *pos;
            *pos += 1;
            let (h, r, acc) = {
                let g = sh.lock().unwrap();
                (g.handles.get(*id).cloned(), g.readers.get(*id).cloned(), g.acc)
            };
            let (Some(h), Some(r)) = (h, r) else { return 0 };
            // inside an `unt` scope the enclosing untrack already hides the observer
            let v = read_node(&h, &r, *tracked || in_unt, acc.map(|n| n + node * 7 + site));
            let mut g = sh.lock().unwrap();
            let ver = g.ver[*id];
            let expect = scratch(&g.defs, &g.env, *id);
            let defs_untracked_free = !g.defs.iter().any(|d| matches!(d, Def::Memo(b) if has_untracked(b)));
            g.clock += 1;
            let clock = g.clock;
            if let Some(top) = g.stack.last_mut() {
                if *tracked {
                    top.treads.push((*id, v, ver));
                    top.tclock.push(clock);
                }
                if defs_untracked_free && v != expect && top.glitch.is_none() {
                    top.glitch = Some((*id, v, expect));
                }
            }
            v
        }
        Expr::Add(a, b) => interp_in(sh, a, in_unt, node, pos).wrapping_add(interp_in(sh, b, in_unt, node, pos)),
        Expr::Mulc(k, a) => k.wrapping_mul(interp_in(sh, a, in_unt, node, pos)),
        Expr::Ite(c, t, f) => {
            if interp_in(sh, c, in_unt, node, pos) != 0 {
                let v = interp_in(sh, t, in_unt, node, pos);
                *pos += sites(f);
                v
            } else {
                *pos += sites(t);
                interp_in(sh, f, in_unt, node, pos)
            }
        }
        Expr::Seq(a, b) => {
            interp_in(sh, a, in_unt, node, pos);
            interp_in(sh, b, in_unt, node, pos)
        }
        Expr::Wr(id, a) => {
            let site = *pos;
            *pos += 1;
            let v = interp_in(sh, a, in_unt, node, pos);
            let (h, acc) = {
                let mut g = sh.lock().unwrap();
                if matches!(g.defs.get(*id), Some(Def::Sig(_))) {
                    let old = g.env[*id];
                    g.note_write(*id, old, v);
                    g.env[*id] = v;
                    g.ver[*id] += 1;
                }
                (g.handles.get(*id).cloned().zip(g.readers.get(*id).cloned()), g.acc)
            };
            if let Some((h, r)) = h {
                write_handle(&h, &r, v, acc.map(|n| n + node * 7 + site))
            }
            v
        }
    }
}

/// bookkeeping at the start of an invocation of node `id`
fn begin_run(sh: &Sh, id: usize) {
    let register = {
        let mut g = sh.lock().unwrap();
        // wake-ups made so far belong to whatever ran before
        g.close_seg();
        // justification (C09): first run, or a tracked input of the previous run has a new version
        let justified = match &g.last[id] {
            None => true,
            Some(prev) => prev.treads.iter().any(|(x, _, vx)| g.ver[*x] != *vx),
        };
        g.stack.push(RunRec { node: id, justified, ..Default::default() });
        let eff = matches!(g.defs.get(id), Some(Def::Eff(_)));
        if g.oncl && eff {
            // exactly one cleanup call per superseded run: the previous run's must have happened by now
            if !g.cl_pending[id].is_empty() {
                let p = g.cl_pending[id].clone();
                let n = g.runs[id] + 1;
                g.fail(format!("cleanup-missed effect {id}: run {n} starts, on_cleanup of run(s) {p:?} not called"));
            }
            let gen = g.runs[id] + 1;
            g.cl_pending[id].push(gen);
            let rd = g.onclr.and_then(|s| g.handles.get(s).cloned().zip(g.readers.get(s).cloned()));
            Some((gen, rd))
        } else {
            None
        }
    };
    if let Some((gen, rd)) = register {
        let sh = sh.clone();
        on_cleanup(move || {
            // a cleanup callback may read reactive values; it is not the body: nobody gets subscribed by it
            if let Some((h, r)) = &rd {
                read_node(h, r, true, None);
            }
            let mut g = sh.lock().unwrap();
            match g.cl_pending[id].iter().position(|x| *x == gen) {
                Some(p) => {
                    g.cl_pending[id].remove(p);
                }
                None => g.fail(format!("cleanup-twice effect {id}: on_cleanup of run {gen} called again")),
            }
            g.cl_calls.push(id);
        });
    }
}

fn end_run(sh: &Sh, id: usize, v: i64) {
    let mut g = sh.lock().unwrap();
    let mut rec = g.stack.pop().unwrap();
    rec.result = v;
    rec.prev = g.last[id].as_ref().map(|p| p.result);
    let changed = rec.prev != Some(v);
    if changed {
        g.ver[id] += 1;
    }
    g.runs[id] += 1;
    g.last[id] = Some(rec.clone());
    g.log.push(rec);
    g.last_invoked = Some(id);
    if let Some(Some((first, k))) = g.sel.get(id).cloned() {
        // the selector's source returned `v`: from now on `selected(j)` must answer `j == v`; the notifications that
        // follow (old key, new key, in hash-map order) form one wake segment
        if g.selc.contains(&id) {
            // `new_with_fn`: when the value changed, every key that matches the old or the new value is notified
            // (whether or not its answer flips): that is what justifies a re-run of its readers
            let prev = g.env[first + k];
            for j in 0..k {
                let (new, old) = (selc_f(j as i64, v), prev != SELC_NONE && selc_f(j as i64, prev));
                g.env[first + j] = new as i64;
                if v != prev && (new || old) {
                    g.ver[first + j] += 1;
                }
            }
            g.env[first + k] = v;
        } else {
            for j in 0..k {
                let flag = (v == j as i64) as i64;
                if g.env[first + j] != flag {
                    g.env[first + j] = flag;
                    g.ver[first + j] += 1;
                }
            }
        }
        g.sync_wakes();
        g.seg_open = true;
    }
}

/// one invocation of node `id`'s body by the real system
fn invoke(sh: &Sh, id: usize, body: &Expr) -> i64 {
    begin_run(sh, id);
    let v = interp(sh, id, body);
    end_run(sh, id, v);
    v
}

/// a memo body: `prev` is the previous value as the real constructor handed it to the closure
fn invoke_memo(sh: &Sh, id: usize, body: &Expr, prev: Option<i64>) -> i64 {
    let v = invoke(sh, id, body);
    let mut g = sh.lock().unwrap();
    let want = g.last[id].as_ref().and_then(|r| r.prev);
    if prev != want {
        g.fail(format!("prev-arg memo {id}: closure got {prev:?}, previous value {want:?}"));
    }
    v
}

/// the getter of a slice (a `Copy` closure: it finds the case through `CUR`): one invocation of the slice's memo,
/// reading both fields of the struct signal (the memo is subscribed to the whole signal)
fn slice_get(id: usize, t: &Two) -> i64 {
    let Some(sh) = CUR.with(|c| c.borrow().clone()) else { return 0 };
    let Some(Some((first, gf, _))) = sh.lock().unwrap().slice.get(id).cloned() else { return 0 };
    begin_run(&sh, id);
    {
        let mut g = sh.lock().unwrap();
        // same order as the model's body `seq R<other> R<field>`
        for f in [1 - gf, gf] {
            let x = first + f;
            let (v, ver, expect) = (t.get(f), g.ver[x], g.env[x]);
            g.clock += 1;
            let clock = g.clock;
            let top = g.stack.last_mut().unwrap();
            top.treads.push((x, v, ver));
            top.tclock.push(clock);
            if v != expect && top.glitch.is_none() {
                top.glitch = Some((x, v, expect));
            }
        }
    }
    let v = t.get(gf);
    end_run(&sh, id, v);
    v
}

pub struct EffSlot {
    pub node: usize,
    owner: Owner,
    _effect: Option<Effect<reactive_graph::owner::LocalStorage>>,
    _effect_sync: Option<Effect<reactive_graph::owner::SyncStorage>>,
    render: Option<RenderEffect<i64>>,
    _selector: Option<Selector<i64>>,
    _immediate: Option<ImmediateEffect>,
    pub alive: bool,
    pub paused: bool,
    /// run count when last paused (excused from the convergence oracle until it runs again)
    pub paused_at_runs: Option<u64>,
}

pub struct Case {
    pub sh: Sh,
    owner: Owner,
    arena: bool,
    wrap: u8,
    pub effs: Vec<EffSlot>,
    pending_handler: Option<usize>,
    /// child owners opened by `scope`, and the one defs currently go to
    scopes: Vec<(Owner, bool)>,
    cur_scope: Option<usize>,
}

impl Case {
    pub fn new() -> Self {
        sched::install();
        sched::reset();
        let owner = Owner::new();
        owner.set();
        let sh: Sh = Arc::new(Mutex::new(Shared::default()));
        CUR.with(|c| *c.borrow_mut() = Some(sh.clone()));
        Case { sh, owner, arena: false, wrap: 0, effs: vec![], pending_handler: None, scopes: vec![], cur_scope: None }
    }

    pub fn set_mode(&mut self, arena: bool) {
        self.arena = arena
    }

    /// 0 = read nodes directly, 1 = through `Signal::from(..)` / `ArcSignal::from(..)`,
    /// 2 = through a derived signal `Signal::derive(move || node.get())`
    pub fn set_wrap(&mut self, w: u8) {
        self.wrap = w
    }

    pub fn set_acc(&mut self, n: usize) {
        self.sh.lock().unwrap().acc = Some(n)
    }

    /// `drop <memo>`: only a memo nobody reads
    pub fn drop_memo(&mut self, id: usize) -> bool {
        let (h, r) = {
            let mut g = self.sh.lock().unwrap();
            let ok = matches!(g.defs.get(id), Some(Def::Memo(_)))
                && g.slice.get(id).cloned().flatten().is_none()
                && !g.dropped.contains(&id)
                && !g.defs.iter().any(|d| match d {
                    Def::Memo(b) | Def::Eff(b) => {
                        let mut v = vec![];
                        direct_reads(b, &mut v);
                        v.contains(&id)
                    }
                    _ => false,
                });
            if !ok {
                return false;
            }
            g.dropped.push(id);
            (std::mem::replace(&mut g.handles[id], Handle::Eff), std::mem::replace(&mut g.readers[id], Reader::Direct))
        };
        use reactive_graph::traits::Dispose;
        match r {
            Reader::Wrapped(s) => s.dispose(),
            #[allow(deprecated)]
            Reader::Maybe(MaybeSignal::Dynamic(s)) => s.dispose(),
            _ => {}
        }
        if let Handle::Memo(m) = h {
            m.dispose()
        }
        true
    }

    pub fn in_scope(&self) -> bool {
        self.cur_scope.is_some()
    }

    pub fn scope_op(&mut self, op: &str, k: Option<usize>) -> bool {
        match (op, k) {
            ("scope", None) if self.cur_scope.is_none() => {
                self.scopes.push((self.owner.child(), false));
                self.cur_scope = Some(self.scopes.len() - 1);
            }
            ("endscope", None) if self.cur_scope.is_some() => self.cur_scope = None,
            ("cleanupscope", Some(k)) if self.cur_scope != Some(k) && self.scopes.get(k).map(|s| !s.1).unwrap_or(false) => {
                self.scopes[k].1 = true;
                self.scopes[k].0.cleanup();
            }
            _ => return false,
        }
        true
    }

    /// `disposew <id>`: a fresh arena wrapper around the node, disposed at once
    pub fn dispose_wrapper(&mut self, id: usize) -> bool {
        use reactive_graph::traits::Dispose;
        let h = {
            let g = self.sh.lock().unwrap();
            if g.dropped.contains(&id) || g.is_field(id) {
                return false;
            }
            g.handles.get(id).cloned()
        };
        let w: Signal<i64> = match h {
            Some(Handle::Sig(x)) => Signal::from(x),
            Some(Handle::Split(x, _)) => Signal::from(x),
            Some(Handle::ArcSig(x)) => Signal::from(x),
            Some(Handle::ArcSplit(x, _)) => Signal::from(x),
            Some(Handle::Memo(x)) => Signal::from(x),
            Some(Handle::ArcMemo(x)) => Signal::from(x),
            _ => return false,
        };
        w.dispose();
        true
    }

    pub fn set_oncl(&mut self) {
        self.sh.lock().unwrap().oncl = true
    }

    /// `ssig a b`: two field nodes over one `RwSignal<Two>` (always the arena type: slices take an `RwSignal`)
    pub fn define_struct(&mut self, a: i64, b: i64) {
        let rw = self.owner.with(|| RwSignal::new(Two { a, b }));
        let first = self.sh.lock().unwrap().defs.len();
        for (f, v) in [a, b].into_iter().enumerate() {
            self.push_entry(Def::Sig(v), Handle::Field(rw, f), Reader::Direct, None, None);
            self.sh.lock().unwrap().field[first + f] = Some((first, f));
        }
    }

    /// `slice f g s`
    pub fn define_slice(&mut self, first: usize, gf: usize, sf: usize) -> bool {
        let (rw, id, acc) = {
            let g = self.sh.lock().unwrap();
            let Some(Handle::Field(rw, 0)) = g.handles.get(first) else { return false };
            (*rw, g.defs.len(), g.acc)
        };
        if gf > 1 || sf > 1 {
            return false;
        }
        // for the oracle the slice is a memo over both fields whose value is field g
        let body = Expr::Seq(Box::new(Expr::Rd(true, first + 1 - gf)), Box::new(Expr::Rd(true, first + gf)));
        self.push_entry(Def::Memo(body), Handle::Eff, Reader::Direct, None, None);
        self.sh.lock().unwrap().slice[id] = Some((first, gf, sf));
        let getter = move |t: &Two| slice_get(id, t);
        let setter = move |t: &mut Two, v: i64| t.put(sf, v);
        let (r, w) = self.owner.with(|| {
            if acc.map(|n| (n + id) % 2 == 1).unwrap_or(false) {
                (create_read_slice(rw, getter), create_write_slice(rw, setter))
            } else {
                create_slice(rw, getter, setter)
            }
        });
        self.sh.lock().unwrap().handles[id] = Handle::Slice(r, w);
        true
    }

    /// `sset <slice> <v>`: through the slice's setter
    pub fn sset(&mut self, id: usize, v: i64) -> Option<usize> {
        let (w, target) = {
            let mut g = self.sh.lock().unwrap();
            let (first, _, sf) = g.slice.get(id).cloned()??;
            let Some(Handle::Slice(_, w)) = g.handles.get(id).cloned() else { return None };
            g.env[first + sf] = v;
            g.ver[first + sf] += 1;
            (w, first + sf)
        };
        self.end_excuses(target);
        w.set(v);
        Some(target)
    }

    pub fn define(&mut self, d: Def) {
        self.define_kind(d, EffKind::Effect)
    }

    /// `memoc k expr`: a (leaf) memo with the coarse comparator
    pub fn define_memoc(&mut self, k: i64, b: Expr) {
        self.define_full(Def::Memo(b), EffKind::Effect, Some(k))
    }

    pub fn define_kind(&mut self, d: Def, kind: EffKind) {
        self.define_full(d, kind, None)
    }

    fn push_entry(&mut self, d: Def, h: Handle, reader: Reader, coarse: Option<i64>, sel: Option<(usize, usize)>) {
        let mut g = self.sh.lock().unwrap();
        g.env.push(if let Def::Sig(v) = &d { *v } else { 0 });
        g.defs.push(d);
        g.handles.push(h);
        g.readers.push(reader);
        g.ver.push(0);
        g.last.push(None);
        g.runs.push(0);
        g.coarse.push(coarse);
        g.sel.push(sel);
        g.imm.push(false);
        g.field.push(None);
        g.slice.push(None);
        g.handler_read.push(None);
        g.cl_pending.push(vec![]);
        g.from_of.push(None);
    }

    /// `sel K expr`: ids first..first+K-1 are the key nodes, first+K the selector node
    pub fn define_sel(&mut self, k: usize, b: Expr) {
        self.define_sel_with(k, b, false)
    }

    /// `custom`: `selc` (comparator `selc_f`, one hidden node between the keys and the selector node)
    pub fn define_sel_with(&mut self, k: usize, b: Expr, custom: bool) {
        let first = self.sh.lock().unwrap().defs.len();
        let node = first + k + custom as usize;
        for j in 0..k {
            let tag = if custom { 1000 + j as i64 } else { j as i64 };
            self.push_entry(Def::Key(node, tag), Handle::Eff, Reader::Direct, None, None);
        }
        if custom {
            self.push_entry(Def::Key(node, -1), Handle::Eff, Reader::Direct, None, None);
            let mut g = self.sh.lock().unwrap();
            g.env[first + k] = SELC_NONE;
            g.dropped.push(first + k);
            g.selc.push(node);
        }
        self.push_entry(Def::Eff(b.clone()), Handle::Eff, Reader::Direct, None, Some((first, k)));
        // under its own child owner like every effect (root pause / resume reaches it)
        let child = self.owner.child();
        let sh = self.sh.clone();
        let sel = child.with(|| {
            if custom {
                Selector::new_with_fn(move || invoke(&sh, node, &b), |key: &i64, v: &i64| selc_f(*key, *v))
            } else {
                Selector::new(move || invoke(&sh, node, &b))
            }
        });
        let wrap = self.wrap;
        let readers: Vec<Reader> = self.owner.with(|| {
            (0..k)
                .map(|j| {
                    if wrap == 2 {
                        let (s, j) = (sel.clone(), j as i64);
                        Reader::Wrapped(Signal::derive(move || s.selected(&j) as i64))
                    } else {
                        Reader::Direct
                    }
                })
                .collect()
        });
        {
            let mut g = self.sh.lock().unwrap();
            for (j, r) in readers.into_iter().enumerate() {
                g.handles[first + j] = Handle::Key(sel.clone(), j as i64);
                g.readers[first + j] = r;
            }
        }
        self.effs.push(EffSlot {
            node,
            owner: child,
            _effect: None,
            _effect_sync: None,
            render: None,
            _selector: Some(sel),
            _immediate: None,
            alive: true,
            paused: false,
            paused_at_runs: None,
        });
    }

    /// a watch effect whose handler reads signal `h`
    pub fn define_watch(&mut self, d: Def, kind: EffKind, h: Option<usize>) {
        let id = self.sh.lock().unwrap().defs.len();
        self.pending_handler = h;
        self.define_full(d, kind, None);
        self.sh.lock().unwrap().handler_read[id] = h;
    }

    fn define_full(&mut self, d: Def, kind: EffKind, coarse: Option<i64>) {
        let id = self.sh.lock().unwrap().defs.len();
        let sh = self.sh.clone();
        // inside a scope every node is reference counted (it has to outlive the scope's cleanup), and the wrapper
        // families that allocate arena items (MaybeSignal / MaybeProp) are not used
        let scoped = self.cur_scope.is_some();
        let arena = self.arena && !scoped;
        let wrap = if scoped && self.wrap >= 4 { 0 } else { self.wrap };
        let def_owner = match self.cur_scope {
            Some(k) => self.scopes[k].0.clone(),
            None => self.owner.clone(),
        };
        let acc = self.sh.lock().unwrap().acc;
        let h = def_owner.with(|| match &d {
            Def::Sig(v) => match (arena, sig_split(acc, id) && wrap != 3) {
                (true, false) => Handle::Sig(RwSignal::new(*v)),
                (false, false) => Handle::ArcSig(ArcRwSignal::new(*v)),
                (true, true) => {
                    let (r, w) = signal(*v);
                    Handle::Split(r, w)
                }
                (false, true) => {
                    let (r, w) = arc_signal(*v);
                    Handle::ArcSplit(r, w)
                }
            },
            Def::Memo(b) => {
                let b = b.clone();
                let cmp = coarse.and_then(coarse_fn);
                match (arena, cmp, memo_ctor(acc, id)) {
                    (true, Some(c), _) => {
                        Handle::Memo(Memo::new_with_compare(move |p| invoke_memo(&sh, id, &b, p.copied()), c))
                    }
                    (false, Some(c), _) => {
                        Handle::ArcMemo(ArcMemo::new_with_compare(move |p| invoke_memo(&sh, id, &b, p.copied()), c))
                    }
                    (true, None, 0) => Handle::Memo(Memo::new(move |p| invoke_memo(&sh, id, &b, p.copied()))),
                    (false, None, 0) => Handle::ArcMemo(ArcMemo::new(move |p| invoke_memo(&sh, id, &b, p.copied()))),
                    (true, None, 1) => Handle::Memo(Memo::new_owning(move |prev: Option<i64>| {
                        let v = invoke_memo(&sh, id, &b, prev);
                        (v, prev != Some(v))
                    })),
                    (false, None, 1) => Handle::ArcMemo(ArcMemo::new_owning(move |prev: Option<i64>| {
                        let v = invoke_memo(&sh, id, &b, prev);
                        (v, prev != Some(v))
                    })),
                    (true, None, _) => {
                        Handle::Memo(Memo::new_with_compare(move |p| invoke_memo(&sh, id, &b, p.copied()), ne))
                    }
                    (false, None, _) => {
                        Handle::ArcMemo(ArcMemo::new_with_compare(move |p| invoke_memo(&sh, id, &b, p.copied()), ne))
                    }
                }
            }
            Def::Eff(_) | Def::Key(..) => Handle::Eff,
        });
        let reader = def_owner.with(|| match (wrap, &h) {
            (1, Handle::Sig(x)) => Reader::Wrapped(Signal::from(*x)),
            (1, Handle::Split(x, _)) => Reader::Wrapped(Signal::from(*x)),
            (1, Handle::Memo(x)) => Reader::Wrapped(Signal::from(*x)),
            (1, Handle::ArcSig(x)) => Reader::ArcWrapped(ArcSignal::from(x.clone())),
            (1, Handle::ArcSplit(x, _)) => Reader::ArcWrapped(ArcSignal::from(x.clone())),
            (1, Handle::ArcMemo(x)) => Reader::ArcWrapped(ArcSignal::from(x.clone())),
            (2, Handle::Sig(x)) => {
                let x = *x;
                Reader::Wrapped(Signal::derive(move || x.get()))
            }
            (2, Handle::Split(x, _)) => {
                let x = *x;
                Reader::Wrapped(Signal::derive(move || x.get()))
            }
            (2, Handle::Memo(x)) => {
                let x = *x;
                Reader::Wrapped(Signal::derive(move || x.get()))
            }
            (2, Handle::ArcSig(x)) => {
                let x = x.clone();
                Reader::ArcWrapped(ArcSignal::derive(move || x.get()))
            }
            (2, Handle::ArcSplit(x, _)) => {
                let x = x.clone();
                Reader::ArcWrapped(ArcSignal::derive(move || x.get()))
            }
            (2, Handle::ArcMemo(x)) => {
                let x = x.clone();
                Reader::ArcWrapped(ArcSignal::derive(move || x.get()))
            }
            (3, Handle::Sig(x)) => Reader::Mapped(MappedSignal::new(*x, |v| v, |v| v)),
            (3, Handle::ArcSig(x)) => Reader::ArcMapped(ArcMappedSignal::new(x.clone(), |v| v, |v| v)),
            #[allow(deprecated)]
            (4, Handle::Sig(x)) => Reader::Maybe(MaybeSignal::from(*x)),
            #[allow(deprecated)]
            (4, Handle::Split(x, _)) => Reader::Maybe(MaybeSignal::from(*x)),
            #[allow(deprecated)]
            (4, Handle::Memo(x)) => Reader::Maybe(MaybeSignal::from(*x)),
            #[allow(deprecated)]
            (4, Handle::ArcSig(x)) => Reader::Maybe(MaybeSignal::from(x.clone())),
            #[allow(deprecated)]
            (4, Handle::ArcSplit(x, _)) => Reader::Maybe(MaybeSignal::from(x.clone())),
            #[allow(deprecated)]
            (4, Handle::ArcMemo(x)) => Reader::Maybe(MaybeSignal::from(x.clone())),
            (5, Handle::Sig(x)) => Reader::Prop(MaybeProp::from(*x)),
            (5, Handle::Split(x, _)) => Reader::Prop(MaybeProp::from(*x)),
            (5, Handle::Memo(x)) => Reader::Prop(MaybeProp::from(*x)),
            (6, Handle::Sig(x)) => Reader::OptSig(Signal::<Option<i64>>::from(Signal::<i64>::from(*x))),
            (6, Handle::Split(x, _)) => Reader::OptSig(Signal::<Option<i64>>::from(Signal::<i64>::from(*x))),
            (6, Handle::Memo(x)) => Reader::OptSig(Signal::<Option<i64>>::from(Signal::<i64>::from(*x))),
            (6, Handle::ArcSig(x)) => Reader::OptSig(Signal::<Option<i64>>::from(Signal::<i64>::from(x.clone()))),
            (6, Handle::ArcSplit(x, _)) => Reader::OptSig(Signal::<Option<i64>>::from(Signal::<i64>::from(x.clone()))),
            (6, Handle::ArcMemo(x)) => Reader::OptSig(Signal::<Option<i64>>::from(Signal::<i64>::from(x.clone()))),
            _ => Reader::Direct,
        });
        self.push_entry(d.clone(), h, reader, coarse, None);
        if let Def::Eff(b) = &d {
            // every effect lives under its own child owner so that it can be paused / disposed alone
            let child = self.owner.child();
            let b = b.clone();
            let sh = self.sh.clone();
            let hread = self.pending_handler.take().and_then(|h| {
                let g = self.sh.lock().unwrap();
                g.handles.get(h).cloned().zip(g.readers.get(h).cloned())
            });
            // the watch handler reads its signal with a tracking accessor; by contract that subscribes nobody
            let handler = move |_: &i64, _: Option<&i64>, _: Option<()>| {
                if let Some((h, r)) = &hread {
                    read_node(h, r, true, None);
                }
            };
            if kind == EffKind::Immediate {
                self.sh.lock().unwrap().imm[id] = true;
            }
            let mut immediate_eff = None;
            let (eff, eff_sync, render) = child.with(|| match kind {
                EffKind::Effect => (Some(Effect::new(move |_: Option<i64>| invoke(&sh, id, &b))), None, None),
                EffKind::Render => (None, None, Some(RenderEffect::new(move |_: Option<i64>| invoke(&sh, id, &b)))),
                EffKind::RenderIso => {
                    (None, None, Some(RenderEffect::new_isomorphic(move |_: Option<i64>| invoke(&sh, id, &b))))
                }
                EffKind::Sync => (None, Some(Effect::new_sync(move |_: Option<i64>| invoke(&sh, id, &b))), None),
                EffKind::Isomorphic => {
                    (None, Some(Effect::new_isomorphic(move |_: Option<i64>| invoke(&sh, id, &b))), None)
                }
                EffKind::Watch { immediate, sync: false } => {
                    (Some(Effect::watch(move || invoke(&sh, id, &b), handler, immediate)), None, None)
                }
                EffKind::Watch { immediate, sync: true } => {
                    (None, Some(Effect::watch_sync(move || invoke(&sh, id, &b), handler, immediate)), None)
                }
                EffKind::Immediate => {
                    immediate_eff = Some(ImmediateEffect::new(move || {
                        invoke(&sh, id, &b);
                    }));
                    (None, None, None)
                }
            });
            self.effs.push(EffSlot {
                node: id,
                owner: child,
                _effect: eff,
                _effect_sync: eff_sync,
                render,
                _selector: None,
                _immediate: immediate_eff,
                alive: true,
                paused: false,
                paused_at_runs: None,
            });
        }
    }

    pub fn eff_op(&mut self, node: usize, op: &str) -> bool {
        let runs = self.sh.lock().unwrap().runs.get(node).copied().unwrap_or(0);
        if self.sh.lock().unwrap().is_sel(node) || self.sh.lock().unwrap().is_imm(node) {
            // a selector is not an owner-scoped effect: no pause / resume / dispose op on it (root pause reaches it)
            return false;
        }
        let Some(slot) = self.effs.iter_mut().find(|s| s.node == node) else { return false };
        match op {
            "pause" => {
                slot.owner.pause();
                slot.paused = true;
                slot.paused_at_runs = Some(runs);
            }
            "resume" => {
                slot.owner.resume();
                slot.paused = false;
            }
            "dispose" => {
                if slot.alive {
                    slot.alive = false;
                    slot.render = None;
                    slot.owner.cleanup();
                }
            }
            _ => return false,
        }
        true
    }

    /// does node `x` (by its last run's tracked reads) depend on signal `sig`?
    fn depends_on(g: &Shared, x: usize, sig: usize, depth: usize) -> bool {
        if x == sig {
            return true;
        }
        if depth == 0 {
            return false;
        }
        match (&g.defs[x], &g.last[x]) {
            (Def::Sig(_), _) | (Def::Key(..), _) => false,
            _ if g.from_of[x].is_some() => Self::depends_on(g, g.from_of[x].unwrap(), sig, depth - 1),
            (_, Some(r)) => r.treads.iter().any(|t| Self::depends_on(g, t.0, sig, depth - 1)),
            _ => false,
        }
    }

    /// the pause excuse covers only changes made DURING the pause: a write to a dependency of a
    /// resumed effect ends it (the effect must be notified and run again)
    fn end_excuses(&mut self, id: usize) {
        let g = self.sh.lock().unwrap();
        for slot in self.effs.iter_mut() {
            if slot.alive && !slot.paused && slot.paused_at_runs.is_some() && Self::depends_on(&g, slot.node, id, 64) {
                slot.paused_at_runs = None;
            }
        }
    }

    /// `memof <sig>`
    pub fn define_from(&mut self, sig: usize) -> bool {
        let (h, id) = {
            let g = self.sh.lock().unwrap();
            if !matches!(g.defs.get(sig), Some(Def::Sig(_))) || g.is_field(sig) {
                return false;
            }
            (g.handles[sig].clone(), g.defs.len())
        };
        let m = self.owner.with(|| match h {
            Handle::ArcSig(x) => Some(ArcMemo::from(x)),
            Handle::ArcSplit(r, _) => Some(ArcMemo::from(r)),
            Handle::Sig(x) => Some(ArcMemo::from(ArcRwSignal::from(x))),
            Handle::Split(r, _) => Some(ArcMemo::from(ArcReadSignal::from(r))),
            _ => None,
        });
        let Some(m) = m else { return false };
        self.push_entry(Def::Memo(Expr::Rd(true, sig)), Handle::ArcMemo(m), Reader::Direct, None, None);
        self.sh.lock().unwrap().from_of[id] = Some(sig);
        true
    }

    pub fn set_onclr(&mut self, s: usize) -> bool {
        let mut g = self.sh.lock().unwrap();
        if !matches!(g.defs.get(s), Some(Def::Sig(_))) || g.is_field(s) {
            return false;
        }
        g.onclr = Some(s);
        true
    }

    pub fn setun(&mut self, id: usize, v: i64) -> bool {
        if self.sh.lock().unwrap().is_field(id) {
            return false;
        }
        self.end_excuses(id);
        let (h, r, a) = {
            let mut g = self.sh.lock().unwrap();
            if !matches!(g.defs.get(id), Some(Def::Sig(_))) {
                return false;
            }
            let old = g.env[id];
            g.note_write(id, old, v);
            g.env[id] = v;
            g.ver[id] += 1;
            g.op_sites += 1;
            (g.handles[id].clone(), g.readers[id].clone(), g.acc.map(|n| n + g.op_sites))
        };
        write_then_notify(&h, &r, v, a)
    }

    pub fn set(&mut self, id: usize, v: i64) -> bool {
        self.end_excuses(id);
        let (h, r, a) = {
            let mut g = self.sh.lock().unwrap();
            if !matches!(g.defs.get(id), Some(Def::Sig(_))) {
                return false;
            }
            let old = g.env[id];
            g.note_write(id, old, v);
            g.env[id] = v;
            g.ver[id] += 1;
            g.op_sites += 1;
            (g.handles[id].clone(), g.readers[id].clone(), g.acc.map(|n| n + g.op_sites))
        };
        write_handle(&h, &r, v, a);
        true
    }

    pub fn read(&self, id: usize) -> Option<i64> {
        let (h, r, a) = {
            let mut g = self.sh.lock().unwrap();
            g.op_sites += 1;
            (g.handles.get(id).cloned()?, g.readers.get(id).cloned()?, g.acc.map(|n| n + g.op_sites))
        };
        if matches!(h, Handle::Eff) {
            return None;
        }
        Some(read_node(&h, &r, true, a))
    }

    /// `Owner::pause` / `Owner::resume` on the ROOT owner of the case (reaches every effect's owner)
    pub fn root_op(&mut self, op: &str) {
        let runs: Vec<u64> = self.sh.lock().unwrap().runs.clone();
        match op {
            "pauseall" => {
                self.owner.pause();
                for s in self.effs.iter_mut() {
                    if s.alive {
                        s.paused = true;
                        s.paused_at_runs = Some(runs[s.node]);
                    }
                }
            }
            _ => {
                self.owner.resume();
                for s in self.effs.iter_mut() {
                    s.paused = false;
                }
            }
        }
    }

    pub fn drain_log(&self) -> Vec<RunRec> {
        std::mem::take(&mut self.sh.lock().unwrap().log)
    }

    /// task ids woken since the last call, in canonical wake order (see `Shared::wakes`)
    pub fn take_wakes(&self) -> Vec<usize> {
        let mut g = self.sh.lock().unwrap();
        g.close_seg();
        std::mem::take(&mut g.wakes)
    }

    /// is the effect / selector node excused from the convergence oracle?
    pub fn excused(&self, node: usize, runs: &[u64]) -> bool {
        match self.effs.iter().find(|s| s.node == node) {
            Some(s) => !s.alive || s.paused || s.paused_at_runs == Some(runs[node]),
            None => false,
        }
    }

    /// effect node ids in definition order; the k-th spawned task is the k-th effect
    pub fn effect_ids(&self) -> Vec<usize> {
        let g = self.sh.lock().unwrap();
        g.defs.iter().enumerate().filter(|(_, d)| matches!(d, Def::Eff(_))).map(|(i, _)| i).collect()
    }

    /// effect nodes that own an executor task (all but immediate effects), in spawn order
    pub fn task_ids(&self) -> Vec<usize> {
        let g = self.sh.lock().unwrap();
        g.defs.iter().enumerate().filter(|(i, d)| matches!(d, Def::Eff(_)) && !g.is_imm(*i)).map(|(i, _)| i).collect()
    }

    /// ready effect node ids (woken tasks in spawn order)
    pub fn ready(&self) -> Vec<usize> {
        let eff = self.task_ids();
        sched::ready().into_iter().filter_map(|t| eff.get(t).copied()).collect()
    }

    /// `Current(id)`: the last run of `id` saw exactly the values its tracked inputs have now
    pub fn current(&self, id: usize) -> bool {
        let g = self.sh.lock().unwrap();
        fn cur(g: &Shared, id: usize) -> bool {
            match &g.defs[id] {
                Def::Sig(_) | Def::Key(..) => true,
                // a `memof` node cannot be observed running: it counts as current, its value is checked by the reads
                _ if g.from_of[id].is_some() => true,
                _ => match &g.last[id] {
                    None => false,
                    Some(r) => r.treads.iter().all(|(x, v, _)| match &g.defs[*x] {
                        Def::Sig(_) | Def::Key(..) => g.env[*x] == *v,
                        _ if g.from_of[*x].is_some() => g.env[g.from_of[*x].unwrap()] == *v,
                        _ => cur(g, *x) && g.last[*x].as_ref().map(|r| r.result) == Some(*v),
                    }),
                },
            }
        }
        cur(&g, id)
    }

    pub fn untracked_free(&self) -> bool {
        let g = self.sh.lock().unwrap();
        !g.defs.iter().any(|d| matches!(d, Def::Memo(b) | Def::Eff(b) if has_untracked(b)))
    }

    pub fn scratch(&self, id: usize) -> i64 {
        let g = self.sh.lock().unwrap();
        scratch(&g.defs, &g.env, id)
    }
}

impl Drop for Case {
    fn drop(&mut self) {
        CUR.with(|c| *c.borrow_mut() = None);
        self.effs.clear();
        // the handles hold closures that hold `sh`: break the cycle
        let (hs, rs) = {
            let mut g = self.sh.lock().unwrap();
            (std::mem::take(&mut g.handles), std::mem::take(&mut g.readers))
        };
        drop((hs, rs));
        self.owner.cleanup();
        sched::reset();
    }
}

pub fn parse_def(w: &[&str]) -> Option<Def> {
    match w {
        ["sig", v] => Some(Def::Sig(v.parse().ok()?)),
        ["memo", rest @ ..] => {
            let mut pos = 0;
            let e = parse_expr(rest, &mut pos)?;
            (pos == rest.len()).then_some(Def::Memo(e))
        }
        ["eff", rest @ ..] | ["reff", rest @ ..] | ["seff", rest @ ..] | ["ieff", rest @ ..] | ["weff", rest @ ..]
        | ["wieff", rest @ ..] | ["wseff", rest @ ..] | ["wsieff", rest @ ..] | ["rieff", rest @ ..] | ["imeff", rest @ ..] => {
            let mut pos = 0;
            let e = parse_expr(rest, &mut pos)?;
            (pos == rest.len()).then_some(Def::Eff(e))
        }
        _ => None,
    }
}

pub mod gen;
pub mod modes;
