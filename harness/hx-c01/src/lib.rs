//! Shared interpreter for C01 / C09 / C02: builds a program of real `reactive_graph`
//! signals, memos and effects from op lines, runs histories, logs what the real code did,
//! and evaluates the properties' oracles independently of the Lean model.
//!
//! Op grammar (one per line):
//!   case <name>
//!   mode arc|arena                     (which handle family; echo `ok`)
//!   sig <init>                         node ids are assigned in order of definition
//!   memo <expr>
//!   eff <expr>
//!   set <id> <v> | read <id> | poll <i> | idle
//! <expr> prefix tokens: L<n> | R<id> (tracked read) | U<id> (read under untrack) |
//!   add e e | mulc <k> e | ite e e e | seq e e | wr <id> e
use hx_common::sched;
use reactive_graph::{
    computed::{ArcMemo, Memo},
    effect::{Effect, RenderEffect},
    graph::untrack,
    owner::Owner,
    signal::{ArcRwSignal, RwSignal},
    traits::{Get, Set},
    wrappers::read::{ArcSignal, Signal},
};
use std::sync::{Arc, Mutex};

#[derive(Clone, Debug, PartialEq)]
pub enum Expr {
    Lit(i64),
    Rd(bool, usize),
    Add(Box<Expr>, Box<Expr>),
    Mulc(i64, Box<Expr>),
    Ite(Box<Expr>, Box<Expr>, Box<Expr>),
    Seq(Box<Expr>, Box<Expr>),
    Wr(usize, Box<Expr>),
    /// one `untrack(|| …)` scope around a sub-expression whose reads are all written `U<id>`;
    /// the model treats it as transparent (each inner read is already untracked)
    Unt(Box<Expr>),
}

pub fn parse_expr(toks: &[&str], pos: &mut usize) -> Option<Expr> {
    let t = *toks.get(*pos)?;
    *pos += 1;
    let sub = |pos: &mut usize| parse_expr(toks, pos).map(Box::new);
    Some(match t {
        "add" => Expr::Add(sub(pos)?, sub(pos)?),
        "mulc" => {
            let k: i64 = toks.get(*pos)?.parse().ok()?;
            *pos += 1;
            Expr::Mulc(k, sub(pos)?)
        }
        "ite" => Expr::Ite(sub(pos)?, sub(pos)?, sub(pos)?),
        "seq" => Expr::Seq(sub(pos)?, sub(pos)?),
        "unt" => Expr::Unt(sub(pos)?),
        "wr" => {
            let id: usize = toks.get(*pos)?.parse().ok()?;
            *pos += 1;
            Expr::Wr(id, sub(pos)?)
        }
        _ if t.starts_with('L') => Expr::Lit(t[1..].parse().ok()?),
        _ if t.starts_with('R') => Expr::Rd(true, t[1..].parse().ok()?),
        _ if t.starts_with('U') => Expr::Rd(false, t[1..].parse().ok()?),
        _ => return None,
    })
}

pub fn show_expr(e: &Expr) -> String {
    match e {
        Expr::Lit(n) => format!("L{n}"),
        Expr::Rd(true, i) => format!("R{i}"),
        Expr::Rd(false, i) => format!("U{i}"),
        Expr::Add(a, b) => format!("add {} {}", show_expr(a), show_expr(b)),
        Expr::Mulc(k, a) => format!("mulc {k} {}", show_expr(a)),
        Expr::Ite(c, t, e) => format!("ite {} {} {}", show_expr(c), show_expr(t), show_expr(e)),
        Expr::Seq(a, b) => format!("seq {} {}", show_expr(a), show_expr(b)),
        Expr::Wr(i, a) => format!("wr {i} {}", show_expr(a)),
        Expr::Unt(a) => format!("unt {}", show_expr(a)),
    }
}

#[derive(Clone, Debug, PartialEq)]
pub enum Def {
    Sig(i64),
    Memo(Expr),
    Eff(Expr),
}

/// how an effect node was created (the model sees both as `eff` nodes with different initial state)
#[derive(Clone, Copy, PartialEq)]
pub enum EffKind {
    Effect,
    Render,
    /// `Effect::new_sync`
    Sync,
    /// `Effect::new_isomorphic`
    Isomorphic,
    /// `Effect::watch(deps, handler, immediate)`: the body is the dependency function, the handler does nothing
    Watch(bool),
}

#[derive(Clone)]
enum Handle {
    ArcSig(ArcRwSignal<i64>),
    Sig(RwSignal<i64>),
    ArcMemo(ArcMemo<i64>),
    Memo(Memo<i64>),
    Eff,
}

/// how other nodes read a signal/memo: directly, or through a wrapper / derived signal
#[derive(Clone)]
enum Reader {
    Direct,
    Wrapped(Signal<i64>),
    ArcWrapped(ArcSignal<i64>),
}

/// what one invocation of a body did (recorded by the interpreter inside the real closure)
#[derive(Clone, Debug, Default)]
pub struct RunRec {
    pub node: usize,
    /// tracked reads: (id, value returned, version of that node at read time)
    pub treads: Vec<(usize, i64, u64)>,
    pub result: i64,
    /// a read returned something else than the from-scratch value at that moment
    pub glitch: Option<(usize, i64, i64)>,
    pub justified: bool,
    /// global read clock at each tracked read (parallel to `treads`): when the subscription was (re)made
    pub tclock: Vec<u64>,
}

#[derive(Default)]
pub struct Shared {
    pub defs: Vec<Def>,
    handles: Vec<Handle>,
    readers: Vec<Reader>,
    /// current signal values as written by the harness / by effects (oracle's env)
    pub env: Vec<i64>,
    /// versions: signals = writes; memos/effects = runs with a result different from the previous one
    pub ver: Vec<u64>,
    pub last: Vec<Option<RunRec>>,
    pub runs: Vec<u64>,
    /// invocations since the log was last drained, in order
    pub log: Vec<RunRec>,
    stack: Vec<RunRec>,
    clock: u64,
}

pub type Sh = Arc<Mutex<Shared>>;

/// from-scratch value of a node given the oracle's env (independent of the reactive system)
pub fn scratch(defs: &[Def], env: &[i64], id: usize) -> i64 {
    match defs.get(id) {
        Some(Def::Sig(_)) => env[id],
        Some(Def::Memo(b)) | Some(Def::Eff(b)) => eval_pure(defs, env, b),
        None => 0,
    }
}

pub fn eval_pure(defs: &[Def], env: &[i64], e: &Expr) -> i64 {
    match e {
        Expr::Lit(n) => *n,
        Expr::Rd(_, i) => scratch(defs, env, *i),
        Expr::Add(a, b) => eval_pure(defs, env, a).wrapping_add(eval_pure(defs, env, b)),
        Expr::Mulc(k, a) => k.wrapping_mul(eval_pure(defs, env, a)),
        Expr::Ite(c, t, f) => {
            if eval_pure(defs, env, c) != 0 { eval_pure(defs, env, t) } else { eval_pure(defs, env, f) }
        }
        Expr::Seq(_, b) => eval_pure(defs, env, b),
        Expr::Wr(_, a) => eval_pure(defs, env, a),
        Expr::Unt(a) => eval_pure(defs, env, a),
    }
}

pub fn has_untracked(e: &Expr) -> bool {
    match e {
        Expr::Lit(_) => false,
        Expr::Rd(t, _) => !*t,
        Expr::Add(a, b) | Expr::Seq(a, b) => has_untracked(a) || has_untracked(b),
        Expr::Mulc(_, a) | Expr::Wr(_, a) => has_untracked(a),
        Expr::Unt(_) => true,
        Expr::Ite(c, t, e) => has_untracked(c) || has_untracked(t) || has_untracked(e),
    }
}

pub fn has_write(e: &Expr) -> bool {
    match e {
        Expr::Lit(_) | Expr::Rd(..) => false,
        Expr::Wr(..) => true,
        Expr::Add(a, b) | Expr::Seq(a, b) => has_write(a) || has_write(b),
        Expr::Mulc(_, a) | Expr::Unt(a) => has_write(a),
        Expr::Ite(c, t, e) => has_write(c) || has_write(t) || has_write(e),
    }
}

fn read_via(h: &Handle, r: &Reader) -> i64 {
    match r {
        Reader::Direct => read_handle(h),
        Reader::Wrapped(s) => s.get(),
        Reader::ArcWrapped(s) => s.get(),
    }
}

fn read_handle(h: &Handle) -> i64 {
    match h {
        Handle::ArcSig(s) => s.get(),
        Handle::Sig(s) => s.get(),
        Handle::ArcMemo(m) => m.get(),
        Handle::Memo(m) => m.get(),
        Handle::Eff => 0,
    }
}

fn write_handle(h: &Handle, v: i64) {
    match h {
        Handle::ArcSig(s) => s.set(v),
        Handle::Sig(s) => s.set(v),
        _ => {}
    }
}

/// interpret an expression against the REAL reactive nodes (called from inside real closures)
fn interp(sh: &Sh, e: &Expr) -> i64 {
    interp_in(sh, e, false)
}

fn interp_in(sh: &Sh, e: &Expr, in_unt: bool) -> i64 {
    match e {
        Expr::Lit(n) => *n,
        Expr::Unt(a) => untrack(|| interp_in(sh, a, true)),
        Expr::Rd(tracked, id) => {
            let (h, r) = {
                let g = sh.lock().unwrap();
                (g.handles.get(*id).cloned(), g.readers.get(*id).cloned())
            };
            let (Some(h), Some(r)) = (h, r) else { return 0 };
            // inside an `unt` scope the enclosing untrack already hides the observer
            let v = if *tracked || in_unt { read_via(&h, &r) } else { untrack(|| read_via(&h, &r)) };
            let mut g = sh.lock().unwrap();
            let ver = g.ver[*id];
            let expect = scratch(&g.defs, &g.env, *id);
            let defs_untracked_free = !g.defs.iter().any(|d| matches!(d, Def::Memo(b) if has_untracked(b)));
            g.clock += 1;
            let clock = g.clock;
            if let Some(top) = g.stack.last_mut() {
                if *tracked {
                    top.treads.push((*id, v, ver));
                    top.tclock.push(clock);
                }
                if defs_untracked_free && v != expect && top.glitch.is_none() {
                    top.glitch = Some((*id, v, expect));
                }
            }
            v
        }
        Expr::Add(a, b) => interp_in(sh, a, in_unt).wrapping_add(interp_in(sh, b, in_unt)),
        Expr::Mulc(k, a) => k.wrapping_mul(interp_in(sh, a, in_unt)),
        Expr::Ite(c, t, f) => {
            if interp_in(sh, c, in_unt) != 0 { interp_in(sh, t, in_unt) } else { interp_in(sh, f, in_unt) }
        }
        Expr::Seq(a, b) => {
            interp_in(sh, a, in_unt);
            interp_in(sh, b, in_unt)
        }
        Expr::Wr(id, a) => {
            let v = interp_in(sh, a, in_unt);
            let h = {
                let mut g = sh.lock().unwrap();
                if matches!(g.defs.get(*id), Some(Def::Sig(_))) {
                    g.env[*id] = v;
                    g.ver[*id] += 1;
                }
                g.handles.get(*id).cloned()
            };
            if let Some(h) = h {
                write_handle(&h, v)
            }
            v
        }
    }
}

/// one invocation of node `id`'s body by the real system
fn invoke(sh: &Sh, id: usize, body: &Expr) -> i64 {
    {
        let mut g = sh.lock().unwrap();
        // justification (C09): first run, or a tracked input of the previous run has a new version
        let justified = match &g.last[id] {
            None => true,
            Some(prev) => prev.treads.iter().any(|(x, _, vx)| g.ver[*x] != *vx),
        };
        g.stack.push(RunRec { node: id, justified, ..Default::default() });
    }
    let v = interp(sh, body);
    let mut g = sh.lock().unwrap();
    let mut rec = g.stack.pop().unwrap();
    rec.result = v;
    let changed = g.last[id].as_ref().map(|p| p.result) != Some(v);
    if changed {
        g.ver[id] += 1;
    }
    g.runs[id] += 1;
    g.last[id] = Some(rec.clone());
    g.log.push(rec);
    v
}

pub struct EffSlot {
    pub node: usize,
    owner: Owner,
    _effect: Option<Effect<reactive_graph::owner::LocalStorage>>,
    _effect_sync: Option<Effect<reactive_graph::owner::SyncStorage>>,
    render: Option<RenderEffect<i64>>,
    pub alive: bool,
    pub paused: bool,
    /// run count when last paused (excused from the convergence oracle until it runs again)
    pub paused_at_runs: Option<u64>,
}

pub struct Case {
    pub sh: Sh,
    owner: Owner,
    arena: bool,
    wrap: u8,
    pub effs: Vec<EffSlot>,
}

impl Case {
    pub fn new() -> Self {
        sched::install();
        sched::reset();
        let owner = Owner::new();
        owner.set();
        Case { sh: Arc::new(Mutex::new(Shared::default())), owner, arena: false, wrap: 0, effs: vec![] }
    }

    pub fn set_mode(&mut self, arena: bool) {
        self.arena = arena
    }

    /// 0 = read nodes directly, 1 = through `Signal::from(..)` / `ArcSignal::from(..)`,
    /// 2 = through a derived signal `Signal::derive(move || node.get())`
    pub fn set_wrap(&mut self, w: u8) {
        self.wrap = w
    }

    pub fn define(&mut self, d: Def) {
        self.define_kind(d, EffKind::Effect)
    }

    pub fn define_kind(&mut self, d: Def, kind: EffKind) {
        let id = self.sh.lock().unwrap().defs.len();
        let sh = self.sh.clone();
        let arena = self.arena;
        let h = self.owner.with(|| match &d {
            Def::Sig(v) => {
                if arena { Handle::Sig(RwSignal::new(*v)) } else { Handle::ArcSig(ArcRwSignal::new(*v)) }
            }
            Def::Memo(b) => {
                let b = b.clone();
                if arena {
                    Handle::Memo(Memo::new(move |_| invoke(&sh, id, &b)))
                } else {
                    Handle::ArcMemo(ArcMemo::new(move |_| invoke(&sh, id, &b)))
                }
            }
            Def::Eff(_) => Handle::Eff,
        });
        let reader = self.owner.with(|| match (self.wrap, &h) {
            (1, Handle::Sig(x)) => Reader::Wrapped(Signal::from(*x)),
            (1, Handle::Memo(x)) => Reader::Wrapped(Signal::from(*x)),
            (1, Handle::ArcSig(x)) => Reader::ArcWrapped(ArcSignal::from(x.clone())),
            (1, Handle::ArcMemo(x)) => Reader::ArcWrapped(ArcSignal::from(x.clone())),
            (2, Handle::Sig(x)) => {
                let x = *x;
                Reader::Wrapped(Signal::derive(move || x.get()))
            }
            (2, Handle::Memo(x)) => {
                let x = *x;
                Reader::Wrapped(Signal::derive(move || x.get()))
            }
            (2, Handle::ArcSig(x)) => {
                let x = x.clone();
                Reader::ArcWrapped(ArcSignal::derive(move || x.get()))
            }
            (2, Handle::ArcMemo(x)) => {
                let x = x.clone();
                Reader::ArcWrapped(ArcSignal::derive(move || x.get()))
            }
            _ => Reader::Direct,
        });
        {
            let mut g = self.sh.lock().unwrap();
            g.env.push(if let Def::Sig(v) = &d { *v } else { 0 });
            g.defs.push(d.clone());
            g.handles.push(h);
            g.readers.push(reader);
            g.ver.push(0);
            g.last.push(None);
            g.runs.push(0);
        }
        if let Def::Eff(b) = &d {
            // every effect lives under its own child owner so that it can be paused / disposed alone
            let child = self.owner.child();
            let b = b.clone();
            let sh = self.sh.clone();
            let (eff, eff_sync, render) = child.with(|| match kind {
                EffKind::Effect => (Some(Effect::new(move |_: Option<i64>| invoke(&sh, id, &b))), None, None),
                EffKind::Render => (None, None, Some(RenderEffect::new(move |_: Option<i64>| invoke(&sh, id, &b)))),
                EffKind::Sync => (None, Some(Effect::new_sync(move |_: Option<i64>| invoke(&sh, id, &b))), None),
                EffKind::Isomorphic => {
                    (None, Some(Effect::new_isomorphic(move |_: Option<i64>| invoke(&sh, id, &b))), None)
                }
                EffKind::Watch(immediate) => (
                    Some(Effect::watch(move || invoke(&sh, id, &b), |_: &i64, _: Option<&i64>, _: Option<()>| (), immediate)),
                    None,
                    None,
                ),
            });
            self.effs.push(EffSlot {
                node: id,
                owner: child,
                _effect: eff,
                _effect_sync: eff_sync,
                render,
                alive: true,
                paused: false,
                paused_at_runs: None,
            });
        }
    }

    pub fn eff_op(&mut self, node: usize, op: &str) -> bool {
        let runs = self.sh.lock().unwrap().runs.get(node).copied().unwrap_or(0);
        let Some(slot) = self.effs.iter_mut().find(|s| s.node == node) else { return false };
        match op {
            "pause" => {
                slot.owner.pause();
                slot.paused = true;
                slot.paused_at_runs = Some(runs);
            }
            "resume" => {
                slot.owner.resume();
                slot.paused = false;
            }
            "dispose" => {
                if slot.alive {
                    slot.alive = false;
                    slot.render = None;
                    slot.owner.cleanup();
                }
            }
            _ => return false,
        }
        true
    }

    /// does node `x` (by its last run's tracked reads) depend on signal `sig`?
    fn depends_on(g: &Shared, x: usize, sig: usize, depth: usize) -> bool {
        if x == sig {
            return true;
        }
        if depth == 0 {
            return false;
        }
        match (&g.defs[x], &g.last[x]) {
            (Def::Sig(_), _) => false,
            (_, Some(r)) => r.treads.iter().any(|t| Self::depends_on(g, t.0, sig, depth - 1)),
            _ => false,
        }
    }

    pub fn set(&mut self, id: usize, v: i64) -> bool {
        // the pause excuse covers only changes made DURING the pause: a write to a dependency of a
        // resumed effect ends it (the effect must be notified and run again)
        {
            let g = self.sh.lock().unwrap();
            for slot in self.effs.iter_mut() {
                if slot.alive && !slot.paused && slot.paused_at_runs.is_some() && Self::depends_on(&g, slot.node, id, 64) {
                    slot.paused_at_runs = None;
                }
            }
        }
        let h = {
            let mut g = self.sh.lock().unwrap();
            if !matches!(g.defs.get(id), Some(Def::Sig(_))) {
                return false;
            }
            g.env[id] = v;
            g.ver[id] += 1;
            g.handles[id].clone()
        };
        write_handle(&h, v);
        true
    }

    pub fn read(&self, id: usize) -> Option<i64> {
        let (h, r) = {
            let g = self.sh.lock().unwrap();
            (g.handles.get(id).cloned()?, g.readers.get(id).cloned()?)
        };
        if matches!(h, Handle::Eff) {
            return None;
        }
        Some(read_via(&h, &r))
    }

    /// `Owner::pause` / `Owner::resume` on the ROOT owner of the case (reaches every effect's owner)
    pub fn root_op(&mut self, op: &str) {
        let runs: Vec<u64> = self.sh.lock().unwrap().runs.clone();
        match op {
            "pauseall" => {
                self.owner.pause();
                for s in self.effs.iter_mut() {
                    if s.alive {
                        s.paused = true;
                        s.paused_at_runs = Some(runs[s.node]);
                    }
                }
            }
            _ => {
                self.owner.resume();
                for s in self.effs.iter_mut() {
                    s.paused = false;
                }
            }
        }
    }

    pub fn drain_log(&self) -> Vec<RunRec> {
        std::mem::take(&mut self.sh.lock().unwrap().log)
    }

    /// effect node ids in definition order; the k-th spawned task is the k-th effect
    pub fn effect_ids(&self) -> Vec<usize> {
        let g = self.sh.lock().unwrap();
        g.defs.iter().enumerate().filter(|(_, d)| matches!(d, Def::Eff(_))).map(|(i, _)| i).collect()
    }

    /// ready effect node ids (woken tasks in spawn order)
    pub fn ready(&self) -> Vec<usize> {
        let eff = self.effect_ids();
        sched::ready().into_iter().filter_map(|t| eff.get(t).copied()).collect()
    }

    /// `Current(id)`: the last run of `id` saw exactly the values its tracked inputs have now
    pub fn current(&self, id: usize) -> bool {
        let g = self.sh.lock().unwrap();
        fn cur(g: &Shared, id: usize) -> bool {
            match &g.defs[id] {
                Def::Sig(_) => true,
                _ => match &g.last[id] {
                    None => false,
                    Some(r) => r.treads.iter().all(|(x, v, _)| match &g.defs[*x] {
                        Def::Sig(_) => g.env[*x] == *v,
                        _ => cur(g, *x) && g.last[*x].as_ref().map(|r| r.result) == Some(*v),
                    }),
                },
            }
        }
        cur(&g, id)
    }

    pub fn untracked_free(&self) -> bool {
        let g = self.sh.lock().unwrap();
        !g.defs.iter().any(|d| matches!(d, Def::Memo(b) | Def::Eff(b) if has_untracked(b)))
    }

    pub fn scratch(&self, id: usize) -> i64 {
        let g = self.sh.lock().unwrap();
        scratch(&g.defs, &g.env, id)
    }
}

impl Drop for Case {
    fn drop(&mut self) {
        self.effs.clear();
        self.owner.cleanup();
        sched::reset();
    }
}

pub fn parse_def(w: &[&str]) -> Option<Def> {
    match w {
        ["sig", v] => Some(Def::Sig(v.parse().ok()?)),
        ["memo", rest @ ..] => {
            let mut pos = 0;
            let e = parse_expr(rest, &mut pos)?;
            (pos == rest.len()).then_some(Def::Memo(e))
        }
        ["eff", rest @ ..] | ["reff", rest @ ..] | ["seff", rest @ ..] | ["ieff", rest @ ..] | ["weff", rest @ ..]
        | ["wieff", rest @ ..] => {
            let mut pos = 0;
            let e = parse_expr(rest, &mut pos)?;
            (pos == rest.len()).then_some(Def::Eff(e))
        }
        _ => None,
    }
}

pub mod gen;
pub mod modes;
