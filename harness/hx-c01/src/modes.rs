//! Per-property observables and oracles over the shared interpreter.
use crate::*;

#[derive(Clone, Copy, PartialEq)]
pub enum Mode {
    C01,
    C09,
    C02,
}

pub struct Runner {
    mode: Mode,
    case: Option<Case>,
    written: Option<usize>,
}

fn ids(v: &[usize]) -> String {
    format!("[{}]", v.iter().map(|x| x.to_string()).collect::<Vec<_>>().join(","))
}

/// `leaf(i)`: node i is a memoc / memoh node or a field of a struct signal (not readable / writable from bodies)
fn reads_ok(defs: &[Def], leaf: &dyn Fn(usize) -> bool, own: usize, e: &Expr, memo: bool) -> bool {
    let reads_ok = |defs: &[Def], own: usize, e: &Expr, memo: bool| reads_ok(defs, leaf, own, e, memo);
    match e {
        Expr::Lit(_) => true,
        Expr::Rd(_, i) => {
            *i < own && !leaf(*i) && matches!(defs.get(*i), Some(Def::Sig(_)) | Some(Def::Memo(_)) | Some(Def::Key(..)))
        }
        Expr::Add(a, b) | Expr::Seq(a, b) => reads_ok(defs, own, a, memo) && reads_ok(defs, own, b, memo),
        Expr::Mulc(_, a) => reads_ok(defs, own, a, memo),
        Expr::Ite(c, t, f) => reads_ok(defs, own, c, memo) && reads_ok(defs, own, t, memo) && reads_ok(defs, own, f, memo),
        Expr::Wr(i, a) => !memo && !leaf(*i) && matches!(defs.get(*i), Some(Def::Sig(_))) && reads_ok(defs, own, a, memo),
        Expr::Unt(a) => all_untracked(a) && reads_ok(defs, own, a, memo),
    }
}

/// inside `unt` every read is written `U<id>` and there is no write
fn all_untracked(e: &Expr) -> bool {
    match e {
        Expr::Lit(_) => true,
        Expr::Rd(t, _) => !*t,
        Expr::Add(a, b) | Expr::Seq(a, b) => all_untracked(a) && all_untracked(b),
        Expr::Mulc(_, a) | Expr::Unt(a) => all_untracked(a),
        Expr::Ite(c, t, f) => all_untracked(c) && all_untracked(t) && all_untracked(f),
        Expr::Wr(..) => false,
    }
}

impl Runner {
    pub fn new(mode: Mode) -> Self {
        Runner { mode, case: None, written: None }
    }

    fn runs_summary(log: &[RunRec]) -> String {
        let mut counts: std::collections::BTreeMap<usize, usize> = Default::default();
        for r in log {
            *counts.entry(r.node).or_default() += 1;
        }
        format!("runs={}", counts.iter().map(|(k, v)| format!("{k}:{v}")).collect::<Vec<_>>().join(","))
    }

    /// `selc`: selector nodes whose runs are listed without the values read
    fn effect_runs(defs: &[Def], selc: &[usize], log: &[RunRec]) -> String {
        let items: Vec<String> = log
            .iter()
            .filter(|r| matches!(defs.get(r.node), Some(Def::Eff(_))))
            .map(|r| {
                let vals = if selc.contains(&r.node) { vec![] } else { r.treads.iter().map(|t| t.1.to_string()).collect::<Vec<_>>() };
                format!("{}:{}", r.node, vals.join(","))
            })
            .collect();
        format!("eruns={}", items.join(";"))
    }

    /// C02 oracle at an idle point
    fn idle_verdict(c: &Case) -> Option<String> {
        if !c.ready().is_empty() || !c.untracked_free() {
            return None;
        }
        let g = c.sh.lock().unwrap();
        // disposed effects need not be current; an effect that has not run since it was paused is
        // excused (changes made during a pause are documented as not replayed)
        let excused = |id: usize| c.excused(id, &g.runs);
        for (id, d) in g.defs.iter().enumerate() {
            if let Def::Eff(_) = d {
                if excused(id) {
                    continue;
                }
                let what = if g.is_sel(id) { "selector" } else { "effect" };
                match &g.last[id] {
                    None => return Some(format!("fail never-ran {what} {id}")),
                    Some(r) => {
                        for (x, v, _) in &r.treads {
                            // a key node's from-scratch value is `source() == key` (looked up through the selector)
                            let now = scratch_deep(&g.defs, &g.env, &excused, *x);
                            if now != *v {
                                return Some(format!("fail stale-effect {what} {id} saw node {x} = {v}, now {now}"));
                            }
                        }
                    }
                }
                // a selector that is up to date answers `selected(j)` with `j == source()`
                if let Some(Some((first, k))) = g.sel.get(id) {
                    for j in 0..*k {
                        let now = scratch_deep(&g.defs, &g.env, &excused, first + j);
                        if g.env[first + j] != now {
                            return Some(format!("fail stale-selector {id} key {j} stored {} now {now}", g.env[first + j]));
                        }
                    }
                }
            }
        }
        Some("ok".into())
    }

    pub fn op(&mut self, line: &str) -> String {
        let w: Vec<&str> = line.split_whitespace().collect();
        if let ["case", name] = w.as_slice() {
            self.case = None; // drop the previous case first (owner cleanup, executor reset)
            self.case = Some(Case::new());
            let tags = name.split_once(':').map(|x| x.1).unwrap_or("");
            return if tags.is_empty() { format!("case {name}") } else { format!("case {name} tags={tags}") };
        }
        let mode = self.mode;
        let Some(c) = self.case.as_mut() else { return "bad-op".into() };
        match w.as_slice() {
            ["mode", "arc"] => {
                c.set_mode(false);
                "ok".into()
            }
            ["mode", "arena"] => {
                c.set_mode(true);
                "ok".into()
            }
            ["wrap", w] => {
                let Ok(w) = w.parse::<u8>() else { return "bad-op".into() };
                c.set_wrap(w);
                "ok".into()
            }
            ["drop", id] => {
                let Ok(id) = id.parse::<usize>() else { return "bad-op".into() };
                if !c.drop_memo(id) {
                    return "bad-op".into();
                }
                self.after(mode, None)
            }
            ["scope"] | ["endscope"] => {
                if !c.scope_op(w[0], None) {
                    return "bad-op".into();
                }
                "ok".into()
            }
            ["cleanupscope", k] => {
                let Ok(k) = k.parse::<usize>() else { return "bad-op".into() };
                if !c.scope_op("cleanupscope", Some(k)) {
                    return "bad-op".into();
                }
                self.after(mode, None)
            }
            ["disposew", id] => {
                let Ok(id) = id.parse::<usize>() else { return "bad-op".into() };
                if !c.dispose_wrapper(id) {
                    return "bad-op".into();
                }
                self.after(mode, None)
            }
            ["memof", sg] => {
                let Ok(sg) = sg.parse::<usize>() else { return "bad-op".into() };
                if c.in_scope() || !c.define_from(sg) {
                    return "bad-op".into();
                }
                match mode {
                    Mode::C02 => {
                        c.take_wakes();
                        format!("ok ready={}", ids(&c.ready()))
                    }
                    _ => "ok".into(),
                }
            }
            ["onclr", s] => {
                let Ok(s) = s.parse::<usize>() else { return "bad-op".into() };
                if !c.set_onclr(s) {
                    return "bad-op".into();
                }
                "ok".into()
            }
            ["setun", id, v] => {
                let (Ok(id), Ok(v)) = (id.parse::<usize>(), v.parse::<i64>()) else { return "bad-op".into() };
                self.written = Some(id);
                if !self.case.as_mut().unwrap().setun(id, v) {
                    return "bad-op".into();
                }
                let r = self.after(mode, None);
                self.written = None;
                r
            }
            ["oncl"] => {
                c.set_oncl();
                "ok".into()
            }
            ["ssig", ..] | ["slice", ..] | ["sel", ..] | ["selc", ..] | ["eff", ..] | ["reff", ..] | ["seff", ..] | ["ieff", ..] | ["weff", ..]
            | ["wieff", ..] | ["wseff", ..] | ["wsieff", ..] | ["rieff", ..] | ["imeff", ..]
                if c.in_scope() =>
            {
                "bad-op".into()
            }
            ["ssig", a, b] => {
                let (Ok(a), Ok(b)) = (a.parse::<i64>(), b.parse::<i64>()) else { return "bad-op".into() };
                c.define_struct(a, b);
                match mode {
                    Mode::C02 => format!("ok ready={}", ids(&c.ready())),
                    _ => "ok".into(),
                }
            }
            ["slice", f, g, s] => {
                let (Ok(f), Ok(g), Ok(s)) = (f.parse::<usize>(), g.parse::<usize>(), s.parse::<usize>()) else {
                    return "bad-op".into();
                };
                if !c.define_slice(f, g, s) {
                    return "bad-op".into();
                }
                match mode {
                    Mode::C02 => {
                        c.take_wakes();
                        format!("ok ready={}", ids(&c.ready()))
                    }
                    _ => "ok".into(),
                }
            }
            ["sset", id, v] => {
                let (Ok(id), Ok(v)) = (id.parse::<usize>(), v.parse::<i64>()) else { return "bad-op".into() };
                let Some(target) = self.case.as_mut().unwrap().sset(id, v) else { return "bad-op".into() };
                self.written = Some(target);
                let r = self.after(mode, None);
                self.written = None;
                r
            }
            ["memoh", rest @ ..] => {
                let mut pos = 0;
                let Some(e) = parse_expr(rest, &mut pos) else { return "bad-op".into() };
                let ok = {
                    let g = c.sh.lock().unwrap();
                    pos == rest.len() && reads_ok(&g.defs, &|i| g.is_leaf(i) || g.is_field(i), g.defs.len(), &e, true)
                };
                if !ok {
                    return "bad-op".into();
                }
                c.define_memoc(0, e);
                match mode {
                    Mode::C02 => {
                        c.take_wakes();
                        format!("ok ready={}", ids(&c.ready()))
                    }
                    _ => "ok".into(),
                }
            }
            ["acc", n] => {
                let Ok(n) = n.parse::<usize>() else { return "bad-op".into() };
                c.set_acc(n);
                "ok".into()
            }
            ["memoc", k, rest @ ..] => {
                let Ok(k) = k.parse::<i64>() else { return "bad-op".into() };
                let mut pos = 0;
                let Some(e) = parse_expr(rest, &mut pos) else { return "bad-op".into() };
                let ok = {
                    let g = c.sh.lock().unwrap();
                    pos == rest.len() && k != 0 && coarse_fn(k).is_some() && reads_ok(&g.defs, &|i| g.is_leaf(i) || g.is_field(i), g.defs.len(), &e, true)
                };
                if !ok {
                    return "bad-op".into();
                }
                c.define_memoc(k, e);
                match mode {
                    Mode::C02 => {
                        c.take_wakes();
                        format!("ok ready={}", ids(&c.ready()))
                    }
                    _ => "ok".into(),
                }
            }
            ["sel", k, rest @ ..] | ["selc", k, rest @ ..] => {
                let custom = w[0] == "selc";
                let Ok(k) = k.parse::<usize>() else { return "bad-op".into() };
                let mut pos = 0;
                let Some(e) = parse_expr(rest, &mut pos) else { return "bad-op".into() };
                let ok = {
                    let g = c.sh.lock().unwrap();
                    pos == rest.len() && (1..=8).contains(&k) && (!custom || k >= 2) && reads_ok(&g.defs, &|i| g.is_leaf(i) || g.is_field(i), g.defs.len(), &e, true)
                };
                if !ok {
                    return "bad-op".into();
                }
                // like a render effect, the source runs synchronously at creation
                c.define_sel_with(k, e, custom);
                match mode {
                    Mode::C02 => format!("ok {}", self.after(mode, None)),
                    Mode::C09 => self.after(mode, None),
                    Mode::C01 => {
                        self.case.as_ref().unwrap().drain_log();
                        "ok".into()
                    }
                }
            }
            ["pauseall"] | ["resumeall"] => {
                c.root_op(w[0]);
                self.after(mode, None)
            }
            ["sig", ..] | ["memo", ..] | ["eff", ..] | ["reff", ..] | ["seff", ..] | ["ieff", ..] | ["weff", ..] | ["wieff", ..]
            | ["wseff", ..] | ["wsieff", ..] | ["rieff", ..] | ["imeff", ..] => {
                // watch kinds: optional `h<id>` = the signal the handler reads
                let watch = matches!(w[0], "weff" | "wieff" | "wseff" | "wsieff");
                let (hread, w2): (Option<usize>, Vec<&str>) = match w.get(1) {
                    Some(t) if watch && t.starts_with('h') => {
                        let Ok(h) = t[1..].parse::<usize>() else { return "bad-op".into() };
                        let mut v = vec![w[0]];
                        v.extend_from_slice(&w[2..]);
                        (Some(h), v)
                    }
                    _ => (None, w.clone()),
                };
                let Some(d) = parse_def(&w2) else { return "bad-op".into() };
                let ok = {
                    let g = c.sh.lock().unwrap();
                    let n = g.defs.len();
                    let blocked = |i: usize| g.is_leaf(i) || g.is_field(i);
                    let body_ok = match &d {
                        Def::Sig(_) => true,
                        Def::Memo(b) => reads_ok(&g.defs, &blocked, n, b, true),
                        Def::Eff(b) => reads_ok(&g.defs, &blocked, n, b, false) && (w[0] != "imeff" || imm_ok(&g.defs, b)),
                        Def::Key(..) => false,
                    };
                    // the handler reads a plain signal
                    let h_ok = hread.map(|h| h < n && matches!(g.defs.get(h), Some(Def::Sig(_))) && !g.is_field(h)).unwrap_or(true);
                    body_ok && h_ok
                };
                if !ok {
                    return "bad-op".into();
                }
                if matches!(w[0], "reff" | "rieff" | "imeff") {
                    // the body runs synchronously at creation
                    c.define_kind(
                        d,
                        match w[0] {
                            "reff" => EffKind::Render,
                            "rieff" => EffKind::RenderIso,
                            _ => EffKind::Immediate,
                        },
                    );
                    return match mode {
                        Mode::C02 => format!("ok {}", self.after(mode, None)),
                        Mode::C09 => self.after(mode, None),
                        Mode::C01 => {
                            self.case.as_ref().unwrap().drain_log();
                            "ok".into()
                        }
                    };
                }
                match w[0] {
                    "seff" => c.define_kind(d, EffKind::Sync),
                    "ieff" => c.define_kind(d, EffKind::Isomorphic),
                    "weff" => c.define_watch(d, EffKind::Watch { immediate: false, sync: false }, hread),
                    "wieff" => c.define_watch(d, EffKind::Watch { immediate: true, sync: false }, hread),
                    "wseff" => c.define_watch(d, EffKind::Watch { immediate: false, sync: true }, hread),
                    "wsieff" => c.define_watch(d, EffKind::Watch { immediate: true, sync: true }, hread),
                    _ => c.define(d),
                }
                match mode {
                    Mode::C02 => {
                        c.take_wakes();
                        format!("ok ready={}", ids(&c.ready()))
                    }
                    _ => "ok".into(),
                }
            }
            ["set", id, v] => {
                let (Ok(id), Ok(v)) = (id.parse::<usize>(), v.parse::<i64>()) else { return "bad-op".into() };
                // who subscribed to this signal directly, and when (for the wake-order oracle)
                self.written = Some(id);
                if !self.case.as_mut().unwrap().set(id, v) {
                    return "bad-op".into();
                }
                let r = self.after(mode, None);
                self.written = None;
                r
            }
            ["read", id] => {
                let Ok(id) = id.parse::<usize>() else { return "bad-op".into() };
                if c.sh.lock().unwrap().dropped.contains(&id) {
                    return "bad-op".into();
                }
                let Some(v) = c.read(id) else { return "bad-op".into() };
                self.after(mode, Some((id, v)))
            }
            ["poll", i] => {
                let Ok(i) = i.parse::<usize>() else { return "bad-op".into() };
                let polled = sched::poll_nth_ready(i);
                let eff = c.task_ids();
                let polled = polled.and_then(|t| eff.get(t).copied());
                let s = self.after(mode, None);
                match mode {
                    Mode::C02 => format!("polled={} {}", polled.map(|p| p.to_string()).unwrap_or("none".into()), s),
                    _ => s,
                }
            }
            ["pause", e] | ["resume", e] | ["dispose", e] => {
                let Ok(e) = e.parse::<usize>() else { return "bad-op".into() };
                if !c.eff_op(e, w[0]) {
                    return "bad-op".into();
                }
                self.after(mode, None)
            }
            ["idle"] => {
                sched::run_until_idle(256);
                self.after(mode, None)
            }
            _ => "bad-op".into(),
        }
    }

    /// the op's output line; a failure seen by the instrumentation inside the real closures (comparator arguments,
    /// `prev` argument of memo closures, cleanup bookkeeping) takes precedence over the mode's own verdict
    fn after(&mut self, mode: Mode, read: Option<(usize, i64)>) -> String {
        let out = self.after_inner(mode, read);
        let bad = self.case.as_ref().unwrap().sh.lock().unwrap().bad.take();
        match bad {
            Some(b) => format!("{} ## fail {b}", out.split(" ## ").next().unwrap_or("")),
            None => out,
        }
    }

    fn after_inner(&mut self, mode: Mode, read: Option<(usize, i64)>) -> String {
        let c = self.case.as_ref().unwrap();
        let log = c.drain_log();
        let (cl_calls, oncl, imm) = {
            let mut g = c.sh.lock().unwrap();
            (std::mem::take(&mut g.cl_calls), g.oncl, g.imm.clone())
        };
        // a run's cleanup is called when the next run supersedes it or when the effect is disposed - not while the
        // effect is alive and idle
        {
            let mut seen: Vec<usize> = vec![];
            for e in &cl_calls {
                if seen.contains(e) {
                    continue;
                }
                seen.push(*e);
                let calls = cl_calls.iter().filter(|x| *x == e).count();
                let ran = log.iter().filter(|r| r.node == *e).count();
                let before = c.sh.lock().unwrap().runs[*e] as usize - ran;
                let superseded = if before == 0 { ran.saturating_sub(1) } else { ran };
                let disposed = c.effs.iter().find(|s| s.node == *e).map(|s| !s.alive).unwrap_or(false);
                if calls > superseded && !disposed {
                    c.sh.lock().unwrap().bad.get_or_insert(format!(
                        "cleanup-early effect {e}: {calls} on_cleanup call(s), {superseded} run(s) superseded, effect not disposed"
                    ));
                }
            }
        }
        match mode {
            Mode::C01 => match read {
                Some((id, v)) => {
                    let mut verdict = "ok".to_string();
                    if !c.current(id) {
                        verdict = "fail not-current".into();
                    } else if c.sh.lock().unwrap().last.get(id).and_then(|r| r.as_ref().map(|r| r.result)).map(|r| r != v).unwrap_or(false) {
                        verdict = "fail not-last-result".into();
                    } else if c.untracked_free() && v != c.scratch(id) {
                        verdict = format!("fail not-scratch expected {}", c.scratch(id));
                    } else if let Some(r) = log.iter().find(|r| r.glitch.is_some()) {
                        verdict = format!("fail mixture node {} read {:?}", r.node, r.glitch);
                    } else if let Some(r) = log.iter().find(|r| !r.justified) {
                        // an untracked read contributes the value it had when the computation last ran: a body that
                        // re-runs although none of its TRACKED inputs changed has replaced that snapshot
                        verdict = format!("fail untracked-not-snapshot node {} re-ran, no tracked input changed", r.node);
                    }
                    format!("{v} ## {verdict}")
                }
                None => "ok".into(),
            },
            Mode::C09 => {
                let verdict = match log.iter().find(|r| !r.justified) {
                    Some(r) => format!("fail unjustified-run node {}", r.node),
                    None => "ok".into(),
                };
                format!("{} ## {}", Self::runs_summary(&log), verdict)
            }
            Mode::C02 => {
                let defs = c.sh.lock().unwrap().defs.clone();
                let mut verdict = Self::idle_verdict(c);
                if let Some(r) = log.iter().find(|r| r.glitch.is_some() && matches!(defs.get(r.node), Some(Def::Eff(b)) if !has_write(b))) {
                    verdict = Some(format!("fail glitch effect {} read {:?}", r.node, r.glitch));
                }
                let eff = c.task_ids();
                let woke: Vec<usize> = c.take_wakes().into_iter().filter_map(|t| eff.get(t).copied()).collect();
                // lifecycle oracles: nothing runs after disposal or while paused
                for r in &log {
                    if let Some(slot) = c.effs.iter().find(|s| s.node == r.node) {
                        if !slot.alive {
                            verdict = Some(format!("fail ran-after-dispose effect {}", r.node));
                        } else if slot.paused {
                            verdict = Some(format!("fail ran-while-paused effect {}", r.node));
                        }
                    }
                }
                // wake order: effects whose ONLY route from the written signal is their own direct
                // subscription are woken in the order in which they subscribed to it.  (An effect that also
                // reads a memo depending on the signal can legitimately be woken earlier through that memo's
                // check propagation; the property's wording does not settle that mixed case, so it is not judged.)
                if let Some(sig) = self.written {
                    let g = c.sh.lock().unwrap();
                    fn reaches(g: &Shared, x: usize, sig: usize, depth: usize) -> bool {
                        if x == sig {
                            return true;
                        }
                        if depth == 0 {
                            return false;
                        }
                        if let Some(Some(s)) = g.from_of.get(x) {
                            // a `memof` node mirrors its signal
                            return reaches(g, *s, sig, depth - 1);
                        }
                        match (&g.defs[x], &g.last[x]) {
                            (Def::Memo(_), Some(r)) => r.treads.iter().any(|t| reaches(g, t.0, sig, depth - 1)),
                            _ => false,
                        }
                    }
                    let mut when: Vec<u64> = vec![];
                    for e in &woke {
                        if let Some(Some(last)) = g.last.get(*e) {
                            let via_memo = last
                                .treads
                                .iter()
                                .any(|t| matches!(g.defs[t.0], Def::Memo(_)) && reaches(&g, t.0, sig, 64));
                            if via_memo {
                                continue;
                            }
                            if let Some(pos) = last.treads.iter().position(|t| t.0 == sig) {
                                when.push(last.tclock[pos]);
                            }
                        }
                    }
                    if when.windows(2).any(|w| w[0] > w[1]) {
                        verdict = Some(format!("fail wake-order after set {sig}: woke {:?}", woke));
                    }
                }
                // canonical order: runs of immediate effects (made inside notifications, in notification order) are listed
                // after the others, by node id
                let selc: Vec<usize> = c.sh.lock().unwrap().selc.clone();
                let mut ordered: Vec<RunRec> = log.iter().filter(|r| !imm.get(r.node).copied().unwrap_or(false)).cloned().collect();
                let mut imms: Vec<RunRec> = log.iter().filter(|r| imm.get(r.node).copied().unwrap_or(false)).cloned().collect();
                imms.sort_by_key(|r| r.node);
                ordered.extend(imms);
                let mut base = format!("{} woke={} ready={}", Self::effect_runs(&defs, &selc, &ordered), ids(&woke), ids(&c.ready()));
                if oncl {
                    let mut counts: std::collections::BTreeMap<usize, usize> = Default::default();
                    for n in &cl_calls {
                        *counts.entry(*n).or_default() += 1;
                    }
                    base += &format!(" cl={}", counts.iter().map(|(k, v)| format!("{k}:{v}")).collect::<Vec<_>>().join(","));
                }
                match verdict {
                    Some(v) => format!("{base} ## {v}"),
                    None => base,
                }
            }
        }
    }
}

pub fn main_for(mode: Mode) {
    use hx_common::*;
    match parse_cli() {
        Cmd::Gen { seed, n, ops, tier } => crate::gen::gen(mode, seed, n, &ops, &tier).unwrap(),
        Cmd::Run { ops, out } => {
            let mut r = Runner::new(mode);
            run_ops(&ops, &out, |l| r.op(l)).unwrap();
            drop(r);
        }
    }
}
