//! Seeded generators for the reactive-core properties (one PRNG; tags after `:` in the case name).
use crate::modes::Mode;
use crate::*;
use hx_common::Rng;
use std::io::Write;

struct G<'a> {
    r: &'a mut Rng,
    untracked: bool,
}

impl<'a> G<'a> {
    /// random body over readable lower ids
    fn expr(&mut self, readable: &[usize], depth: usize) -> Expr {
        let r = &mut *self.r;
        if readable.is_empty() {
            return Expr::Lit(r.below(3) as i64);
        }
        let leaf = depth == 0 || r.chance(1, 4);
        if leaf {
            return if r.chance(1, 6) {
                Expr::Lit(r.below(3) as i64)
            } else {
                let id = *r.pick(readable);
                Expr::Rd(!(self.untracked && r.chance(1, 5)), id)
            };
        }
        if self.untracked && depth >= 1 && self.r.chance(1, 6) {
            // one untrack scope over a whole sub-expression (several reads, possibly nested memos)
            let inner = self.expr(readable, depth - 1);
            let inner2 = self.expr(readable, depth - 1);
            return Expr::Unt(Box::new(untrack_all(&Expr::Add(Box::new(inner), Box::new(inner2)))));
        }
        match self.r.below(8) {
            0 | 1 | 2 => Expr::Add(Box::new(self.expr(readable, depth - 1)), Box::new(self.expr(readable, depth - 1))),
            3 => {
                let k = *self.r.pick(&[0i64, 0, 1, 2, -1]);
                Expr::Mulc(k, Box::new(self.expr(readable, depth - 1)))
            }
            4 | 5 | 6 => {
                let c = *self.r.pick(readable);
                Expr::Ite(
                    Box::new(Expr::Rd(true, c)),
                    Box::new(self.expr(readable, depth - 1)),
                    Box::new(self.expr(readable, depth - 1)),
                )
            }
            _ => Expr::Seq(Box::new(self.expr(readable, depth - 1)), Box::new(self.expr(readable, depth - 1))),
        }
    }
}

fn has_ite(e: &Expr) -> bool {
    match e {
        Expr::Ite(..) => true,
        Expr::Lit(_) | Expr::Rd(..) => false,
        Expr::Add(a, b) | Expr::Seq(a, b) => has_ite(a) || has_ite(b),
        Expr::Mulc(_, a) | Expr::Wr(_, a) | Expr::Unt(a) => has_ite(a),
    }
}

fn untrack_all(e: &Expr) -> Expr {
    match e {
        Expr::Lit(n) => Expr::Lit(*n),
        Expr::Rd(_, i) => Expr::Rd(false, *i),
        Expr::Add(a, b) => Expr::Add(Box::new(untrack_all(a)), Box::new(untrack_all(b))),
        Expr::Seq(a, b) => Expr::Seq(Box::new(untrack_all(a)), Box::new(untrack_all(b))),
        Expr::Mulc(k, a) => Expr::Mulc(*k, Box::new(untrack_all(a))),
        Expr::Ite(c, t, f) => Expr::Ite(Box::new(untrack_all(c)), Box::new(untrack_all(t)), Box::new(untrack_all(f))),
        Expr::Wr(_, a) | Expr::Unt(a) => untrack_all(a),
    }
}

fn reads(e: &Expr, out: &mut Vec<usize>) {
    match e {
        Expr::Lit(_) => {}
        Expr::Rd(_, i) => out.push(*i),
        Expr::Add(a, b) | Expr::Seq(a, b) => {
            reads(a, out);
            reads(b, out)
        }
        Expr::Mulc(_, a) | Expr::Wr(_, a) | Expr::Unt(a) => reads(a, out),
        Expr::Ite(c, t, e) => {
            reads(c, out);
            reads(t, out);
            reads(e, out)
        }
    }
}

fn cutoff(e: &Expr) -> bool {
    match e {
        Expr::Mulc(0, _) => true,
        Expr::Ite(_, t, f) => matches!((&**t, &**f), (Expr::Lit(_), Expr::Lit(_))) || cutoff(t) || cutoff(f),
        Expr::Lit(_) | Expr::Rd(..) => false,
        Expr::Add(a, b) | Expr::Seq(a, b) => cutoff(a) || cutoff(b),
        Expr::Mulc(_, a) | Expr::Wr(_, a) | Expr::Unt(a) => cutoff(a),
    }
}

pub struct Prog {
    pub defs: Vec<Def>,
    /// node ids of effects created as `RenderEffect`
    pub render: Vec<usize>,
    /// node id -> keyword for effects created through another constructor (seff / ieff / weff / wieff)
    pub other: Vec<(usize, &'static str)>,
    /// memoc / memoh nodes (leaves): node id -> bucket width of the coarse comparator (0 = `memoh`, high-water mark)
    pub coarse: Vec<(usize, i64)>,
    /// watch effects: node id -> the signal the handler reads
    pub handler: Vec<(usize, usize)>,
    /// defs [start, end) are created inside a `scope` (signals and memos only)
    pub scope: Option<(usize, usize)>,
    /// `memof` nodes (memos made by `ArcMemo::from(signal)`)
    pub froms: Vec<usize>,
    pub tags: Vec<&'static str>,
}

/// a memoc leaf: biased to bodies whose value moves inside one comparator bucket (`add R<sig> …`, values 0..2, k >= 2)
fn gen_memoc(r: &mut Rng, defs: &mut Vec<Def>, coarse: &mut Vec<(usize, i64)>, untracked: bool) {
    let readable: Vec<usize> = (0..defs.len())
        .filter(|i| matches!(defs[*i], Def::Sig(_) | Def::Memo(_)) && !coarse.iter().any(|c| c.0 == *i))
        .collect();
    let sigs: Vec<usize> = readable.iter().copied().filter(|i| matches!(defs[*i], Def::Sig(_))).collect();
    let mut g = G { r, untracked };
    let depth = g.r.range(0, 2);
    let mut e = g.expr(&readable, depth);
    if r.chance(1, 2) && !sigs.is_empty() {
        e = Expr::Add(Box::new(Expr::Rd(true, *r.pick(&sigs))), Box::new(e));
    }
    let k = *r.pick(&[2i64, 2, 3, 3, 4, 5, 9, 0, 0]);
    defs.push(Def::Memo(e));
    coarse.push((defs.len() - 1, k));
}

pub fn gen_prog(r: &mut Rng, mode: Mode) -> Prog {
    gen_prog_with(r, mode, false)
}

/// `more_untracked`: accessor-variety cases read untracked more often (five untracked accessors to reach)
pub fn gen_prog_with(r: &mut Rng, mode: Mode, more_untracked: bool) -> Prog {
    let mut defs: Vec<Def> = vec![];
    let mut coarse: Vec<(usize, i64)> = vec![];
    let want_coarse = r.chance(1, if mode == Mode::C01 { 3 } else { 8 });
    let nsig = r.range(1, 3);
    for _ in 0..nsig {
        defs.push(Def::Sig(r.below(3) as i64));
    }
    let untracked = r.chance(1, if more_untracked { 2 } else { 4 }) && mode != Mode::C02;
    let stages = match mode {
        Mode::C01 => 1,
        Mode::C09 => r.range(1, 2),
        Mode::C02 => r.range(1, 3),
    };
    let mut written_by_stage: Vec<usize> = vec![];
    let mut render: Vec<usize> = vec![];
    let mut other: Vec<(usize, &'static str)> = vec![];
    let mut handler: Vec<(usize, usize)> = vec![];
    let mut froms: Vec<usize> = vec![];
    for k in 0..stages {
        let nmemo = match mode {
            Mode::C01 => r.range(1, 7),
            _ => r.range(0, 4),
        };
        for _ in 0..nmemo {
            if r.chance(1, 8) {
                // a memo made by conversion from a signal
                let sigs: Vec<usize> = (0..defs.len()).filter(|i| matches!(defs[*i], Def::Sig(_))).collect();
                defs.push(Def::Memo(Expr::Rd(true, *r.pick(&sigs))));
                froms.push(defs.len() - 1);
            }
            let readable: Vec<usize> =
                (0..defs.len()).filter(|i| !matches!(defs[*i], Def::Eff(_)) && !coarse.iter().any(|c| c.0 == *i)).collect();
            // bias: read recent nodes (chains/diamonds) more than old ones
            let mut biased = readable.clone();
            for &x in readable.iter().rev().take(3) {
                biased.push(x);
                biased.push(x);
            }
            let mut g = G { r, untracked };
            let depth = g.r.range(1, 3);
            let e = g.expr(&biased, depth);
            defs.push(Def::Memo(e));
            // diamond whose top reads the cut-off branch BEFORE the shared memo (a; b = cutoff(a); top = b + a): while top
            // checks b, a recomputes and marks top dirty although b reports "unchanged"
            let a = defs.len() - 1;
            if r.chance(1, 10) {
                let rd = |i: usize| Box::new(Expr::Rd(true, i));
                let b = if r.chance(1, 2) {
                    Expr::Ite(rd(a), Box::new(Expr::Lit(1)), Box::new(Expr::Lit(0)))
                } else {
                    Expr::Mulc(0, rd(a))
                };
                defs.push(Def::Memo(b));
                defs.push(Def::Memo(Expr::Add(rd(a + 1), rd(a))));
            }
        }
        if want_coarse && (mode == Mode::C01 || r.chance(1, 2)) {
            for _ in 0..r.range(1, 2) {
                gen_memoc(r, &mut defs, &mut coarse, untracked);
            }
        }
        if mode == Mode::C01 {
            break;
        }
        // an output signal written by this stage's effect (C02 only, half of the time)
        let out = if mode == Mode::C02 && r.chance(1, 2) && k + 1 < stages {
            defs.push(Def::Sig(0));
            Some(defs.len() - 1)
        } else {
            None
        };
        let neff = if mode == Mode::C09 && r.chance(1, 3) { 0 } else { r.range(1, 2) };
        for j in 0..neff {
            let readable: Vec<usize> = (0..defs.len())
                .filter(|i| !matches!(defs[*i], Def::Eff(_)) && Some(*i) != out && !coarse.iter().any(|c| c.0 == *i))
                .collect();
            let mut biased = readable.clone();
            for &x in readable.iter().rev().take(4) {
                biased.push(x);
            }
            let mut g = G { r, untracked: false };
            let depth = g.r.range(1, 2);
            let mut e = g.expr(&biased, depth);
            // effects read at least two things in a chosen order (the order matters for F-C02-1 / F-C09-1)
            if r.chance(2, 3) && readable.len() >= 2 {
                let a = *r.pick(&biased);
                let b = *r.pick(&biased);
                e = Expr::Add(Box::new(Expr::Rd(true, a)), Box::new(Expr::Add(Box::new(Expr::Rd(true, b)), Box::new(e))));
            }
            // gated double read with a memo of the same source in between (s, m(s), s again): the shape in which a
            // subscriber can be entered twice into s's subscriber set (duplicate-edge bookkeeping)
            if r.chance(1, 10) {
                let cands: Vec<(usize, usize)> = defs
                    .iter()
                    .enumerate()
                    .filter(|(i, d)| matches!(d, Def::Memo(_)) && readable.contains(i))
                    .flat_map(|(i, d)| {
                        let mut v = vec![];
                        if let Def::Memo(b) = d {
                            reads(b, &mut v);
                        }
                        v.into_iter().filter(|x| matches!(defs[*x], Def::Sig(_))).map(move |x| (i, x)).collect::<Vec<_>>()
                    })
                    .collect();
                let gates: Vec<usize> = readable.iter().copied().filter(|i| matches!(defs[*i], Def::Sig(_))).collect();
                if !cands.is_empty() && !gates.is_empty() {
                    let (m, s) = *r.pick(&cands);
                    let g = *r.pick(&gates);
                    let rd = |i: usize| Box::new(Expr::Rd(true, i));
                    e = Expr::Ite(rd(g), Box::new(Expr::Add(rd(s), Box::new(Expr::Add(rd(m), rd(s))))), Box::new(e));
                }
            }
            if let (Some(o), 0) = (out, j) {
                e = Expr::Wr(o, Box::new(e));
                written_by_stage.push(o);
            }
            defs.push(Def::Eff(e));
            if r.chance(1, 4) {
                render.push(defs.len() - 1);
            } else if r.chance(1, 3) {
                let kw = *r.pick(&["seff", "ieff", "weff", "wieff", "wseff", "wsieff", "wieff", "wsieff", "rieff", "rieff"]);
                other.push((defs.len() - 1, kw));
                if kw.starts_with('w') && r.chance(3, 4) {
                    // the handler reads a signal, preferably one the dependency function does not depend on
                    let mut anc = vec![];
                    ancestors(&defs, defs.len() - 1, &mut anc);
                    let sigs: Vec<usize> = (0..defs.len()).filter(|i| matches!(defs[*i], Def::Sig(_))).collect();
                    let free: Vec<usize> = sigs.iter().copied().filter(|i| !anc.contains(i)).collect();
                    handler.push((defs.len() - 1, if free.is_empty() { *r.pick(&sigs) } else { *r.pick(&free) }));
                }
            }
        }
    }
    // tags
    let mut tags = vec![];
    let memo_reads: Vec<(usize, Vec<usize>)> = defs
        .iter()
        .enumerate()
        .filter_map(|(i, d)| match d {
            Def::Memo(b) | Def::Eff(b) => {
                let mut v = vec![];
                reads(b, &mut v);
                Some((i, v))
            }
            _ => None,
        })
        .collect();
    let is_memo = |i: usize| matches!(defs.get(i), Some(Def::Memo(_)));
    if memo_reads.iter().any(|(_, rs)| rs.iter().any(|x| is_memo(*x))) {
        tags.push("nested");
    }
    // diamond: a node reading two distinct nodes that share a (transitive, one level) source
    let srcs = |i: usize| memo_reads.iter().find(|(j, _)| *j == i).map(|x| x.1.clone()).unwrap_or_default();
    if memo_reads.iter().any(|(_, rs)| {
        rs.iter().any(|a| rs.iter().any(|b| a != b && (srcs(*a).iter().any(|x| srcs(*b).contains(x) || x == b))))
    }) {
        tags.push("diamond");
    }
    if memo_reads.iter().any(|(_, rs)| rs.iter().any(|a| is_memo(*a) && srcs(*a).iter().any(|b| is_memo(*b)))) {
        tags.push("chain3");
    }
    if defs.iter().any(|d| matches!(d, Def::Memo(b) | Def::Eff(b) if has_ite(b))) {
        tags.push("dyn");
    }
    if defs.iter().any(|d| matches!(d, Def::Memo(b) | Def::Eff(b) if has_untracked(b))) {
        tags.push("untracked");
    }
    if defs.iter().any(|d| matches!(d, Def::Memo(b) if cutoff(b))) {
        tags.push("cutoff");
    }
    if !written_by_stage.is_empty() {
        tags.push("effwrite");
    }
    if !render.is_empty() {
        tags.push("render");
    }
    if !other.is_empty() {
        tags.push("effkinds");
    }
    if coarse.iter().any(|c| c.1 != 0) {
        tags.push("memoc");
    }
    if coarse.iter().any(|c| c.1 == 0) {
        tags.push("memoh");
    }
    if handler.iter().any(|(e, h)| {
        let mut anc = vec![];
        ancestors(&defs, *e, &mut anc);
        !anc.contains(h)
    }) {
        tags.push("whandler");
    }
    if other.iter().any(|o| o.1 == "rieff") {
        tags.push("rieff");
    }
    if other.iter().any(|o| o.1.starts_with("ws")) {
        tags.push("watchsync");
    }
    if tags.is_empty() {
        tags.push("plain");
    }
    if !froms.is_empty() {
        tags.retain(|t| *t != "plain");
        tags.push("memof");
    }
    Prog { defs, render, other, coarse, handler, scope: None, froms, tags }
}

pub fn write_prog(f: &mut impl Write, p: &Prog) -> std::io::Result<()> {
    for (i, d) in p.defs.iter().enumerate() {
        if let Some((a, b)) = p.scope {
            if i == a {
                writeln!(f, "scope")?;
            }
            if i == b {
                writeln!(f, "endscope")?;
            }
        }
        match d {
            Def::Sig(v) => writeln!(f, "sig {v}")?,
            Def::Key(..) => {}
            Def::Memo(b) if p.coarse.iter().any(|c| c.0 == i) => match p.coarse.iter().find(|c| c.0 == i).unwrap().1 {
                0 => writeln!(f, "memoh {}", show_expr(b))?,
                k => writeln!(f, "memoc {k} {}", show_expr(b))?,
            },
            Def::Memo(Expr::Rd(true, sg)) if p.froms.contains(&i) => writeln!(f, "memof {sg}")?,
            Def::Memo(b) => writeln!(f, "memo {}", show_expr(b))?,
            Def::Eff(b) if p.render.contains(&i) => writeln!(f, "reff {}", show_expr(b))?,
            Def::Eff(b) if p.other.iter().any(|o| o.0 == i) => {
                let kw = p.other.iter().find(|o| o.0 == i).unwrap().1;
                match p.handler.iter().find(|h| h.0 == i) {
                    Some((_, h)) => writeln!(f, "{kw} h{h} {}", show_expr(b))?,
                    None => writeln!(f, "{kw} {}", show_expr(b))?,
                }
            }
            Def::Eff(b) => writeln!(f, "eff {}", show_expr(b))?,
        }
    }
    if let Some((_, b)) = p.scope {
        if b == p.defs.len() {
            writeln!(f, "endscope")?;
        }
    }
    Ok(())
}

/// A selector case (C02 / C09): signals, an optional memo, `sel K <source>`, then readers of the key nodes (effects of
/// every constructor, memos, dynamic reads) created before AND after the selection moves, histories with polls in
/// non-FIFO order.  The shapes asked for: a key first read while it is selected and deselected later (`selfirst`), keys
/// that are never selected (`selnever`), readers created after a move (`sellate`).
fn gen_selector_case(r: &mut Rng, mode: Mode) -> (Vec<&'static str>, Vec<String>) {
    let mut lines: Vec<String> = vec![];
    let mut defs: Vec<Def> = vec![];
    let mut cur: Vec<i64> = vec![];
    let mut tags = vec!["selector"];
    // a third of the selectors use `new_with_fn` with the non-equality comparator (`selc`, at least two keys)
    let custom = r.chance(1, 3);
    let k = if custom { r.range(2, 4) } else { r.range(1, 4) } as usize;
    if custom {
        tags.push("selc");
    }
    let nsig = r.range(1, 2);
    let vmax = k + 1; // values 0..=k: value k selects no key
    for _ in 0..nsig {
        let v = r.below(vmax) as i64;
        defs.push(Def::Sig(v));
        cur.push(v);
        lines.push(format!("sig {v}"));
    }
    let sigs: Vec<usize> = (0..nsig as usize).collect();
    let push = |defs: &mut Vec<Def>, cur: &mut Vec<i64>, lines: &mut Vec<String>, kw: &str, d: Def| {
        if let Def::Memo(b) | Def::Eff(b) = &d {
            lines.push(format!("{kw} {}", show_expr(b)));
        }
        defs.push(d);
        cur.push(0);
    };
    if r.chance(1, 3) {
        let e = if r.chance(1, 2) {
            Expr::Rd(true, *r.pick(&sigs))
        } else {
            Expr::Add(Box::new(Expr::Rd(true, *r.pick(&sigs))), Box::new(Expr::Rd(true, *r.pick(&sigs))))
        };
        push(&mut defs, &mut cur, &mut lines, "memo", Def::Memo(e));
    }
    let data: Vec<usize> = (0..defs.len()).collect();
    let src = match r.below(10) {
        0..=5 => Expr::Rd(true, *r.pick(&sigs)),
        6 | 7 => Expr::Rd(true, *data.last().unwrap()),
        8 => Expr::Add(Box::new(Expr::Rd(true, *r.pick(&data))), Box::new(Expr::Rd(true, *r.pick(&data)))),
        _ => Expr::Ite(
            Box::new(Expr::Rd(true, *r.pick(&data))),
            Box::new(Expr::Rd(true, *r.pick(&data))),
            Box::new(Expr::Lit(r.below(vmax) as i64)),
        ),
    };
    if !matches!(src, Expr::Rd(..)) {
        tags.push("selexpr");
    }
    let first = defs.len();
    lines.push(format!("{} {k} {}", if custom { "selc" } else { "sel" }, show_expr(&src)));
    let node = first + k + custom as usize;
    for j in 0..k {
        defs.push(Def::Key(node, j as i64));
        cur.push(0);
    }
    if custom {
        // the hidden node (not readable)
        defs.push(Def::Key(node, -1));
        cur.push(0);
    }
    defs.push(Def::Eff(src.clone()));
    cur.push(0);
    let keys: Vec<usize> = (first..first + k).collect();
    // per key: was a reader created while it was selected / has it ever been selected
    let mut read_while_selected = vec![false; k];
    let mut ever_selected = vec![false; k];
    let mut ever_read = vec![false; k];
    let mut moved = false;
    let (mut selfirst, mut sellate, mut nonfifo) = (false, false, false);
    let selection = |defs: &[Def], cur: &[i64]| eval_pure(defs, cur, &src);
    let add_reader = |r: &mut Rng, defs: &mut Vec<Def>, cur: &mut Vec<i64>, lines: &mut Vec<String>, moved: bool,
                          read_while_selected: &mut Vec<bool>, ever_read: &mut Vec<bool>| {
        let now = selection(defs, cur);
        // biased to the key that is selected right now
        let pick_key = |r: &mut Rng| -> usize {
            if now >= 0 && (now as usize) < k && r.chance(1, 2) { now as usize } else { r.below(k) }
        };
        let j = pick_key(r);
        let kj = Expr::Rd(true, keys[j]);
        let mut used = vec![j];
        let body = match r.below(8) {
            0 | 1 | 2 => kj,
            3 => {
                let j2 = pick_key(r);
                used.push(j2);
                Expr::Add(Box::new(kj), Box::new(Expr::Rd(true, keys[j2])))
            }
            4 => Expr::Ite(Box::new(kj), Box::new(Expr::Rd(true, *r.pick(&sigs))), Box::new(Expr::Lit(0))),
            5 => Expr::Add(Box::new(kj), Box::new(Expr::Rd(true, *r.pick(&sigs)))),
            6 => Expr::Add(Box::new(Expr::Rd(true, *r.pick(&sigs))), Box::new(kj)),
            _ => {
                let j2 = pick_key(r);
                used.push(j2);
                Expr::Ite(Box::new(Expr::Rd(true, *r.pick(&sigs))), Box::new(kj), Box::new(Expr::Rd(true, keys[j2])))
            }
        };
        for j in used {
            ever_read[j] = true;
            if now == j as i64 {
                read_while_selected[j] = true;
            }
        }
        if r.chance(1, 4) {
            // through a memo
            push(defs, cur, lines, "memo", Def::Memo(body));
            let m = defs.len() - 1;
            push(defs, cur, lines, "eff", Def::Eff(Expr::Rd(true, m)));
        } else {
            let kw = *r.pick(&["eff", "eff", "eff", "reff", "reff", "seff", "ieff", "wieff"]);
            push(defs, cur, lines, kw, Def::Eff(body));
        }
        moved
    };
    let note_selection = |defs: &[Def], cur: &[i64], ever_selected: &mut Vec<bool>| {
        let now = eval_pure(defs, cur, &src);
        if now >= 0 && (now as usize) < k {
            ever_selected[now as usize] = true;
        }
    };
    note_selection(&defs, &cur, &mut ever_selected);
    for _ in 0..r.range(1, 3) {
        add_reader(r, &mut defs, &mut cur, &mut lines, moved, &mut read_while_selected, &mut ever_read);
    }
    let len = r.range(6, 24);
    for _ in 0..len {
        match r.below(12) {
            0..=3 => {
                let s = *r.pick(&sigs);
                let v = r.below(vmax) as i64;
                let before = eval_pure(&defs, &cur, &src);
                cur[s] = v;
                let after = eval_pure(&defs, &cur, &src);
                if before != after {
                    moved = true;
                    if before >= 0 && (before as usize) < k && read_while_selected[before as usize] {
                        selfirst = true;
                    }
                }
                note_selection(&defs, &cur, &mut ever_selected);
                lines.push(format!("set {s} {v}"));
            }
            4..=6 => {
                let i = r.below(4);
                if i > 0 {
                    nonfifo = true;
                }
                lines.push(format!("poll {i}"));
            }
            7 => lines.push("idle".into()),
            8 | 9 => {
                let readable: Vec<usize> =
                    (0..defs.len()).filter(|i| matches!(defs[*i], Def::Sig(_) | Def::Memo(_) | Def::Key(_, 0..))).collect();
                lines.push(format!("read {}", *r.pick(&readable)));
            }
            _ => {
                if add_reader(r, &mut defs, &mut cur, &mut lines, moved, &mut read_while_selected, &mut ever_read) {
                    sellate = true;
                }
            }
        }
    }
    lines.push("idle".into());
    let _ = mode;
    if selfirst {
        tags.push("selfirst");
    }
    if sellate {
        tags.push("sellate");
    }
    if (0..k).any(|j| ever_read[j] && !ever_selected[j]) {
        tags.push("selnever");
    }
    if nonfifo {
        tags.push("nonfifo");
    }
    (tags, lines)
}

/// A slice case: an `RwSignal` holding a struct of two fields, 2-4 slices over it (getter field g, setter field s;
/// g != s is the asymmetric pair: the setter changes state its own getter does not show), memos over slices and plain
/// signals, optional effects; writes go through slice setters and directly to the fields.
fn gen_slice_case(r: &mut Rng, mode: Mode) -> (Vec<&'static str>, Vec<String>) {
    let mut lines: Vec<String> = vec![];
    let mut defs: Vec<Def> = vec![];
    let mut tags = vec!["slice"];
    let mut plain: Vec<usize> = vec![];
    if r.chance(1, 2) {
        let v = r.below(3) as i64;
        defs.push(Def::Sig(v));
        plain.push(0);
        lines.push(format!("sig {v}"));
    }
    let first = defs.len();
    let (a, b) = (r.below(3) as i64, r.below(3) as i64);
    defs.push(Def::Sig(a));
    defs.push(Def::Sig(b));
    lines.push(format!("ssig {a} {b}"));
    let mut slices: Vec<usize> = vec![];
    let mut asym = false;
    for k in 0..r.range(2, 4) {
        // the first two slices show both fields, so that every write is visible through some other slice
        let g = if k < 2 { k } else { r.below(2) };
        let st = if r.chance(1, 2) { g } else { 1 - g };
        asym |= g != st;
        defs.push(Def::Memo(Expr::Seq(Box::new(Expr::Rd(true, first + 1 - g)), Box::new(Expr::Rd(true, first + g)))));
        slices.push(defs.len() - 1);
        lines.push(format!("slice {first} {g} {st}"));
    }
    if asym {
        tags.push("slicea");
    }
    let mut readable: Vec<usize> = plain.iter().chain(slices.iter()).copied().collect();
    for _ in 0..r.range(1, 4) {
        let mut g = G { r, untracked: false };
        let depth = g.r.range(1, 2);
        let e = g.expr(&readable, depth);
        lines.push(format!("memo {}", show_expr(&e)));
        defs.push(Def::Memo(e));
        readable.push(defs.len() - 1);
    }
    let mut has_eff = false;
    if mode != Mode::C01 {
        for _ in 0..r.range(1, 2) {
            let mut g = G { r, untracked: false };
            let e = g.expr(&readable, 1);
            let kw = *r.pick(&["eff", "eff", "reff", "seff", "ieff", "rieff"]);
            lines.push(format!("{kw} {}", show_expr(&e)));
            defs.push(Def::Eff(e));
            has_eff = true;
        }
    }
    for _ in 0..r.range(6, 24) {
        match r.below(12) {
            0..=3 => lines.push(format!("sset {} {}", *r.pick(&slices), r.below(3))),
            4 => lines.push(format!("set {} {}", first + r.below(2), r.below(3))),
            5 if !plain.is_empty() => lines.push(format!("set {} {}", plain[0], r.below(3))),
            6 | 7 if has_eff => lines.push(if r.chance(1, 3) { "idle".into() } else { format!("poll {}", r.below(3)) }),
            _ => {
                let all: Vec<usize> = (0..defs.len()).filter(|i| !matches!(defs[*i], Def::Eff(_))).collect();
                lines.push(format!("read {}", if r.chance(2, 3) { *r.pick(&readable) } else { *r.pick(&all) }));
            }
        }
    }
    if has_eff {
        lines.push("idle".into());
    }
    (tags, lines)
}

/// An immediate-effect case: signals, memos over signals (depth 1), deeper memos for ordinary effects, 1-3 `imeff`
/// nodes with admissible bodies (see `imm_ok`), ordinary non-writing effects of every constructor; no lifecycle ops.
fn gen_imm_case(r: &mut Rng) -> (Vec<&'static str>, Vec<String>) {
    let mut lines: Vec<String> = vec![];
    let mut defs: Vec<Def> = vec![];
    let mut tags = vec!["imm"];
    let nsig = r.range(2, 4);
    for _ in 0..nsig {
        let v = r.below(3) as i64;
        defs.push(Def::Sig(v));
        lines.push(format!("sig {v}"));
    }
    let sigs: Vec<usize> = (0..nsig).collect();
    let rd = |i: usize| Box::new(Expr::Rd(true, i));
    let mut shallow: Vec<usize> = vec![];
    for _ in 0..r.range(1, 4) {
        let e = match r.below(4) {
            0 => Expr::Rd(true, *r.pick(&sigs)),
            1 => Expr::Add(rd(*r.pick(&sigs)), rd(*r.pick(&sigs))),
            2 => Expr::Ite(rd(*r.pick(&sigs)), rd(*r.pick(&sigs)), Box::new(Expr::Lit(r.below(3) as i64))),
            _ => Expr::Mulc(*r.pick(&[0i64, 1, 2]), rd(*r.pick(&sigs))),
        };
        lines.push(format!("memo {}", show_expr(&e)));
        defs.push(Def::Memo(e));
        shallow.push(defs.len() - 1);
    }
    let mut readable: Vec<usize> = sigs.iter().chain(shallow.iter()).copied().collect();
    if r.chance(1, 2) {
        let mut g = G { r, untracked: false };
        let e = g.expr(&readable, 2);
        lines.push(format!("memo {}", show_expr(&e)));
        defs.push(Def::Memo(e));
        readable.push(defs.len() - 1);
    }
    let cands: Vec<usize> = sigs.iter().chain(shallow.iter()).copied().collect();
    let nimm = r.range(1, 3);
    let neff = r.range(0, 2);
    let mut kinds: Vec<bool> = (0..nimm).map(|_| true).chain((0..neff).map(|_| false)).collect();
    // interleave the creation order
    for i in (1..kinds.len()).rev() {
        kinds.swap(i, r.below(i + 1));
    }
    let mut has_eff = false;
    for is_imm in kinds {
        if is_imm {
            // greedily pick directly read nodes with pairwise disjoint signal ancestors
            let mut picked: Vec<usize> = vec![];
            let mut used: Vec<usize> = vec![];
            for _ in 0..r.range(1, 3) {
                let c = *r.pick(&cands);
                let mut anc = vec![];
                ancestors(&defs, c, &mut anc);
                if !picked.contains(&c) && !anc.iter().any(|x| used.contains(x)) {
                    used.extend(anc);
                    picked.push(c);
                }
            }
            let e = match picked.as_slice() {
                [a] => Expr::Rd(true, *a),
                [a, b] if r.chance(1, 3) => Expr::Ite(rd(*a), rd(*b), Box::new(Expr::Lit(0))),
                [a, b] => Expr::Add(rd(*a), rd(*b)),
                [a, b, c, ..] => Expr::Add(rd(*a), Box::new(Expr::Add(rd(*b), rd(*c)))),
                [] => Expr::Lit(0),
            };
            debug_assert!(imm_ok(&defs, &e));
            lines.push(format!("imeff {}", show_expr(&e)));
            defs.push(Def::Eff(e));
        } else {
            let mut g = G { r, untracked: false };
            let e = g.expr(&readable, 1);
            let kw = *r.pick(&["eff", "eff", "reff", "seff", "ieff", "rieff", "wieff"]);
            lines.push(format!("{kw} {}", show_expr(&e)));
            defs.push(Def::Eff(e));
            has_eff = true;
        }
    }
    let memos: Vec<usize> = (0..defs.len()).filter(|i| matches!(defs[*i], Def::Memo(_))).collect();
    for _ in 0..r.range(6, 24) {
        match r.below(10) {
            0..=4 => lines.push(format!("set {} {}", *r.pick(&sigs), r.below(3))),
            5 | 6 if has_eff => lines.push(if r.chance(1, 3) { "idle".into() } else { format!("poll {}", r.below(3)) }),
            _ => lines.push(format!("read {}", *r.pick(&memos))),
        }
    }
    if has_eff {
        lines.push("idle".into());
        tags.push("immtask");
    }
    (tags, lines)
}

/// F-C02-3 (repaired by /repo commit 2b9d3c6, hooks/fix-c02-3.patch): before the repair a write through `WriteSignal` /
/// `ArcWriteSignal` drained the signal's subscriber set, so an effect that consumed a notification while paused was never
/// notified again.  `false` keeps split handles out of cases with pause / resume ops (needed only on a tree without the repair).
pub const SPLIT_WITH_PAUSE: bool = true;

pub fn gen(mode: Mode, seed: u64, n: usize, path: &str, _tier: &str) -> std::io::Result<()> {
    let mut r = Rng::new(seed ^ (mode as u64 + 1) * 0x5151);
    let mut f = std::io::BufWriter::new(std::fs::File::create(path)?);
    for i in 0..n {
        // accessor / constructor variety on half of the cases
        let acc: Option<usize> = if r.chance(1, 2) { Some(r.below(60) as usize) } else { None };
        let special = r.below(24);
        let special: Option<(Vec<&'static str>, Vec<String>)> = match (mode, special) {
            (Mode::C02, 0..=5) | (Mode::C09, 0..=3) => Some(gen_selector_case(&mut r, mode)),
            (Mode::C01, 0..=3) | (Mode::C09, 4..=5) | (Mode::C02, 6..=7) => Some(gen_slice_case(&mut r, mode)),
            (Mode::C09, 6..=8) | (Mode::C02, 8..=10) => Some(gen_imm_case(&mut r)),
            _ => None,
        };
        if let Some((mut tags, lines)) = special {
            if acc.is_some() {
                tags.push("acc");
            }
            let oncl = mode != Mode::C01 && r.chance(1, 3);
            if oncl {
                tags.push("oncl");
            }
            let wrap = if r.chance(1, 3) { r.range(1, 6) } else { 0 };
            match wrap {
                3 => tags.push("mapped"),
                4 | 5 | 6 => tags.push("maybe"),
                _ => {}
            }
            writeln!(f, "case {i}:{}", tags.join(","))?;
            writeln!(f, "mode {}", if r.chance(1, 2) { "arena" } else { "arc" })?;
            if let Some(a) = acc {
                writeln!(f, "acc {a}")?;
            }
            if wrap != 0 {
                writeln!(f, "wrap {wrap}")?;
            }
            if oncl {
                writeln!(f, "oncl")?;
            }
            for l in lines {
                writeln!(f, "{l}")?;
            }
            continue;
        }
        // the wrapper families matter most for untracked reads through every accessor
        let wrap = if r.chance(2, 5) { r.range(1, 6) } else { 0 };
        let acc = if wrap >= 3 && acc.is_none() && r.chance(2, 3) { Some(r.below(60)) } else { acc };
        let mut p = gen_prog_with(&mut r, mode, acc.is_some() || wrap >= 3);
        // a memo nobody reads, evaluated first and dropped later: a dead entry ahead of the live subscribers
        let dropm: Option<usize> = if r.chance(1, 5) {
            let sigs: Vec<usize> = (0..p.defs.len()).filter(|i| matches!(p.defs[*i], Def::Sig(_))).collect();
            let e = if sigs.len() >= 2 && r.chance(1, 2) {
                Expr::Add(Box::new(Expr::Rd(true, sigs[0])), Box::new(Expr::Rd(true, sigs[1])))
            } else {
                Expr::Rd(true, *r.pick(&sigs))
            };
            p.defs.push(Def::Memo(e));
            p.tags.push("dropped");
            Some(p.defs.len() - 1)
        } else {
            None
        };
        // node lifetime vs owner lifetime: a run of signals / memos is created under a child owner that is cleaned up
        // early in the history; they are reference counted there and must keep working
        if r.chance(1, 4) {
            let a = r.below(p.defs.len());
            let mut b = a;
            while b < p.defs.len() && matches!(p.defs[b], Def::Sig(_) | Def::Memo(_)) && !p.froms.contains(&b) && b - a < 5 {
                b += 1;
            }
            if b > a {
                p.scope = Some((a, b));
                p.tags.push("scope");
            }
        }
        let mut tags = p.tags.clone();
        let has_eff = p.defs.iter().any(|d| matches!(d, Def::Eff(_)));
        let lifecycle = has_eff && r.chance(1, 4);
        // memo-only programs: pausing the root owner must not change what memos return
        let paused = !has_eff && r.chance(1, 4);
        if paused {
            tags.push("paused");
        }
        let dispw = r.chance(1, 4);
        if dispw {
            tags.push("disposew");
        }
        let acc = if lifecycle && !SPLIT_WITH_PAUSE { acc.map(|n| n - (n / 3 % 4) * 3) } else { acc };
        if acc.is_some() {
            tags.retain(|t| *t != "plain");
            tags.push("acc");
            if p.defs.iter().enumerate().any(|(i, d)| {
                matches!(d, Def::Memo(_)) && !p.coarse.iter().any(|c| c.0 == i) && memo_ctor(acc, i) != 0
            }) {
                tags.push("ctor");
            }
            if p.defs.iter().enumerate().any(|(i, d)| matches!(d, Def::Sig(_)) && sig_split(acc, i)) {
                tags.push("split");
            }
        }
        let arena = r.chance(1, 2);
        let len = r.range(5, 30);
        let sigs: Vec<usize> = p.defs.iter().enumerate().filter(|(_, d)| matches!(d, Def::Sig(_))).map(|x| x.0).collect();
        let readable: Vec<usize> =
            p.defs.iter().enumerate().filter(|(_, d)| matches!(d, Def::Memo(_) | Def::Sig(_))).map(|x| x.0).collect();
        let readable: Vec<usize> = readable.into_iter().filter(|i| Some(*i) != dropm).collect();
        let memos: Vec<usize> = p
            .defs
            .iter()
            .enumerate()
            .filter(|(i, d)| matches!(d, Def::Memo(_)) && Some(*i) != dropm)
            .map(|x| x.0)
            .collect();
        let leaves: Vec<usize> = p.coarse.iter().map(|c| c.0).collect();
        let effs: Vec<usize> = p.defs.iter().enumerate().filter(|(_, d)| matches!(d, Def::Eff(_))).map(|x| x.0).collect();
        if lifecycle {
            tags.push("lifecycle");
        }
        let mut ops = vec![];
        let mut cur: Vec<i64> = p.defs.iter().map(|d| if let Def::Sig(v) = d { *v } else { 0 }).collect();
        let mut eqwrite = false;
        // untracked writes followed by an explicit notify()
        let setun_case = r.chance(1, 3);
        let mut setun = false;
        let drop_at = r.range(1, len / 2 + 1);
        if let Some(m) = dropm {
            ops.push(format!("read {m}"));
        }
        let scope_at = r.range(0, len / 2);
        for step in 0..len {
            if let (Some(m), true) = (dropm, step == drop_at) {
                ops.push(format!("drop {m}"));
            }
            if p.scope.is_some() && step == scope_at {
                ops.push("cleanupscope 0".into());
            }
            if paused && r.chance(1, 5) {
                ops.push((*r.pick(&["pauseall", "pauseall", "resumeall"])).into());
            }
            if dispw && r.chance(1, 5) {
                ops.push(format!("disposew {}", *r.pick(&readable)));
            }
            let k = r.below(10);
            if lifecycle && r.chance(1, 6) {
                let e = *r.pick(&effs);
                match r.below(7) {
                    0 => ops.push("pauseall".into()),
                    1 => ops.push("resumeall".into()),
                    _ => ops.push(format!("{} {e}", *r.pick(&["pause", "resume", "resume", "dispose", "pause"]))),
                }
                continue;
            }
            if k < 4 {
                let s = *r.pick(&sigs);
                let v = r.below(3) as i64;
                if cur[s] == v {
                    eqwrite = true;
                }
                cur[s] = v;
                if setun_case && r.chance(1, 2) {
                    setun = true;
                    ops.push(format!("setun {s} {v}"));
                } else {
                    ops.push(format!("set {s} {v}"));
                }
                // a coarse memo is interesting right after a write that may stay inside its bucket
                if !leaves.is_empty() && r.chance(1, 2) {
                    ops.push(format!("read {}", *r.pick(&leaves)));
                }
            } else if k < 7 || !has_eff {
                let m = if !memos.is_empty() && r.chance(5, 6) { *r.pick(&memos) } else { *r.pick(&readable) };
                ops.push(format!("read {m}"));
            } else if k < 9 {
                ops.push(format!("poll {}", r.below(3)));
            } else {
                ops.push("idle".into());
            }
        }
        if has_eff {
            ops.push("idle".into());
        }
        if eqwrite {
            tags.push("eqwrite");
        }
        match wrap {
            3 => tags.push("mapped"),
            4 | 5 | 6 => tags.push("maybe"),
            _ => {}
        }
        let oncl = has_eff && r.chance(1, 3);
        if oncl {
            tags.push("oncl");
        }
        // cleanup callbacks that read a signal
        let onclr: Option<usize> = if oncl && r.chance(1, 2) { Some(*r.pick(&sigs)) } else { None };
        if onclr.is_some() {
            tags.push("onclr");
        }
        if setun {
            tags.push("setun");
        }
        writeln!(f, "case {i}:{}", tags.join(","))?;
        writeln!(f, "mode {}", if arena { "arena" } else { "arc" })?;
        if let Some(a) = acc {
            writeln!(f, "acc {a}")?;
        }
        if wrap != 0 {
            writeln!(f, "wrap {wrap}")?;
        }
        if oncl {
            writeln!(f, "oncl")?;
        }
        write_prog(&mut f, &p)?;
        if let Some(sg) = onclr {
            writeln!(f, "onclr {sg}")?;
        }
        for o in ops {
            writeln!(f, "{o}")?;
        }
    }
    f.flush()
}
