fn main() { hx_c01::modes::main_for(hx_c01::modes::Mode::C01) }
