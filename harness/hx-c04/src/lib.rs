//! C04 harness library: reactive view programs as data, realised with the REAL leptos/tachys
//! components, rendered into the native DOM (`--cfg leptos_verif`).
//!
//! Op grammar (one per line; see `bin/c04.rs` for the outputs):
//!   case <name>
//!   sig <init>                      node ids are assigned in order of definition (signals and memos)
//!   memo <expr>                     `Memo::new`
//!   mount <view>                    `leptos::mount::mount_to_renderer(&root, ..)`
//!   set <id> <v> | poll <i> | idle | dispose
//!   ares <expr>                     `AsyncDerived::new` over signals (before `mount`): every fetch stays pending until
//!   resolve <rid>                   … this op completes the resource's LATEST fetch with the value its expression had when the
//!                                   fetch started.  Views with `sus` / `tra` ("S views"): every op runs the executor to idle and prints
//!                                   `sdom=<the DOM without ids and counters>` (`sdom=?` while a live `lw` leaf selects a closed gate: what
//!                                   it shows then depends on the polling order)
//!   open <g>                        opens gate `g` of the `lw` leaves (and runs to idle)
//!   pset <id> <v> | presolve <rid> | popen <g> | poll <i>   (S views) the same without running the executor — only the resources' own
//!                                   tasks run —, and one poll of the i-th ready task of the view; these print `~`; `idle` observes
//!   setl <sid> <v>                  write every live component-local signal created by `sc <sid> s ..`
//!                                   (through the handles the harness keeps; disposed ones are skipped)
//! <expr> prefix tokens: L<n> | R<id> | add e e | mulc <k> e | ite e e e
//!                       K (key of the enclosing row) | V<j> (state of the j-th enclosing `sc`, innermost = 0)
//! <view> prefix tokens:
//!   t <hex>                 static text            u                  `()` (placeholder comment)
//!   el <tag> <n> <attr>*n <view>                   seq <view> <view>  tuple
//!   dt <expr>               `move || v.to_string()`
//!   ei <expr> <view> <view> `move || if c != 0 { Either::Left(a) } else { Either::Right(b) }`
//!   sh <expr> <view> <view> `<Show when=.. fallback=..>`
//!   for <expr> <n> <list>*n `<For each=move || lists[sel mod n] key=|k| *k children=|k| <li>{k}</li>>`
//!   forr <expr> <n> <list>*n <view>  `<For ..>` with rows `<li>{k}{view}</li>`; the row view is constructed inside `children`
//!   fore <expr> <n> <list>*n <view>  `<ForEnumerate ..>` with the same rows; inside the row `V<d>` (d = number of `sc` around the
//!                                    reference inside the row) is the row's `index` signal
//!   sc <sid> m <expr> <view>  a component body: `let m = Memo::new(move |_| expr); view`   (created where the view is CONSTRUCTED:
//!   sc <sid> s <init> <view>                     `let l = RwSignal::new(init); view`         in the effect run / row / mount closure)
//!   eb <view>               `<ErrorBoundary fallback=|_| "error">{view}</ErrorBoundary>`
//!   res <expr> <expr>       `move || if c != 0 { Err(HxErr) } else { Ok(v.to_string()) }`: a `Result` leaf (throws to the
//!                           enclosing boundary while it is `Err`, renders the `()` placeholder)
//!   sus <view> | tra <view> `<Suspense fallback="wait">` / `<Transition fallback="wait">` over the view
//!   aw <rid>                `move || Suspend::new(async move { resource.await.to_string() })`: reads the resource defined by the
//!                           <rid>-th `ares` line (only below a `sus` / `tra`)
//!   lw <expr>               `move || { let g = gates[v mod 4].clone(); Suspend::new(async move { g.wait().await.to_string() }) }`: a `Suspend`
//!                           over a plain future picked by a signal; gate `g` resolves to `g` once `open <g>` / `popen <g>` opened it
//!   susp <expr> <view>      `<Suspense fallback="wait">` over an `AsyncDerived` of the expression (resolves after one more poll), children `(value, view)`   (implementation only)
//!   errb <expr> <view>      `<ErrorBoundary>` over `move || if e != 0 { Err } else { Ok(view) }` (implementation only)
//! <attr>: as <name> <hex> | ad <name> <expr> | ac <name> <expr> | ay <name> <expr>
//!   `ad`: `name=move || if v == 0 { None } else { Some(v.to_string()) }`; `ac`: `class:name=move || v != 0`;
//!   `ay`: `style:name=move || if v == 0 { None } else { Some(format!("{v}px")) }` (optional values: absent at 0)
pub mod gen;

use std::collections::BTreeSet;

#[derive(Clone, Debug, PartialEq)]
pub enum Expr {
    Lit(i64),
    Rd(usize),
    Add(Box<Expr>, Box<Expr>),
    Mulc(i64, Box<Expr>),
    Ite(Box<Expr>, Box<Expr>, Box<Expr>),
    /// key of the enclosing row
    Key,
    /// state of the j-th enclosing scope (innermost first)
    Loc(usize),
}

#[derive(Clone, Debug, PartialEq)]
pub enum LDef {
    Memo(Expr),
    Sig(i64),
}

#[derive(Clone, Debug, PartialEq)]
pub enum AttrD {
    Stat(&'static str, String),
    Dyn(&'static str, Expr),
    Cls(&'static str, Expr),
    Sty(&'static str, Expr),
}

#[derive(Clone, Debug, PartialEq)]
pub enum ViewD {
    Text(String),
    Unit,
    Elem(&'static str, Vec<AttrD>, Box<ViewD>),
    Seq(Box<ViewD>, Box<ViewD>),
    DynText(Expr),
    Either(Expr, Box<ViewD>, Box<ViewD>),
    Show(Expr, Box<ViewD>, Box<ViewD>),
    For(Expr, Vec<Vec<u32>>),
    /// `<For>` with rows `<li>{k}{row}</li>`
    ForR(Expr, Vec<Vec<u32>>, Box<ViewD>),
    /// `<ForEnumerate>` with rows `<li>{k}{row}</li>`; the row's outermost state (`V<depth>`) is its index signal
    ForE(Expr, Vec<Vec<u32>>, Box<ViewD>),
    /// a component body that creates state of its own
    Scope(u32, LDef, Box<ViewD>),
    /// `<ErrorBoundary>` with the fallback text "error"
    Eb(Box<ViewD>),
    /// a `Result` leaf: `Err` while the first expression is non-zero, else `Ok(second.to_string())`
    Res(Expr, Expr),
    /// `<Suspense fallback="wait">`
    Sus(Box<ViewD>),
    /// `<Transition fallback="wait">`
    Tra(Box<ViewD>),
    /// a `Suspend` leaf over the resource
    Aw(usize),
    /// a `Suspend` leaf over the gate the expression selects
    Lw(Expr),
    Susp(Expr, Box<ViewD>),
    Errb(Expr, Box<ViewD>),
}

pub const TAGS: &[&str] = &["div", "span", "p", "ul", "b", "i", "section"];
pub const STAT_NAMES: &[&str] = &["id", "lang", "data-s"];
pub const DYN_NAMES: &[&str] = &["title", "data-x", "data-y"];
pub const CLS_NAMES: &[&str] = &["on", "big", "hot"];
pub const STY_NAMES: &[&str] = &["width", "height", "top"];

fn intern(table: &[&'static str], s: &str) -> Option<&'static str> {
    table.iter().copied().find(|t| *t == s)
}

#[derive(Clone, Debug, PartialEq)]
pub enum Def {
    Sig(i64),
    Memo(Expr),
}

// ------------------------------------------------------------------------------------ parse / print

pub struct Toks<'a> {
    pub t: Vec<&'a str>,
    pub pos: usize,
}

impl<'a> Toks<'a> {
    pub fn new(s: &'a str) -> Self {
        Toks { t: s.split_ascii_whitespace().collect(), pos: 0 }
    }
    pub fn next(&mut self) -> Option<&'a str> {
        let r = self.t.get(self.pos).copied();
        self.pos += 1;
        r
    }
    pub fn done(&self) -> bool {
        self.pos >= self.t.len()
    }
}

pub fn parse_expr(t: &mut Toks) -> Option<Expr> {
    let tok = t.next()?;
    Some(match tok {
        "add" => Expr::Add(Box::new(parse_expr(t)?), Box::new(parse_expr(t)?)),
        "mulc" => {
            let k: i64 = t.next()?.parse().ok()?;
            Expr::Mulc(k, Box::new(parse_expr(t)?))
        }
        "ite" => Expr::Ite(Box::new(parse_expr(t)?), Box::new(parse_expr(t)?), Box::new(parse_expr(t)?)),
        "K" => Expr::Key,
        _ if tok.starts_with('V') => Expr::Loc(tok[1..].parse().ok()?),
        _ if tok.starts_with('L') => Expr::Lit(tok[1..].parse().ok()?),
        _ if tok.starts_with('R') => Expr::Rd(tok[1..].parse().ok()?),
        _ => return None,
    })
}

pub fn show_expr(e: &Expr) -> String {
    match e {
        Expr::Lit(n) => format!("L{n}"),
        Expr::Rd(i) => format!("R{i}"),
        Expr::Add(a, b) => format!("add {} {}", show_expr(a), show_expr(b)),
        Expr::Mulc(k, a) => format!("mulc {k} {}", show_expr(a)),
        Expr::Ite(c, t, e) => format!("ite {} {} {}", show_expr(c), show_expr(t), show_expr(e)),
        Expr::Key => "K".into(),
        Expr::Loc(j) => format!("V{j}"),
    }
}

fn parse_attr(t: &mut Toks) -> Option<AttrD> {
    let k = t.next()?;
    let name = t.next()?;
    Some(match k {
        "as" => AttrD::Stat(intern(STAT_NAMES, name)?, hx_common::unhex_str(t.next()?)?),
        "ad" => AttrD::Dyn(intern(DYN_NAMES, name)?, parse_expr(t)?),
        "ac" => AttrD::Cls(intern(CLS_NAMES, name)?, parse_expr(t)?),
        "ay" => AttrD::Sty(intern(STY_NAMES, name)?, parse_expr(t)?),
        _ => return None,
    })
}

fn parse_lists(t: &mut Toks) -> Option<Vec<Vec<u32>>> {
    let n: usize = t.next()?.parse().ok()?;
    if n == 0 || n > 16 {
        return None;
    }
    let mut lists = vec![];
    for _ in 0..n {
        let l = t.next()?;
        let mut ks = vec![];
        if l != "-" {
            for k in l.split(',') {
                let k: u32 = k.parse().ok()?;
                if ks.contains(&k) {
                    return None;
                }
                ks.push(k);
            }
        }
        lists.push(ks);
    }
    Some(lists)
}

fn show_lists(lists: &[Vec<u32>]) -> String {
    let ls: Vec<String> = lists
        .iter()
        .map(|l| if l.is_empty() { "-".into() } else { l.iter().map(|k| k.to_string()).collect::<Vec<_>>().join(",") })
        .collect();
    format!("{} {}", lists.len(), ls.join(" "))
}

pub fn parse_view(t: &mut Toks) -> Option<ViewD> {
    let tok = t.next()?;
    Some(match tok {
        "t" => ViewD::Text(hx_common::unhex_str(t.next()?)?),
        "u" => ViewD::Unit,
        "el" => {
            let tag = intern(TAGS, t.next()?)?;
            let n: usize = t.next()?.parse().ok()?;
            if n > 16 {
                return None;
            }
            let mut attrs = vec![];
            for _ in 0..n {
                attrs.push(parse_attr(t)?);
            }
            ViewD::Elem(tag, attrs, Box::new(parse_view(t)?))
        }
        "seq" => ViewD::Seq(Box::new(parse_view(t)?), Box::new(parse_view(t)?)),
        "dt" => ViewD::DynText(parse_expr(t)?),
        "ei" => ViewD::Either(parse_expr(t)?, Box::new(parse_view(t)?), Box::new(parse_view(t)?)),
        "sh" => ViewD::Show(parse_expr(t)?, Box::new(parse_view(t)?), Box::new(parse_view(t)?)),
        "for" => {
            let sel = parse_expr(t)?;
            ViewD::For(sel, parse_lists(t)?)
        }
        "forr" => {
            let sel = parse_expr(t)?;
            let lists = parse_lists(t)?;
            ViewD::ForR(sel, lists, Box::new(parse_view(t)?))
        }
        "fore" => {
            let sel = parse_expr(t)?;
            let lists = parse_lists(t)?;
            ViewD::ForE(sel, lists, Box::new(parse_view(t)?))
        }
        "sc" => {
            let sid: u32 = t.next()?.parse().ok()?;
            let d = match t.next()? {
                "m" => LDef::Memo(parse_expr(t)?),
                "s" => LDef::Sig(t.next()?.parse().ok()?),
                _ => return None,
            };
            ViewD::Scope(sid, d, Box::new(parse_view(t)?))
        }
        "eb" => ViewD::Eb(Box::new(parse_view(t)?)),
        "res" => ViewD::Res(parse_expr(t)?, parse_expr(t)?),
        "sus" => ViewD::Sus(Box::new(parse_view(t)?)),
        "tra" => ViewD::Tra(Box::new(parse_view(t)?)),
        "aw" => ViewD::Aw(t.next()?.parse().ok()?),
        "lw" => ViewD::Lw(parse_expr(t)?),
        "susp" => ViewD::Susp(parse_expr(t)?, Box::new(parse_view(t)?)),
        "errb" => ViewD::Errb(parse_expr(t)?, Box::new(parse_view(t)?)),
        _ => return None,
    })
}

pub fn show_attr(a: &AttrD) -> String {
    match a {
        AttrD::Stat(n, v) => format!("as {n} {}", hx_common::hex(v.as_bytes())),
        AttrD::Dyn(n, e) => format!("ad {n} {}", show_expr(e)),
        AttrD::Cls(n, e) => format!("ac {n} {}", show_expr(e)),
        AttrD::Sty(n, e) => format!("ay {n} {}", show_expr(e)),
    }
}

pub fn show_view(v: &ViewD) -> String {
    match v {
        ViewD::Text(s) => format!("t {}", hx_common::hex(s.as_bytes())),
        ViewD::Unit => "u".into(),
        ViewD::Elem(tag, attrs, kid) => {
            let mut s = format!("el {tag} {}", attrs.len());
            for a in attrs {
                s.push(' ');
                s.push_str(&show_attr(a));
            }
            s.push(' ');
            s.push_str(&show_view(kid));
            s
        }
        ViewD::Seq(a, b) => format!("seq {} {}", show_view(a), show_view(b)),
        ViewD::DynText(e) => format!("dt {}", show_expr(e)),
        ViewD::Either(c, a, b) => format!("ei {} {} {}", show_expr(c), show_view(a), show_view(b)),
        ViewD::Show(c, a, b) => format!("sh {} {} {}", show_expr(c), show_view(a), show_view(b)),
        ViewD::For(sel, lists) => format!("for {} {}", show_expr(sel), show_lists(lists)),
        ViewD::ForR(sel, lists, row) => format!("forr {} {} {}", show_expr(sel), show_lists(lists), show_view(row)),
        ViewD::ForE(sel, lists, row) => format!("fore {} {} {}", show_expr(sel), show_lists(lists), show_view(row)),
        ViewD::Scope(sid, LDef::Memo(b), kid) => format!("sc {sid} m {} {}", show_expr(b), show_view(kid)),
        ViewD::Scope(sid, LDef::Sig(v), kid) => format!("sc {sid} s {v} {}", show_view(kid)),
        ViewD::Eb(k) => format!("eb {}", show_view(k)),
        ViewD::Res(c, e) => format!("res {} {}", show_expr(c), show_expr(e)),
        ViewD::Sus(k) => format!("sus {}", show_view(k)),
        ViewD::Tra(k) => format!("tra {}", show_view(k)),
        ViewD::Aw(r) => format!("aw {r}"),
        ViewD::Lw(e) => format!("lw {}", show_expr(e)),
        ViewD::Susp(e, a) => format!("susp {} {}", show_expr(e), show_view(a)),
        ViewD::Errb(e, a) => format!("errb {} {}", show_expr(e), show_view(a)),
    }
}

// ------------------------------------------------------------------------------------ pure reference

/// from-scratch value of node `id` (independent of the reactive system)
pub fn scratch(defs: &[Def], env: &[i64], id: usize) -> i64 {
    match defs.get(id) {
        Some(Def::Sig(_)) => env[id],
        Some(Def::Memo(b)) => eval_pure(defs, env, b),
        None => 0,
    }
}

pub fn eval_pure(defs: &[Def], env: &[i64], e: &Expr) -> i64 {
    match e {
        Expr::Lit(n) => *n,
        Expr::Rd(i) => scratch(defs, env, *i),
        Expr::Add(a, b) => eval_pure(defs, env, a).wrapping_add(eval_pure(defs, env, b)),
        Expr::Mulc(k, a) => k.wrapping_mul(eval_pure(defs, env, a)),
        Expr::Ite(c, t, f) => {
            if eval_pure(defs, env, c) != 0 { eval_pure(defs, env, t) } else { eval_pure(defs, env, f) }
        }
        // component-local state is not part of `env` (views that use it are outside the guard oracle)
        Expr::Key | Expr::Loc(_) => 0,
    }
}

/// every signal the expression can read, through memos, over both branches of every `ite`
pub fn static_reads(defs: &[Def], e: &Expr, out: &mut BTreeSet<usize>) {
    match e {
        Expr::Lit(_) => {}
        Expr::Rd(i) => match defs.get(*i) {
            Some(Def::Sig(_)) => {
                out.insert(*i);
            }
            Some(Def::Memo(b)) => static_reads(defs, b, out),
            None => {}
        },
        Expr::Add(a, b) => {
            static_reads(defs, a, out);
            static_reads(defs, b, out)
        }
        Expr::Mulc(_, a) => static_reads(defs, a, out),
        Expr::Ite(c, t, f) => {
            static_reads(defs, c, out);
            static_reads(defs, t, out);
            static_reads(defs, f, out)
        }
        Expr::Key | Expr::Loc(_) => {}
    }
}

pub fn reads_of(defs: &[Def], e: &Expr) -> BTreeSet<usize> {
    let mut s = BTreeSet::new();
    static_reads(defs, e, &mut s);
    s
}

pub fn reads_memo(defs: &[Def], e: &Expr) -> bool {
    match e {
        Expr::Lit(_) => false,
        Expr::Rd(i) => matches!(defs.get(*i), Some(Def::Memo(_))),
        Expr::Add(a, b) => reads_memo(defs, a) || reads_memo(defs, b),
        Expr::Mulc(_, a) => reads_memo(defs, a),
        Expr::Ite(c, t, f) => reads_memo(defs, c) || reads_memo(defs, t) || reads_memo(defs, f),
        Expr::Key | Expr::Loc(_) => false,
    }
}

pub fn for_index(v: i64, n: usize) -> usize {
    v.rem_euclid(n as i64) as usize
}

/// A guard of a rendered node: the node may legitimately be touched between two idle points when
/// a signal of `Reads` was written, or when the truth value of a `Show` condition differed at
/// any point in between.
#[derive(Clone, Debug, PartialEq)]
pub enum Guard {
    Reads(BTreeSet<usize>),
    ShowCond(Expr),
}

/// from-scratch render annotated with guards (the untouched-nodes oracle zips it with the real DOM)
#[derive(Clone, Debug)]
pub struct RefNode {
    /// 'E' element, 'T' text, 'C' comment
    pub kind: char,
    pub guards: Vec<Guard>,
    pub kids: Vec<RefNode>,
}

/// guards of the structural dynamic parts whose DOM region lies directly in the parent's child list
fn struct_guards(defs: &[Def], env: &[i64], v: &ViewD, out: &mut Vec<Guard>) {
    match v {
        ViewD::Text(_) | ViewD::Unit | ViewD::Elem(..) | ViewD::DynText(_) => {}
        ViewD::Seq(a, b) => {
            struct_guards(defs, env, a, out);
            struct_guards(defs, env, b, out)
        }
        ViewD::Either(c, a, b) => {
            out.push(Guard::Reads(reads_of(defs, c)));
            struct_guards(defs, env, if eval_pure(defs, env, c) != 0 { a } else { b }, out)
        }
        ViewD::Show(c, a, b) => {
            out.push(Guard::ShowCond(c.clone()));
            struct_guards(defs, env, if eval_pure(defs, env, c) != 0 { a } else { b }, out)
        }
        ViewD::For(sel, _) => out.push(Guard::Reads(reads_of(defs, sel))),
        // views with component-local state are outside the guard oracle (`is_x`)
        ViewD::ForR(..) | ViewD::ForE(..) | ViewD::Scope(..) | ViewD::Eb(..) | ViewD::Res(..) => {}
        ViewD::Sus(..) | ViewD::Tra(..) | ViewD::Aw(..) | ViewD::Lw(..) => {}
        ViewD::Susp(e, a) => {
            out.push(Guard::Reads(reads_of(defs, e)));
            struct_guards(defs, env, a, out)
        }
        ViewD::Errb(e, a) => {
            out.push(Guard::Reads(reads_of(defs, e)));
            struct_guards(defs, env, a, out)
        }
    }
}

pub fn ref_render(defs: &[Def], env: &[i64], v: &ViewD, path: &[Guard], out: &mut Vec<RefNode>) {
    match v {
        ViewD::Text(_) => out.push(RefNode { kind: 'T', guards: path.to_vec(), kids: vec![] }),
        ViewD::Unit => out.push(RefNode { kind: 'C', guards: path.to_vec(), kids: vec![] }),
        ViewD::Elem(_, attrs, kid) => {
            let mut g = path.to_vec();
            for a in attrs {
                match a {
                    AttrD::Stat(..) => {}
                    AttrD::Dyn(_, e) | AttrD::Cls(_, e) | AttrD::Sty(_, e) => g.push(Guard::Reads(reads_of(defs, e))),
                }
            }
            struct_guards(defs, env, kid, &mut g);
            let mut kids = vec![];
            ref_render(defs, env, kid, path, &mut kids);
            out.push(RefNode { kind: 'E', guards: g, kids })
        }
        ViewD::Seq(a, b) => {
            ref_render(defs, env, a, path, out);
            ref_render(defs, env, b, path, out)
        }
        ViewD::DynText(e) => {
            let mut g = path.to_vec();
            g.push(Guard::Reads(reads_of(defs, e)));
            out.push(RefNode { kind: 'T', guards: g, kids: vec![] })
        }
        ViewD::Either(c, a, b) => {
            let mut p = path.to_vec();
            p.push(Guard::Reads(reads_of(defs, c)));
            ref_render(defs, env, if eval_pure(defs, env, c) != 0 { a } else { b }, &p, out)
        }
        ViewD::Show(c, a, b) => {
            let mut p = path.to_vec();
            p.push(Guard::ShowCond(c.clone()));
            ref_render(defs, env, if eval_pure(defs, env, c) != 0 { a } else { b }, &p, out)
        }
        ViewD::For(sel, lists) => {
            let mut p = path.to_vec();
            p.push(Guard::Reads(reads_of(defs, sel)));
            let l = &lists[for_index(eval_pure(defs, env, sel), lists.len())];
            for _ in l {
                out.push(RefNode {
                    kind: 'E',
                    guards: p.clone(),
                    kids: vec![RefNode { kind: 'T', guards: p.clone(), kids: vec![] }],
                });
            }
            out.push(RefNode { kind: 'C', guards: p, kids: vec![] })
        }
        // implementation-only constructors are not covered by the untouched-nodes oracle
        ViewD::Susp(..) | ViewD::Errb(..) | ViewD::ForR(..) | ViewD::ForE(..) | ViewD::Scope(..) | ViewD::Eb(..) | ViewD::Res(..) => {}
        ViewD::Sus(..) | ViewD::Tra(..) | ViewD::Aw(..) | ViewD::Lw(..) => {}
    }
}

pub fn has_impl_only(v: &ViewD) -> bool {
    match v {
        ViewD::Susp(..) | ViewD::Errb(..) => true,
        ViewD::Text(_) | ViewD::Unit | ViewD::DynText(_) | ViewD::For(..) | ViewD::Res(..) | ViewD::Aw(_) | ViewD::Lw(_) => false,
        ViewD::Elem(_, _, k) | ViewD::ForR(_, _, k) | ViewD::ForE(_, _, k) | ViewD::Scope(_, _, k) | ViewD::Eb(k) | ViewD::Sus(k) | ViewD::Tra(k) => has_impl_only(k),
        ViewD::Seq(a, b) | ViewD::Either(_, a, b) | ViewD::Show(_, a, b) => has_impl_only(a) || has_impl_only(b),
    }
}

/// the view uses component-local state, rows with content of their own or error boundaries
pub fn is_x(v: &ViewD) -> bool {
    match v {
        ViewD::ForR(..) | ViewD::ForE(..) | ViewD::Scope(..) | ViewD::Eb(..) | ViewD::Res(..) => true,
        ViewD::Sus(..) | ViewD::Tra(..) | ViewD::Aw(..) | ViewD::Lw(..) => true,
        ViewD::Text(_) | ViewD::Unit | ViewD::DynText(_) | ViewD::For(..) => false,
        ViewD::Elem(_, _, k) | ViewD::Susp(_, k) | ViewD::Errb(_, k) => is_x(k),
        ViewD::Seq(a, b) | ViewD::Either(_, a, b) | ViewD::Show(_, a, b) => is_x(a) || is_x(b),
    }
}

/// the view has a `<Suspense>` / `<Transition>` (an "S view": observed at idle points only)
pub fn is_s(v: &ViewD) -> bool {
    match v {
        ViewD::Sus(..) | ViewD::Tra(..) | ViewD::Aw(..) | ViewD::Lw(..) => true,
        ViewD::Text(_) | ViewD::Unit | ViewD::DynText(_) | ViewD::For(..) | ViewD::Res(..) => false,
        ViewD::Elem(_, _, k) | ViewD::Susp(_, k) | ViewD::Errb(_, k) | ViewD::ForR(_, _, k) | ViewD::ForE(_, _, k) | ViewD::Scope(_, _, k) | ViewD::Eb(k) => is_s(k),
        ViewD::Seq(a, b) | ViewD::Either(_, a, b) | ViewD::Show(_, a, b) => is_s(a) || is_s(b),
    }
}

/// the gates the live `lw` leaves select (for the signal values `env`)
pub fn lw_gates(defs: &[Def], env: &[i64], v: &ViewD, key: i64, out: &mut Vec<usize>) {
    let ev = |e: &Expr| eval_key(defs, env, e, key);
    match v {
        ViewD::Lw(e) => out.push(for_index(ev(e), 4)),
        ViewD::Text(_) | ViewD::Unit | ViewD::DynText(_) | ViewD::For(..) | ViewD::Res(..) | ViewD::Aw(_) => {}
        ViewD::Elem(_, _, k) | ViewD::Susp(_, k) | ViewD::Errb(_, k) | ViewD::Scope(_, _, k) | ViewD::Eb(k) | ViewD::Sus(k) | ViewD::Tra(k) => {
            lw_gates(defs, env, k, key, out)
        }
        ViewD::Seq(a, b) => {
            lw_gates(defs, env, a, key, out);
            lw_gates(defs, env, b, key, out)
        }
        ViewD::Either(c, a, b) | ViewD::Show(c, a, b) => lw_gates(defs, env, if ev(c) != 0 { a } else { b }, 0, out),
        ViewD::ForR(sel, lists, row) | ViewD::ForE(sel, lists, row) => {
            for k in &lists[for_index(ev(sel), lists.len())] {
                lw_gates(defs, env, row, *k as i64, out)
            }
        }
    }
}

/// `eval_pure` with the key of the enclosing row
pub fn eval_key(defs: &[Def], env: &[i64], e: &Expr, key: i64) -> i64 {
    match e {
        Expr::Key => key,
        Expr::Lit(_) | Expr::Rd(_) | Expr::Loc(_) => eval_pure(defs, env, e),
        Expr::Add(a, b) => eval_key(defs, env, a, key).wrapping_add(eval_key(defs, env, b, key)),
        Expr::Mulc(k, a) => k.wrapping_mul(eval_key(defs, env, a, key)),
        Expr::Ite(c, t, f) => {
            if eval_key(defs, env, c, key) != 0 { eval_key(defs, env, t, key) } else { eval_key(defs, env, f, key) }
        }
    }
}

pub fn has_tra(v: &ViewD) -> bool {
    match v {
        ViewD::Tra(..) => true,
        ViewD::Text(_) | ViewD::Unit | ViewD::DynText(_) | ViewD::For(..) | ViewD::Res(..) | ViewD::Aw(_) | ViewD::Lw(_) => false,
        ViewD::Elem(_, _, k) | ViewD::Susp(_, k) | ViewD::Errb(_, k) | ViewD::ForR(_, _, k) | ViewD::ForE(_, _, k) | ViewD::Scope(_, _, k) | ViewD::Eb(k) | ViewD::Sus(k) => has_tra(k),
        ViewD::Seq(a, b) | ViewD::Either(_, a, b) | ViewD::Show(_, a, b) => has_tra(a) || has_tra(b),
    }
}
