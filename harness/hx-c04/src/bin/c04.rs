//! C04 correspondence harness: reactive view programs (data) realised with the REAL leptos `Show`,
//! `For`, tachys `Either`, `move ||` text / attribute / class / style closures, mounted with
//! `leptos::mount::mount_to_renderer` into a native DOM root; executor = `hx_common::sched`.
//!
//! Output per op line (grammar: `src/lib.rs`):
//!   sig / memo        -> ok
//!   mount/set/idle/dispose -> ready=[..] dom=<node>  [## verdict, when no task is woken]
//!   poll <i>          -> polled=<k|none> ready=[..] dom=<node> [## verdict]
//! node = `T<i>.<muts>:<hex>` | `C<i>.<muts>:<hex>` | `E<i>.<muts>(<tag>;<name>=<hex>&..;<node>,..)`;
//! ids renumbered by first appearance in the case; attributes sorted by name, `class` as sorted tokens
//! (absent when empty), `style` as sorted `name:value;` declarations; task ids = spawn order among the
//! tasks of the mounted view.
//! Verdict (the property's oracle on the real code, at every idle point):
//!   * `not-fresh`: the root differs (ids and counters dropped) from a FRESH CSR render of the same
//!     program over fresh signals holding the current values, mounted into a second root;
//!   * `touched`: a node that existed at the previous idle point, none of whose guards fired (no
//!     signal read by an enclosing / own / directly contained dynamic part was written, no enclosing
//!     `Show` condition changed its truth value), is gone or has a different mutation count;
//!   * `dom-error`: `take_errors()` is not empty; `not-unmounted`: children left after `dispose`.
//! Views with component-local state (`sc`, `forr`): the fresh render's component-local signals start with
//! the current value of the live instance at the same place (scope id + keys of the enclosing rows) of the
//! mounted view; the `touched` oracle is not applied to them.  A panic of the real code (a read of a
//! disposed value inside an effect run) prints `panic ## fail panic`, every further line `dead`.
use hx_c04::*;
use hx_common::*;
use leptos::either::Either;
use leptos::prelude::*;
use std::collections::{BTreeSet, HashMap};
use std::panic::{catch_unwind, AssertUnwindSafe};
use std::sync::{Arc, Mutex};
use tachys::html::attribute::any_attribute::{AnyAttribute, IntoAnyAttribute};
use tachys::html::attribute::custom::custom_attribute;
use tachys::renderer::native_dom::{self as nd, Element, Node, NodeKind};
use tachys::view::any_view::{AnyView, IntoAny};

// ------------------------------------------------------------------------------------ realisation

#[derive(Clone)]
enum NodeH {
    Sig(RwSignal<i64>),
    Memo(Memo<i64>),
    /// the `index` of a `<ForEnumerate>` row
    Idx(ReadSignal<usize>),
}

/// the handles of the component-local signals created so far: (scope id, keys of the enclosing rows, handle)
#[derive(Clone, Default)]
struct Reg {
    sigs: Arc<Mutex<Vec<(u32, Vec<u32>, RwSignal<i64>)>>>,
}

impl Reg {
    /// current value of the live instance of `scope sid` under the rows keyed `path`
    fn live_value(&self, sid: u32, path: &[u32]) -> Option<i64> {
        let g = self.sigs.lock().unwrap();
        g.iter().rev().find(|(s, p, h)| *s == sid && p == path && !h.is_disposed()).and_then(|(_, _, h)| h.try_get_untracked())
    }
}

/// what the harness knows about a resource: its latest fetch is pending, or was completed with a value
#[derive(Clone, Copy, Debug, PartialEq)]
enum RStat {
    Pending,
    Ready(i64),
}

/// the controllable backend of the resources: every fetch parks a sender here; `resolve` fires the latest one
#[derive(Clone, Default)]
struct Gate {
    /// per resource: the sender and the value of its latest fetch
    latest: Arc<Mutex<Vec<Option<(futures::channel::oneshot::Sender<()>, i64)>>>>,
    stat: Arc<Mutex<Vec<RStat>>>,
}

impl Gate {
    fn arm(&self, rid: usize, v: i64) -> futures::channel::oneshot::Receiver<()> {
        let (tx, rx) = futures::channel::oneshot::channel();
        let mut l = self.latest.lock().unwrap();
        while l.len() <= rid {
            l.push(None);
        }
        // a superseded fetch is never completed (its sender is dropped: the receiver errs, which nobody awaits any more)
        l[rid] = Some((tx, v));
        let mut st = self.stat.lock().unwrap();
        while st.len() <= rid {
            st.push(RStat::Pending);
        }
        st[rid] = RStat::Pending;
        rx
    }
    fn resolve(&self, rid: usize) -> bool {
        let taken = self.latest.lock().unwrap().get_mut(rid).and_then(|x| x.take());
        match taken {
            Some((tx, v)) => {
                self.stat.lock().unwrap()[rid] = RStat::Ready(v);
                let _ = tx.send(());
                true
            }
            None => false,
        }
    }
}

/// a gate of the `lw` leaves: a future that resolves to the gate's number once the gate has been opened
#[derive(Clone, Default)]
struct GateH {
    open: Arc<Mutex<bool>>,
    wakers: Arc<Mutex<Vec<std::task::Waker>>>,
}

impl GateH {
    fn open(&self) {
        *self.open.lock().unwrap() = true;
        for w in self.wakers.lock().unwrap().drain(..) {
            w.wake();
        }
    }
    fn is_open(&self) -> bool {
        *self.open.lock().unwrap()
    }
    fn wait(&self, value: i64) -> GateWait {
        GateWait { gate: self.clone(), value }
    }
}

struct GateWait {
    gate: GateH,
    value: i64,
}

impl std::future::Future for GateWait {
    type Output = i64;
    fn poll(self: std::pin::Pin<&mut Self>, cx: &mut std::task::Context<'_>) -> std::task::Poll<i64> {
        if self.gate.is_open() {
            std::task::Poll::Ready(self.value)
        } else {
            self.gate.wakers.lock().unwrap().push(cx.waker().clone());
            std::task::Poll::Pending
        }
    }
}

/// what the closures of a view capture: the program's nodes, the state of the enclosing component
/// bodies (innermost last), the key of the enclosing row
#[derive(Clone, Default)]
struct Ctx {
    nodes: Arc<Vec<NodeH>>,
    locals: Vec<NodeH>,
    key: i64,
    path: Vec<u32>,
    reg: Reg,
    /// the resources (`ares` lines)
    res: Arc<Vec<AsyncDerived<i64>>>,
    /// the gates of the `lw` leaves
    gates: Arc<Vec<GateH>>,
    /// fresh-render oracle: a new component-local signal starts with the current value of the live
    /// instance at the same place of the mounted view (component-local signals are part of the state)
    seed: Option<Reg>,
}

fn get_node(h: Option<&NodeH>) -> i64 {
    match h {
        Some(NodeH::Sig(s)) => s.get(),
        Some(NodeH::Memo(m)) => m.get(),
        Some(NodeH::Idx(i)) => i.get() as i64,
        None => 0,
    }
}

fn eval(cx: &Ctx, e: &Expr) -> i64 {
    match e {
        Expr::Lit(n) => *n,
        Expr::Rd(i) => get_node(cx.nodes.get(*i)),
        Expr::Key => cx.key,
        Expr::Loc(j) => get_node(cx.locals.iter().rev().nth(*j)),
        Expr::Add(a, b) => eval(cx, a).wrapping_add(eval(cx, b)),
        Expr::Mulc(k, a) => k.wrapping_mul(eval(cx, a)),
        Expr::Ite(c, t, f) => {
            if eval(cx, c) != 0 { eval(cx, t) } else { eval(cx, f) }
        }
    }
}

fn make_ctx(defs: &[Def], env: &[i64]) -> Ctx {
    let mut nodes: Vec<NodeH> = vec![];
    for (i, d) in defs.iter().enumerate() {
        match d {
            Def::Sig(_) => nodes.push(NodeH::Sig(RwSignal::new(env[i]))),
            Def::Memo(b) => {
                let cx = Ctx { nodes: Arc::new(nodes.clone()), ..Default::default() };
                let b = b.clone();
                nodes.push(NodeH::Memo(Memo::new(move |_| eval(&cx, &b))));
            }
        }
    }
    Ctx { nodes: Arc::new(nodes), ..Default::default() }
}

fn realise_attrs(attrs: &[AttrD], cx: &Ctx) -> Vec<AnyAttribute> {
    attrs
        .iter()
        .map(|a| match a {
            AttrD::Stat(n, v) => custom_attribute(*n, v.clone()).into_any_attr(),
            AttrD::Dyn(n, e) => {
                // an `Option` value: no attribute at 0
                let (cx, e) = (cx.clone(), e.clone());
                custom_attribute(*n, move || {
                    let v = eval(&cx, &e);
                    if v == 0 { None } else { Some(v.to_string()) }
                })
                .into_any_attr()
            }
            AttrD::Cls(n, e) => {
                let (cx, e) = (cx.clone(), e.clone());
                tachys::html::class::class((*n, move || eval(&cx, &e) != 0)).into_any_attr()
            }
            AttrD::Sty(n, e) => {
                let (cx, e) = (cx.clone(), e.clone());
                tachys::html::style::style((*n, move || {
                    let v = eval(&cx, &e);
                    if v == 0 { None } else { Some(format!("{v}px")) }
                }))
                .into_any_attr()
            }
        })
        .collect()
}

fn realise(v: &Arc<ViewD>, cx: &Ctx) -> AnyView {
    use leptos::html;
    match &**v {
        ViewD::Text(s) => s.clone().into_any(),
        ViewD::Unit => ().into_any(),
        ViewD::Seq(a, b) => (realise(&Arc::new((**a).clone()), cx), realise(&Arc::new((**b).clone()), cx)).into_any(),
        ViewD::Elem(tag, attrs, kid) => {
            let at = realise_attrs(attrs, cx);
            let k = realise(&Arc::new((**kid).clone()), cx);
            match *tag {
                "div" => html::div().child(k).add_any_attr(at).into_any(),
                "span" => html::span().child(k).add_any_attr(at).into_any(),
                "p" => html::p().child(k).add_any_attr(at).into_any(),
                "ul" => html::ul().child(k).add_any_attr(at).into_any(),
                "b" => html::b().child(k).add_any_attr(at).into_any(),
                "i" => html::i().child(k).add_any_attr(at).into_any(),
                _ => html::section().child(k).add_any_attr(at).into_any(),
            }
        }
        ViewD::DynText(e) => {
            let (cx, e) = (cx.clone(), e.clone());
            (move || eval(&cx, &e).to_string()).into_any()
        }
        ViewD::Either(c, a, b) => {
            let (cx, c) = (cx.clone(), c.clone());
            let (a, b) = (Arc::new((**a).clone()), Arc::new((**b).clone()));
            (move || if eval(&cx, &c) != 0 { Either::Left(realise(&a, &cx)) } else { Either::Right(realise(&b, &cx)) })
                .into_any()
        }
        ViewD::Show(c, a, b) => {
            let (cx1, c) = (cx.clone(), c.clone());
            let (cx2, cx3) = (cx.clone(), cx.clone());
            let (a, b) = (Arc::new((**a).clone()), Arc::new((**b).clone()));
            view! {
                <Show when=move || eval(&cx1, &c) != 0 fallback=move || realise(&b, &cx3)>
                    {realise(&a, &cx2)}
                </Show>
            }
            .into_any()
        }
        ViewD::For(sel, lists) => {
            let (cx, sel, lists) = (cx.clone(), sel.clone(), lists.clone());
            view! {
                <For
                    each=move || lists[for_index(eval(&cx, &sel), lists.len())].clone()
                    key=|k| *k
                    children=|k| view! { <li>{k.to_string()}</li> }
                />
            }
            .into_any()
        }
        ViewD::ForR(sel, lists, row) => {
            let (cx1, sel, lists) = (cx.clone(), sel.clone(), lists.clone());
            let (cx2, row) = (cx.clone(), Arc::new((**row).clone()));
            view! {
                <For
                    each=move || lists[for_index(eval(&cx1, &sel), lists.len())].clone()
                    key=|k| *k
                    children=move |k: u32| {
                        // the row's component body: it sees its key and nothing of the enclosing bodies
                        let mut cx = cx2.clone();
                        cx.locals = vec![];
                        cx.key = k as i64;
                        cx.path.push(k);
                        view! { <li>{k.to_string()}{realise(&row, &cx)}</li> }
                    }
                />
            }
            .into_any()
        }
        ViewD::ForE(sel, lists, row) => {
            let (cx1, sel, lists) = (cx.clone(), sel.clone(), lists.clone());
            let (cx2, row) = (cx.clone(), Arc::new((**row).clone()));
            view! {
                <ForEnumerate
                    each=move || lists[for_index(eval(&cx1, &sel), lists.len())].clone()
                    key=|k| *k
                    children={move |index: ReadSignal<usize>, k: u32| {
                        let mut cx = cx2.clone();
                        cx.locals = vec![NodeH::Idx(index)];
                        cx.key = k as i64;
                        cx.path.push(k);
                        view! { <li>{k.to_string()}{realise(&row, &cx)}</li> }
                    }}
                />
            }
            .into_any()
        }
        ViewD::Scope(sid, d, kid) => {
            // the component body runs NOW (view construction), under the current owner
            let h = match d {
                LDef::Memo(b) => {
                    let (cx2, b) = (cx.clone(), b.clone());
                    NodeH::Memo(Memo::new(move |_| eval(&cx2, &b)))
                }
                LDef::Sig(init) => {
                    let v0 = cx.seed.as_ref().and_then(|r| r.live_value(*sid, &cx.path)).unwrap_or(*init);
                    let s = RwSignal::new(v0);
                    cx.reg.sigs.lock().unwrap().push((*sid, cx.path.clone(), s));
                    NodeH::Sig(s)
                }
            };
            let mut cx2 = cx.clone();
            cx2.locals.push(h);
            realise(&Arc::new((**kid).clone()), &cx2)
        }
        ViewD::Eb(kid) => {
            let (cx2, kid) = (cx.clone(), Arc::new((**kid).clone()));
            view! {
                <ErrorBoundary fallback=|_errors| "error".to_string()>
                    {realise(&kid, &cx2)}
                </ErrorBoundary>
            }
            .into_any()
        }
        ViewD::Res(c, x) => {
            let (cx, c, x) = (cx.clone(), c.clone(), x.clone());
            (move || if eval(&cx, &c) != 0 { Err::<String, HxErr>(HxErr) } else { Ok(eval(&cx, &x).to_string()) }).into_any()
        }
        ViewD::Sus(kid) => {
            let (cx2, kid) = (cx.clone(), Arc::new((**kid).clone()));
            view! {
                <Suspense fallback=|| "wait".to_string()>
                    {realise(&kid, &cx2)}
                </Suspense>
            }
            .into_any()
        }
        ViewD::Tra(kid) => {
            let (cx2, kid) = (cx.clone(), Arc::new((**kid).clone()));
            view! {
                <Transition fallback=|| "wait".to_string()>
                    {realise(&kid, &cx2)}
                </Transition>
            }
            .into_any()
        }
        ViewD::Aw(rid) => {
            let d = cx.res[*rid];
            (move || Suspend::new(async move { d.await.to_string() })).into_any()
        }
        ViewD::Lw(e) => {
            let (cx, e) = (cx.clone(), e.clone());
            (move || {
                let g = for_index(eval(&cx, &e), 4);
                let wait = cx.gates[g].wait(g as i64);
                Suspend::new(async move { wait.await.to_string() })
            })
            .into_any()
        }
        ViewD::Susp(x, a) => {
            let (cx1, x) = (cx.clone(), x.clone());
            let (cx2, a) = (cx.clone(), Arc::new((**a).clone()));
            let derived = AsyncDerived::new(move || {
                let v = eval(&cx1, &x);
                async move {
                    YieldOnce(false).await;
                    v
                }
            });
            view! {
                <Suspense fallback=|| "wait".to_string()>
                    {move || {
                        let (a, cx2) = (a.clone(), cx2.clone());
                        Suspend::new(async move {
                            let v = derived.await;
                            (v.to_string(), realise(&a, &cx2))
                        })
                    }}
                </Suspense>
            }
            .into_any()
        }
        ViewD::Errb(x, a) => {
            let (cx1, x) = (cx.clone(), x.clone());
            let (cx2, a) = (cx.clone(), Arc::new((**a).clone()));
            view! {
                <ErrorBoundary fallback=|_errors| "error".to_string()>
                    {move || {
                        if eval(&cx1, &x) != 0 { Err::<AnyView, HxErr>(HxErr) } else { Ok(realise(&a, &cx2)) }
                    }}
                </ErrorBoundary>
            }
            .into_any()
        }
    }
}

#[derive(Debug, Clone)]
struct HxErr;
impl std::fmt::Display for HxErr {
    fn fmt(&self, f: &mut std::fmt::Formatter<'_>) -> std::fmt::Result {
        write!(f, "hx")
    }
}
impl std::error::Error for HxErr {}

/// a future that is pending once: the value of the `AsyncDerived` arrives one poll later
struct YieldOnce(bool);
impl std::future::Future for YieldOnce {
    type Output = ();
    fn poll(mut self: std::pin::Pin<&mut Self>, cx: &mut std::task::Context<'_>) -> std::task::Poll<()> {
        if self.0 {
            std::task::Poll::Ready(())
        } else {
            self.0 = true;
            cx.waker().wake_by_ref();
            std::task::Poll::Pending
        }
    }
}

// ------------------------------------------------------------------------------------ DOM printing

fn class_norm(v: &str) -> Option<String> {
    let mut t: Vec<&str> = v.split_ascii_whitespace().collect();
    t.sort();
    t.dedup();
    if t.is_empty() { None } else { Some(t.join(" ")) }
}

fn style_norm(v: &str) -> Option<String> {
    let mut d: Vec<(String, String)> = vec![];
    for decl in v.split(';') {
        if let Some((n, val)) = decl.split_once(':') {
            let (n, val) = (n.trim().to_string(), val.trim().to_string());
            if !n.is_empty() && !val.is_empty() {
                d.retain(|(k, _)| *k != n);
                d.push((n, val));
            }
        }
    }
    d.sort();
    if d.is_empty() { None } else { Some(d.iter().map(|(k, v)| format!("{k}:{v};")).collect::<String>()) }
}

fn attrs_norm(n: &Node) -> String {
    let mut out: Vec<(String, String)> = vec![];
    for (k, v) in nd::attributes(n) {
        match k.as_str() {
            "class" => {
                if let Some(c) = class_norm(&v) {
                    out.push((k, c))
                }
            }
            "style" => {
                if let Some(s) = style_norm(&v) {
                    out.push((k, s))
                }
            }
            _ => out.push((k, v)),
        }
    }
    out.sort();
    out.iter().map(|(k, v)| format!("{k}={}", hex(v.as_bytes()))).collect::<Vec<_>>().join("&")
}

struct Printer<'a> {
    ids: Option<&'a mut HashMap<usize, usize>>,
}

impl Printer<'_> {
    fn tagid(&mut self, n: &Node) -> String {
        match &mut self.ids {
            Some(m) => {
                let next = m.len();
                let c = *m.entry(nd::node_id(n)).or_insert(next);
                format!("{c}.{}", nd::mutation_count(n))
            }
            None => String::new(),
        }
    }
    fn node(&mut self, n: &Node, out: &mut String) {
        match n.kind() {
            NodeKind::Text => {
                let t = self.tagid(n);
                out.push_str(&format!("T{t}:{}", hex(n.node_value().unwrap_or_default().as_bytes())))
            }
            NodeKind::Comment => {
                let t = self.tagid(n);
                out.push_str(&format!("C{t}:{}", hex(n.node_value().unwrap_or_default().as_bytes())))
            }
            NodeKind::Element { tag, .. } => {
                let t = self.tagid(n);
                out.push_str(&format!("E{t}({tag};{};", attrs_norm(n)));
                for (i, k) in nd::children(n).iter().enumerate() {
                    if i > 0 {
                        out.push(',');
                    }
                    self.node(k, out);
                }
                out.push(')');
            }
            NodeKind::Fragment => out.push_str("F"),
        }
    }
}

fn plain(root: &Element) -> String {
    let mut s = String::new();
    Printer { ids: None }.node(root, &mut s);
    s
}

// ------------------------------------------------------------------------------------ case state

struct Snap {
    /// (real node id, mutation count, guards) of every node below (and including) the root
    nodes: Vec<(usize, u64, Vec<Guard>)>,
}

struct Live {
    defs: Vec<Def>,
    env: Vec<i64>,
    cx: Ctx,
    outer: Owner,
    root: Element,
    root2: Element,
    view: Option<Arc<ViewD>>,
    handle: Option<Box<dyn std::any::Any>>,
    disposed: bool,
    impl_only: bool,
    idmap: HashMap<usize, usize>,
    /// real task id -> canonical index among the mounted view's tasks (None = an oracle's task)
    taskmap: Vec<Option<usize>>,
    ntasks: usize,
    snap: Option<Snap>,
    /// signals written and environments seen since the last idle point
    written: BTreeSet<usize>,
    envs: Vec<Vec<i64>>,
    dead: bool,
    /// the resources' expressions and their backend
    ares: Vec<Expr>,
    gate: Gate,
    s_view: bool,
    /// the tasks of the resources (they run to quiescence after every operation of an S view)
    res_tasks: Vec<usize>,
}

impl Live {
    fn new() -> Live {
        sched::install();
        sched::reset();
        nd::reset();
        // a root owner per case (a child of the previous case's owner would make every context lookup walk
        // an ever longer chain)
        let outer = Owner::new_root(None);
        outer.set();
        let root = nd::create_root("main");
        let root2 = nd::create_root("main");
        Live {
            defs: vec![],
            env: vec![],
            cx: Ctx { gates: Arc::new((0..4).map(|_| GateH::default()).collect()), ..Default::default() },
            outer,
            root,
            root2,
            view: None,
            handle: None,
            disposed: false,
            impl_only: false,
            idmap: HashMap::new(),
            taskmap: vec![],
            ntasks: 0,
            snap: None,
            written: BTreeSet::new(),
            envs: vec![],
            dead: false,
            ares: vec![],
            gate: Gate::default(),
            s_view: false,
            res_tasks: vec![],
        }
    }

    fn note_tasks(&mut self, main: bool) {
        while self.taskmap.len() < sched::task_count() {
            if main {
                self.taskmap.push(Some(self.ntasks));
                self.ntasks += 1;
            } else {
                self.taskmap.push(None);
            }
        }
    }

    fn ready(&self) -> Vec<usize> {
        sched::ready().into_iter().filter_map(|id| self.taskmap.get(id).copied().flatten()).collect()
    }

    fn obs(&mut self) -> String {
        let mut s = String::new();
        Printer { ids: Some(&mut self.idmap) }.node(&self.root, &mut s);
        let r: Vec<String> = self.ready().iter().map(|i| i.to_string()).collect();
        format!("ready=[{}] dom={}", r.join(","), s)
    }

    /// fresh CSR render of the program over fresh signals holding the current values
    fn fresh_plain(&mut self) -> String {
        let view = self.view.clone().unwrap();
        let fo = Owner::new();
        let (defs, env, root2) = (self.defs.clone(), self.env.clone(), self.root2.clone());
        let seed = self.cx.reg.clone();
        let gates = self.cx.gates.clone();
        let mut st = fo.with(|| {
            let mut cx = make_ctx(&defs, &env);
            cx.seed = Some(seed);
            cx.gates = gates;
            // the resources in the state they are in: completed with their value, or pending for ever
            let stats = self.gate.stat.lock().unwrap().clone();
            cx.res = Arc::new(
                stats
                    .into_iter()
                    .map(|st| {
                        AsyncDerived::new(move || async move {
                            match st {
                                RStat::Ready(v) => v,
                                RStat::Pending => futures::future::pending::<i64>().await,
                            }
                        })
                    })
                    .collect(),
            );
            let v = realise(&view, &cx);
            let mut st = v.build();
            st.mount(&root2, None);
            st
        });
        // let the fresh render's own tasks run (Suspense resolves, effects settle)
        self.run_oracle_tasks();
        let s = plain(&self.root2);
        fo.with(|| {
            st.unmount();
            drop(st);
        });
        fo.cleanup();
        drop(fo);
        // the fresh render's tasks end when polled (their effects are gone)
        self.run_oracle_tasks();
        s
    }

    /// the line of an operation that is not observed (debugging: `C04_SDEBUG` shows the DOM and the ready tasks)
    fn tilde(&self) -> String {
        if std::env::var("C04_SDEBUG").is_ok() {
            format!("~ {} ready={:?} res={:?}", plain(&self.root), sched::ready(), self.res_tasks)
        } else {
            "~".into()
        }
    }

    /// the resources' own tasks run as soon as they are woken (the idle-level model of the resources assumes it)
    fn run_resource_tasks(&mut self) {
        for _ in 0..10_000 {
            let r: Vec<usize> = sched::ready().into_iter().filter(|id| self.res_tasks.contains(id)).collect();
            if r.is_empty() {
                break;
            }
            for id in r {
                sched::poll(id);
            }
        }
    }

    fn run_oracle_tasks(&mut self) {
        for _ in 0..10_000 {
            self.note_tasks(false);
            let r: Vec<usize> = sched::ready().into_iter().filter(|id| self.taskmap[*id].is_none()).collect();
            if r.is_empty() {
                break;
            }
            for id in r {
                sched::poll(id);
            }
        }
    }

    fn guard_fired(&self, g: &Guard) -> bool {
        match g {
            Guard::Reads(s) => s.iter().any(|i| self.written.contains(i)),
            Guard::ShowCond(c) => {
                let t: BTreeSet<bool> = self.envs.iter().map(|e| eval_pure(&self.defs, e, c) != 0).collect();
                t.len() > 1
            }
        }
    }

    fn take_snap(&self) -> Option<Snap> {
        let view = self.view.as_ref()?;
        if is_x(view) {
            return None;
        }
        let mut kids = vec![];
        ref_render(&self.defs, &self.env, view, &[], &mut kids);
        let mut g = vec![];
        // the root's own guards: structural parts directly below it
        {
            let mut tmp = vec![];
            ref_render(&self.defs, &self.env, &ViewD::Elem("div", vec![], Box::new((**view).clone())), &[], &mut tmp);
            g.extend(tmp.pop()?.guards);
        }
        let r = RefNode { kind: 'E', guards: g, kids };
        let mut nodes = vec![];
        fn zip(n: &Node, r: &RefNode, out: &mut Vec<(usize, u64, Vec<Guard>)>) -> bool {
            let k = match n.kind() {
                NodeKind::Element { .. } => 'E',
                NodeKind::Text => 'T',
                NodeKind::Comment => 'C',
                NodeKind::Fragment => 'F',
            };
            if k != r.kind {
                return false;
            }
            out.push((nd::node_id(n), nd::mutation_count(n), r.guards.clone()));
            let ch = nd::children(n);
            if ch.len() != r.kids.len() {
                return false;
            }
            ch.iter().zip(&r.kids).all(|(c, rk)| zip(c, rk, out))
        }
        if zip(&self.root, &r, &mut nodes) { Some(Snap { nodes }) } else { None }
    }

    /// the property's oracle at an idle point
    fn verdict(&mut self) -> String {
        if !self.ready().is_empty() {
            return String::new();
        }
        let errs = nd::take_errors();
        let mut v = "ok".to_string();
        if self.disposed {
            if !nd::children(&self.root).is_empty() {
                v = "fail not-unmounted".into();
            }
            self.snap = None;
        } else if self.view.is_some() {
            let want = self.fresh_plain();
            let got = plain(&self.root);
            if want != got {
                v = "fail not-fresh".into();
            } else if let Some(prev) = self.snap.take() {
                // untouched nodes
                let mut cur: HashMap<usize, u64> = HashMap::new();
                fn walk(n: &Node, out: &mut HashMap<usize, u64>) {
                    out.insert(nd::node_id(n), nd::mutation_count(n));
                    for c in nd::children(n) {
                        walk(&c, out)
                    }
                }
                walk(&self.root, &mut cur);
                for (id, muts, guards) in &prev.nodes {
                    if guards.iter().any(|g| self.guard_fired(g)) {
                        continue;
                    }
                    if cur.get(id) != Some(muts) {
                        v = "fail touched".into();
                        break;
                    }
                }
            }
            self.snap = if v == "ok" { self.take_snap() } else { None };
            self.written.clear();
            self.envs = vec![self.env.clone()];
        }
        if v == "ok" && !errs.is_empty() {
            v = "fail dom-error".into();
        }
        format!(" ## {v}")
    }

    fn line(&mut self, prefix: &str) -> String {
        if self.s_view {
            // S views are observed at idle points only
            sched::run_until_idle(100_000);
            self.note_tasks(true);
            let errs = nd::take_errors();
            let got = plain(&self.root);
            let mut v = "ok".to_string();
            let mut sel = vec![];
            if let (Some(view), false) = (self.view.as_deref(), self.disposed) {
                lw_gates(&self.defs, &self.env, view, 0, &mut sel);
            }
            if sel.iter().any(|g| !self.cx.gates[*g].is_open()) {
                // what a `Suspend` over a plain future shows while the load it now selects is unfinished depends on the
                // polling order: not observed
                if !errs.is_empty() {
                    v = "fail dom-error".into();
                }
                return format!("sdom=? ## {v}");
            }
            if self.disposed {
                if !nd::children(&self.root).is_empty() {
                    v = "fail not-unmounted".into();
                }
            } else if !self.view.as_deref().map(has_tra).unwrap_or(false) {
                // (a `<Transition>` keeps what it showed before: its oracle is the model)
                let want = self.fresh_plain();
                if want != got {
                    v = "fail not-fresh".into();
                }
            }
            if v == "ok" && !errs.is_empty() {
                v = "fail dom-error".into();
            }
            return format!("sdom={got} ## {v}");
        }
        self.note_tasks(true);
        let o = self.obs();
        let v = self.verdict();
        if self.impl_only && std::env::var("C04_SHOW").is_err() { format!("skip{v}") } else { format!("{prefix}{o}{v}") }
    }

    fn step(&mut self, line: &str) -> String {
        let mut t = Toks::new(line);
        let Some(op) = t.next() else { return "bad-op".into() };
        match op {
            "sig" => {
                let Some(v) = t.next().and_then(|x| x.parse::<i64>().ok()) else { return "bad-op".into() };
                if !t.done() || self.view.is_some() {
                    return "bad-op".into();
                }
                self.defs.push(Def::Sig(v));
                self.env.push(v);
                let mut nodes = (*self.cx.nodes).clone();
                nodes.push(NodeH::Sig(RwSignal::new(v)));
                self.cx = Ctx { nodes: Arc::new(nodes), reg: self.cx.reg.clone(), res: self.cx.res.clone(), gates: self.cx.gates.clone(), ..Default::default() };
                "ok".into()
            }
            "ares" => {
                let Some(x) = parse_expr(&mut t) else { return "bad-op".into() };
                // a resource reads signals (not memos: C10's subject)
                if !t.done() || self.view.is_some() || !reads_below(&x, self.defs.len()) || reads_memo(&self.defs, &x) {
                    return "bad-op".into();
                }
                let rid = self.ares.len();
                self.ares.push(x.clone());
                let (cx, gate) = (self.cx.clone(), self.gate.clone());
                let before = sched::task_count();
                let d = AsyncDerived::new(move || {
                    let v = eval(&cx, &x);
                    let rx = gate.arm(rid, v);
                    async move {
                        let _ = rx.await;
                        v
                    }
                });
                self.res_tasks.extend(before..sched::task_count());
                let mut res = (*self.cx.res).clone();
                res.push(d);
                self.cx.res = Arc::new(res);
                "ok".into()
            }
            "resolve" => {
                let Some(rid) = t.next().and_then(|x| x.parse::<usize>().ok()) else { return "bad-op".into() };
                if !t.done() || rid >= self.ares.len() || (self.view.is_some() && !self.s_view) {
                    return "bad-op".into();
                }
                self.gate.resolve(rid);
                if self.view.is_none() {
                    // before the mount: the resource's task takes the value at once
                    sched::run_until_idle(100_000);
                    return "ok".into();
                }
                self.line("")
            }
            "open" | "popen" => {
                let Some(g) = t.next().and_then(|x| x.parse::<usize>().ok()) else { return "bad-op".into() };
                if !t.done() || self.view.is_none() || !self.s_view || g >= 4 {
                    return "bad-op".into();
                }
                self.cx.gates[g].open();
                if op == "open" { self.line("") } else { self.tilde() }
            }
            "pset" => {
                let (Some(id), Some(v)) =
                    (t.next().and_then(|x| x.parse::<usize>().ok()), t.next().and_then(|x| x.parse::<i64>().ok()))
                else {
                    return "bad-op".into();
                };
                if !t.done() || self.view.is_none() || !self.s_view {
                    return "bad-op".into();
                }
                let Some(NodeH::Sig(s)) = self.cx.nodes.get(id).cloned() else { return "bad-op".into() };
                if !self.disposed {
                    self.env[id] = v;
                }
                s.set(v);
                self.run_resource_tasks();
                self.tilde()
            }
            "presolve" => {
                let Some(rid) = t.next().and_then(|x| x.parse::<usize>().ok()) else { return "bad-op".into() };
                if !t.done() || self.view.is_none() || !self.s_view || rid >= self.ares.len() {
                    return "bad-op".into();
                }
                self.gate.resolve(rid);
                self.run_resource_tasks();
                self.tilde()
            }
            "memo" => {
                let Some(b) = parse_expr(&mut t) else { return "bad-op".into() };
                if !t.done() || self.view.is_some() || !reads_below(&b, self.defs.len()) {
                    return "bad-op".into();
                }
                self.defs.push(Def::Memo(b.clone()));
                self.env.push(0);
                let cx = self.cx.clone();
                let mut nodes = (*self.cx.nodes).clone();
                nodes.push(NodeH::Memo(Memo::new(move |_| eval(&cx, &b))));
                self.cx = Ctx { nodes: Arc::new(nodes), reg: self.cx.reg.clone(), res: self.cx.res.clone(), gates: self.cx.gates.clone(), ..Default::default() };
                "ok".into()
            }
            "mount" => {
                let Some(v) = parse_view(&mut t) else { return "bad-op".into() };
                if !t.done() || self.view.is_some() || !view_ok(&v, &self.defs) {
                    return "bad-op".into();
                }
                self.impl_only = has_impl_only(&v);
                self.s_view = is_s(&v);
                if self.s_view && (is_local(&v) || !aw_ok(&v, self.ares.len(), false)) {
                    return "bad-op".into();
                }
                let v = Arc::new(v);
                self.view = Some(v.clone());
                let cx = self.cx.clone();
                let h = leptos::mount::mount_to_renderer(&self.root, move || realise(&v, &cx));
                self.handle = Some(Box::new(h));
                self.envs = vec![self.env.clone()];
                self.line("")
            }
            "set" => {
                let (Some(id), Some(v)) =
                    (t.next().and_then(|x| x.parse::<usize>().ok()), t.next().and_then(|x| x.parse::<i64>().ok()))
                else {
                    return "bad-op".into();
                };
                if !t.done() || self.view.is_none() {
                    return "bad-op".into();
                }
                let Some(NodeH::Sig(s)) = self.cx.nodes.get(id).cloned() else { return "bad-op".into() };
                self.env[id] = v;
                self.written.insert(id);
                self.envs.push(self.env.clone());
                s.set(v);
                self.line("")
            }
            "setl" => {
                let (Some(sid), Some(v)) =
                    (t.next().and_then(|x| x.parse::<u32>().ok()), t.next().and_then(|x| x.parse::<i64>().ok()))
                else {
                    return "bad-op".into();
                };
                if !t.done() || self.view.is_none() {
                    return "bad-op".into();
                }
                let hs: Vec<RwSignal<i64>> =
                    self.cx.reg.sigs.lock().unwrap().iter().filter(|(s, _, _)| *s == sid).map(|(_, _, h)| *h).collect();
                for h in hs {
                    if !h.is_disposed() {
                        h.set(v);
                    }
                }
                self.envs.push(self.env.clone());
                self.line("")
            }
            "poll" => {
                let Some(i) = t.next().and_then(|x| x.parse::<usize>().ok()) else { return "bad-op".into() };
                if !t.done() || self.view.is_none() {
                    return "bad-op".into();
                }
                if self.s_view {
                    // one poll of the i-th ready task of the view (the resources' tasks have run already)
                    self.note_tasks(true);
                    let r: Vec<usize> = sched::ready().into_iter().filter(|id| !self.res_tasks.contains(id)).collect();
                    if !r.is_empty() {
                        sched::poll(r[i % r.len()]);
                        self.run_resource_tasks();
                    }
                    return self.tilde();
                }
                let polled = match sched::poll_nth_ready(i) {
                    Some(id) => self.taskmap.get(id).copied().flatten().map(|c| c.to_string()).unwrap_or("?".into()),
                    None => "none".into(),
                };
                self.line(&format!("polled={polled} "))
            }
            "idle" => {
                if !t.done() || self.view.is_none() {
                    return "bad-op".into();
                }
                sched::run_until_idle(100_000);
                self.line("")
            }
            "dispose" => {
                if !t.done() || self.view.is_none() || self.disposed {
                    return "bad-op".into();
                }
                self.disposed = true;
                drop(self.handle.take());
                self.line("")
            }
            _ => "bad-op".into(),
        }
    }
}

fn reads_below(e: &Expr, k: usize) -> bool {
    match e {
        Expr::Lit(_) => true,
        Expr::Rd(i) => *i < k,
        Expr::Add(a, b) => reads_below(a, k) && reads_below(b, k),
        Expr::Mulc(_, a) => reads_below(a, k),
        Expr::Ite(c, t, f) => reads_below(c, k) && reads_below(t, k) && reads_below(f, k),
        Expr::Key | Expr::Loc(_) => false,
    }
}

/// global reads below `k`, scope references below `depth`, the row key only inside a row
fn expr_ok(e: &Expr, k: usize, depth: usize, in_row: bool) -> bool {
    match e {
        Expr::Lit(_) => true,
        Expr::Rd(i) => *i < k,
        Expr::Key => in_row,
        Expr::Loc(j) => *j < depth,
        Expr::Add(a, b) => expr_ok(a, k, depth, in_row) && expr_ok(b, k, depth, in_row),
        Expr::Mulc(_, a) => expr_ok(a, k, depth, in_row),
        Expr::Ite(c, t, f) => expr_ok(c, k, depth, in_row) && expr_ok(t, k, depth, in_row) && expr_ok(f, k, depth, in_row),
    }
}

/// expressions read defined nodes only, component-local state and the row key at the level of the body
/// that created them; attribute names of one element are pairwise different
fn view_ok(v: &ViewD, defs: &[Def]) -> bool {
    view_ok_at(v, defs.len(), 0, false)
}

fn view_ok_at(v: &ViewD, n: usize, d: usize, r: bool) -> bool {
    match v {
        ViewD::Text(_) | ViewD::Unit => true,
        ViewD::Elem(_, attrs, kid) => {
            let mut names = BTreeSet::new();
            attrs.iter().all(|a| match a {
                AttrD::Stat(nm, _) => names.insert(("a", *nm)),
                AttrD::Dyn(nm, e) => names.insert(("a", *nm)) && expr_ok(e, n, d, r),
                AttrD::Cls(nm, e) => names.insert(("c", *nm)) && expr_ok(e, n, d, r),
                AttrD::Sty(nm, e) => names.insert(("s", *nm)) && expr_ok(e, n, d, r),
            }) && view_ok_at(kid, n, d, r)
        }
        ViewD::Seq(a, b) => view_ok_at(a, n, d, r) && view_ok_at(b, n, d, r),
        ViewD::DynText(e) => expr_ok(e, n, d, r),
        ViewD::Either(c, a, b) | ViewD::Show(c, a, b) => {
            expr_ok(c, n, d, r) && view_ok_at(a, n, 0, false) && view_ok_at(b, n, 0, false)
        }
        ViewD::For(sel, _) => expr_ok(sel, n, d, r),
        ViewD::ForR(sel, _, row) => expr_ok(sel, n, d, r) && view_ok_at(row, n, 0, true),
        ViewD::ForE(sel, _, row) => expr_ok(sel, n, d, r) && view_ok_at(row, n, 1, true),
        ViewD::Scope(_, LDef::Memo(b), kid) => expr_ok(b, n, d, r) && view_ok_at(kid, n, d + 1, r),
        ViewD::Scope(_, LDef::Sig(_), kid) => view_ok_at(kid, n, d + 1, r),
        ViewD::Susp(e, a) | ViewD::Errb(e, a) => reads_below(e, n) && view_ok_at(a, n, 0, false),
        ViewD::Eb(k) => view_ok_at(k, n, d, r),
        ViewD::Res(c, e) => expr_ok(c, n, d, r) && expr_ok(e, n, d, r),
        ViewD::Sus(k) | ViewD::Tra(k) => view_ok_at(k, n, d, r),
        ViewD::Aw(_) => true,
        ViewD::Lw(e) => expr_ok(e, n, d, r),
    }
}

/// S views carry no component-local state
fn is_local(v: &ViewD) -> bool {
    match v {
        ViewD::Scope(..) | ViewD::ForE(..) => true,
        ViewD::Text(_) | ViewD::Unit | ViewD::DynText(_) | ViewD::For(..) | ViewD::Res(..) | ViewD::Aw(_) | ViewD::Lw(_) => false,
        ViewD::Elem(_, _, k) | ViewD::Susp(_, k) | ViewD::Errb(_, k) | ViewD::ForR(_, _, k) | ViewD::Eb(k) | ViewD::Sus(k) | ViewD::Tra(k) => is_local(k),
        ViewD::Seq(a, b) | ViewD::Either(_, a, b) | ViewD::Show(_, a, b) => is_local(a) || is_local(b),
    }
}

/// `aw` leaves name defined resources and sit below a boundary; a `<Transition>` sits at a place that exists for
/// as long as the view is mounted (not in a branch or a row) and has no branch or row below it
fn aw_ok(v: &ViewD, n: usize, in_b: bool) -> bool {
    fn fixed(v: &ViewD) -> bool {
        match v {
            ViewD::Either(..) | ViewD::Show(..) | ViewD::For(..) | ViewD::ForR(..) | ViewD::ForE(..) => false,
            ViewD::Text(_) | ViewD::Unit | ViewD::DynText(_) | ViewD::Res(..) | ViewD::Aw(_) | ViewD::Lw(_) => true,
            ViewD::Elem(_, _, k) | ViewD::Susp(_, k) | ViewD::Errb(_, k) | ViewD::Scope(_, _, k) | ViewD::Eb(k) | ViewD::Sus(k) | ViewD::Tra(k) => fixed(k),
            ViewD::Seq(a, b) => fixed(a) && fixed(b),
        }
    }
    fn no_tra(v: &ViewD) -> bool {
        !has_tra(v)
    }
    match v {
        ViewD::Aw(r) => in_b && *r < n,
        ViewD::Text(_) | ViewD::Unit | ViewD::DynText(_) | ViewD::For(..) | ViewD::Lw(_) => true,
        // S views have no error boundaries and none of the older implementation-only forms
        ViewD::Res(..) | ViewD::Susp(..) | ViewD::Errb(..) | ViewD::Eb(..) => false,
        ViewD::Sus(k) => aw_ok(k, n, true),
        ViewD::Tra(k) => fixed(k) && aw_ok(k, n, true),
        ViewD::Elem(_, _, k) | ViewD::Scope(_, _, k) => aw_ok(k, n, in_b),
        ViewD::ForR(_, _, k) | ViewD::ForE(_, _, k) => no_tra(k) && aw_ok(k, n, in_b),
        ViewD::Seq(a, b) => aw_ok(a, n, in_b) && aw_ok(b, n, in_b),
        ViewD::Either(_, a, b) | ViewD::Show(_, a, b) => no_tra(a) && no_tra(b) && aw_ok(a, n, in_b) && aw_ok(b, n, in_b),
    }
}

fn main() {
    match parse_cli() {
        Cmd::Gen { seed, n, ops, tier } => {
            let text = hx_c04::gen::generate(seed, n, &tier);
            std::fs::write(&ops, text).expect("write ops");
        }
        Cmd::Run { ops, out } => {
            if std::env::var("C04_LOUD").is_err() { quiet_panics(); }
            let mut live: Option<Live> = None;
            let mut tags: HashMap<String, String> = HashMap::new();
            // tags are derived from the case's op lines (first pass)
            if let Ok(text) = std::fs::read_to_string(&ops) {
                tags = hx_c04::gen::tags_of_file(&text);
            }
            run_ops(&ops, &out, |line| {
                if let Some(name) = line.strip_prefix("case ") {
                    let name = name.trim();
                    // drop the previous case's view before the arena is reset
                    if let Some(mut l) = live.take() {
                        let _ = catch_unwind(AssertUnwindSafe(|| {
                            drop(l.handle.take());
                            sched::reset();
                            l.outer.cleanup();
                        }));
                    }
                    live = Some(Live::new());
                    return match tags.get(name) {
                        Some(t) if !t.is_empty() => format!("case {name} tags={t}"),
                        _ => format!("case {name}"),
                    };
                }
                let Some(l) = live.as_mut() else { return "bad-op".into() };
                if l.dead {
                    return "dead".into();
                }
                match catch_unwind(AssertUnwindSafe(|| l.step(line))) {
                    Ok(s) => s,
                    Err(_) => {
                        l.dead = true;
                        "panic ## fail panic".into()
                    }
                }
            })
            .expect("run");
            // drop every task while the executor's thread-locals are still alive
            if let Some(mut l) = live.take() {
                let _ = catch_unwind(AssertUnwindSafe(|| drop(l.handle.take())));
            }
            sched::reset();
        }
    }
}
