//! Case generator and tagging for C04.
use crate::*;
use hx_common::Rng;
use std::collections::HashMap;
use std::fmt::Write as _;

/// what the error-boundary part of the generator may still produce (see `eview`)
#[derive(Clone)]
struct Ev {
    /// `Result` leaves still allowed below the current boundary
    budget: usize,
}

struct G {
    r: Rng,
    defs: Vec<Def>,
    /// scope ids handed out in the current case; those of component-local signals
    next_sid: u32,
    sig_sids: Vec<u32>,
}

/// the component-local state visible at the place being generated (one effect level: see `xview`)
#[derive(Clone, Default)]
struct Lc {
    /// innermost last; `true` = memo
    locals: Vec<bool>,
    /// memos already read by an effect expression or a `Show` condition (each at most once)
    used: Vec<bool>,
    in_row: bool,
    /// the region of the mounted view itself (not a branch, not a row)
    root: bool,
}

impl G {
    fn leaf(&mut self) -> Expr {
        if self.r.chance(4, 5) && !self.defs.is_empty() {
            Expr::Rd(self.r.below(self.defs.len()))
        } else {
            Expr::Lit(self.r.below(5) as i64 - 2)
        }
    }

    fn expr(&mut self, depth: usize) -> Expr {
        if depth == 0 || self.r.chance(1, 2) {
            return self.leaf();
        }
        match self.r.below(6) {
            0 | 1 => Expr::Add(Box::new(self.expr(depth - 1)), Box::new(self.expr(depth - 1))),
            2 => Expr::Mulc(self.r.below(4) as i64 - 1, Box::new(self.expr(depth - 1))),
            3 | 4 => Expr::Ite(Box::new(self.expr(depth - 1)), Box::new(self.expr(depth - 1)), Box::new(self.expr(depth - 1))),
            _ => self.leaf(),
        }
    }

    /// an expression that reads at least one node (when there is one)
    fn dyn_expr(&mut self) -> Expr {
        // the known "memo, then a source of that memo" shape (F-C02-1, repaired in /repo)
        if self.r.chance(1, 12) {
            let memos: Vec<usize> =
                (0..self.defs.len()).filter(|i| matches!(self.defs[*i], Def::Memo(_))).collect();
            if !memos.is_empty() {
                let m = *self.r.pick(&memos);
                let srcs: Vec<usize> = reads_of(&self.defs, &Expr::Rd(m)).into_iter().collect();
                if !srcs.is_empty() {
                    let x = *self.r.pick(&srcs);
                    return Expr::Add(Box::new(Expr::Rd(m)), Box::new(Expr::Rd(x)));
                }
            }
        }
        for _ in 0..4 {
            let e = self.expr(2);
            if !reads_of(&self.defs, &e).is_empty() {
                return e;
            }
        }
        self.leaf()
    }

    fn cond_expr(&mut self) -> Expr {
        self.dyn_expr()
    }

    fn word(&mut self) -> String {
        (*self.r.pick(&["a", "b", "hi", "x y", "", "<&>", "ok"])).to_string()
    }

    fn keys(&mut self, sorted: bool) -> Vec<u32> {
        let mut ks: Vec<u32> = (0..6u32).filter(|_| self.r.chance(1, 2)).collect();
        if !sorted {
            // Fisher-Yates
            for i in (1..ks.len()).rev() {
                let j = self.r.below(i + 1);
                ks.swap(i, j);
            }
        }
        ks
    }

    fn attrs(&mut self) -> Vec<AttrD> {
        let mut out = vec![];
        let mut used: Vec<(&str, &str)> = vec![];
        let n = self.r.below(4);
        for _ in 0..n {
            let a = match self.r.below(5) {
                0 => AttrD::Stat(*self.r.pick(STAT_NAMES), self.word()),
                1 => AttrD::Dyn(*self.r.pick(DYN_NAMES), self.dyn_expr()),
                2 | 3 => AttrD::Cls(*self.r.pick(CLS_NAMES), self.dyn_expr()),
                _ => AttrD::Sty(*self.r.pick(STY_NAMES), self.dyn_expr()),
            };
            let key = match &a {
                AttrD::Stat(n, _) | AttrD::Dyn(n, _) => ("a", *n),
                AttrD::Cls(n, _) => ("c", *n),
                AttrD::Sty(n, _) => ("s", *n),
            };
            if !used.contains(&key) {
                used.push(key);
                out.push(a);
            }
        }
        out
    }

    /// an expression over signals only (the Suspense cases: see `top_view`)
    fn sig_expr(&mut self) -> Expr {
        let sigs = sig_ids(&self.defs);
        let mut leaf = |r: &mut Rng| if r.chance(4, 5) { Expr::Rd(*r.pick(&sigs)) } else { Expr::Lit(r.below(5) as i64 - 2) };
        match self.r.below(3) {
            0 => Expr::Rd(*self.r.pick(&sigs)),
            1 => Expr::Add(Box::new(leaf(&mut self.r)), Box::new(leaf(&mut self.r))),
            _ => Expr::Ite(Box::new(leaf(&mut self.r)), Box::new(leaf(&mut self.r)), Box::new(leaf(&mut self.r))),
        }
    }

    /// the implementation-only constructors appear at the top of the view only (never below a part
    /// that re-renders): `Suspense` over signals, `ErrorBoundary` over any expression
    fn top_view(&mut self, depth: usize) -> ViewD {
        if depth >= 1 && self.r.chance(1, 10) {
            let inner = Box::new(self.view(depth - 1));
            let v = if self.r.chance(1, 2) { ViewD::Susp(self.sig_expr(), inner) } else { ViewD::Errb(self.dyn_expr(), inner) };
            return match self.r.below(3) {
                0 => v,
                1 => ViewD::Elem(*self.r.pick(TAGS), self.attrs(), Box::new(v)),
                _ => ViewD::Seq(Box::new(ViewD::DynText(self.dyn_expr())), Box::new(v)),
            };
        }
        self.view(depth)
    }

    // ---------------------------------------------------------------- component-local state
    //
    // Generated views with component-local state stay inside the class in which the real code cannot
    // touch a disposed value (a read of a disposed arena value panics; see props/C04.known F-C04-2):
    //  * a body's state is read at the effect level of the body only (`view_ok`), so its readers are
    //    dropped together with it …
    //  * … except readers kept alive by the task of a dropped outer effect: those must never run again,
    //    so an effect expression that reads component-local state reads nothing else that can change
    //    (no program signal or memo), each component-local memo has at most one reader among effect
    //    expressions and `Show` conditions (a second one could be marked dirty by the first one's
    //    recomputation), and a write to a component-local signal is followed by `idle`.
    // Bodies of component-local memos are free to read program nodes (that is the point: a row-local memo
    // over an outer signal).
    //  * `<For>` captures the owner it is constructed under (`let parent = Owner::current()`), which keeps
    //    that owner — and every value created under it — alive until the list's own task has ended, however
    //    the region it belongs to went away.  The model disposes component-local state when the region's
    //    holder goes (`dropState`), which is the real order only if no `<For>` sits directly in a region
    //    that can be dropped: generated views with component-local state have their lists in the region of
    //    the mounted view only, and such a view is never disposed in the middle of a history.

    /// an expression over component-local state, the row key and literals; `None` if nothing is readable
    fn lexpr(&mut self, lc: &mut Lc) -> Option<Expr> {
        let n = lc.locals.len();
        let mut avail: Vec<usize> = (0..n).filter(|i| !(lc.locals[*i] && lc.used[*i])).collect();
        if avail.is_empty() {
            return None;
        }
        let i = *self.r.pick(&avail);
        avail.retain(|x| *x != i);
        lc.used[i] = true;
        let a = Expr::Loc(n - 1 - i);
        let other = |g: &mut G, lc: &mut Lc, avail: &Vec<usize>| -> Expr {
            if !avail.is_empty() && g.r.chance(1, 2) {
                let j = *g.r.pick(avail);
                lc.used[j] = true;
                Expr::Loc(lc.locals.len() - 1 - j)
            } else if lc.in_row && g.r.chance(1, 2) {
                Expr::Key
            } else {
                Expr::Lit(g.r.below(4) as i64 - 1)
            }
        };
        Some(match self.r.below(5) {
            0 | 1 => a,
            2 => Expr::Add(Box::new(a), Box::new(other(self, lc, &avail))),
            3 => Expr::Mulc(self.r.below(3) as i64 - 1, Box::new(a)),
            _ => {
                let t = other(self, lc, &avail);
                Expr::Ite(Box::new(a), Box::new(t), Box::new(Expr::Lit(self.r.below(3) as i64)))
            }
        })
    }

    /// the expression of a dynamic part: over component-local state (when there is some) or over the program
    fn xexpr(&mut self, lc: &mut Lc) -> Expr {
        if self.r.chance(2, 3) {
            if let Some(e) = self.lexpr(lc) {
                return e;
            }
        }
        let e = self.dyn_expr();
        if lc.in_row && self.r.chance(1, 3) { Expr::Add(Box::new(e), Box::new(Expr::Key)) } else { e }
    }

    /// body of a component-local memo: program nodes, outer component-local state, the key
    fn mexpr(&mut self, lc: &Lc) -> Expr {
        let mut parts: Vec<Expr> = vec![];
        if self.r.chance(4, 5) {
            parts.push(self.dyn_expr());
        }
        if !lc.locals.is_empty() && self.r.chance(1, 2) {
            parts.push(Expr::Loc(self.r.below(lc.locals.len())));
        }
        if lc.in_row && self.r.chance(1, 2) {
            parts.push(Expr::Key);
        }
        if parts.is_empty() {
            parts.push(self.dyn_expr());
        }
        let mut e = parts.pop().unwrap();
        while let Some(p) = parts.pop() {
            e = if self.r.chance(3, 4) { Expr::Add(Box::new(p), Box::new(e)) } else { Expr::Ite(Box::new(p), Box::new(e), Box::new(Expr::Lit(1))) };
        }
        e
    }

    fn xattrs(&mut self, lc: &mut Lc) -> Vec<AttrD> {
        let mut out = vec![];
        let mut used: Vec<(&str, &str)> = vec![];
        for _ in 0..self.r.below(3) {
            let a = match self.r.below(4) {
                0 => AttrD::Stat(*self.r.pick(STAT_NAMES), self.word()),
                1 => AttrD::Dyn(*self.r.pick(DYN_NAMES), self.xexpr(lc)),
                2 => AttrD::Cls(*self.r.pick(CLS_NAMES), self.xexpr(lc)),
                _ => AttrD::Sty(*self.r.pick(STY_NAMES), self.xexpr(lc)),
            };
            let key = match &a {
                AttrD::Stat(n, _) | AttrD::Dyn(n, _) => ("a", *n),
                AttrD::Cls(n, _) => ("c", *n),
                AttrD::Sty(n, _) => ("s", *n),
            };
            if !used.contains(&key) {
                used.push(key);
                out.push(a);
            }
        }
        out
    }

    fn xlists(&mut self) -> Vec<Vec<u32>> {
        let n = self.r.range(2, 4);
        let sorted = self.r.chance(3, 4);
        (0..n).map(|_| self.keys(sorted)).collect()
    }

    /// a new region (branch of an `Either` / `Show`, row of a `<For>`, the mounted view): its own bodies only
    fn xregion(&mut self, depth: usize, in_row: bool) -> ViewD {
        self.xregion_at(depth, in_row, false)
    }

    /// a row of a `<ForEnumerate>`: it shows its index (the row's outermost state) and goes on like any row
    fn xrow_enum(&mut self, depth: usize) -> ViewD {
        let mut lc = Lc { in_row: true, locals: vec![false], used: vec![false], ..Default::default() };
        let head = match self.r.below(3) {
            0 => ViewD::DynText(Expr::Loc(0)),
            1 => ViewD::DynText(Expr::Add(Box::new(Expr::Loc(0)), Box::new(Expr::Key))),
            _ => ViewD::Elem("b", vec![AttrD::Dyn("title", Expr::Loc(0))], Box::new(ViewD::DynText(Expr::Loc(0)))),
        };
        let rest = if self.r.chance(1, 2) { self.xscope(depth, &mut lc) } else { self.xview(depth, &mut lc) };
        ViewD::Seq(Box::new(head), Box::new(rest))
    }

    fn xregion_at(&mut self, depth: usize, in_row: bool, root: bool) -> ViewD {
        let mut lc = Lc { in_row, root, ..Default::default() };
        // most regions start with a body of their own
        if self.r.chance(3, 4) {
            return self.xscope(depth, &mut lc);
        }
        self.xview(depth, &mut lc)
    }

    fn xscope(&mut self, depth: usize, lc: &mut Lc) -> ViewD {
        let sid = self.next_sid;
        self.next_sid += 1;
        let d = if self.r.chance(2, 3) {
            LDef::Memo(self.mexpr(lc))
        } else {
            self.sig_sids.push(sid);
            LDef::Sig(self.r.below(4) as i64 - 1)
        };
        lc.locals.push(matches!(d, LDef::Memo(_)));
        lc.used.push(false);
        // the body's view reads what it created
        let kid = match self.r.below(4) {
            0 => self.xview(depth, lc),
            1 => {
                let e = self.lexpr(lc).unwrap_or(Expr::Lit(0));
                ViewD::Seq(Box::new(ViewD::DynText(e)), Box::new(self.xview(depth.saturating_sub(1), lc)))
            }
            2 => {
                let c = self.lexpr(lc).unwrap_or(Expr::Lit(1));
                let (a, b) = (self.xregion(depth.saturating_sub(1), false), self.xregion(depth.saturating_sub(1), false));
                if self.r.chance(2, 3) { ViewD::Show(c, Box::new(a), Box::new(b)) } else { ViewD::Either(c, Box::new(a), Box::new(b)) }
            }
            _ => ViewD::DynText(self.lexpr(lc).unwrap_or(Expr::Lit(0))),
        };
        lc.locals.pop();
        lc.used.pop();
        ViewD::Scope(sid, d, Box::new(kid))
    }

    /// a view at one effect level with the component-local state `lc` in sight
    fn xview(&mut self, depth: usize, lc: &mut Lc) -> ViewD {
        if depth == 0 {
            return match self.r.below(4) {
                0 => ViewD::Text(self.word()),
                1 => ViewD::Unit,
                _ => ViewD::DynText(self.xexpr(lc)),
            };
        }
        let top = if lc.root { 14 } else { 11 };
        match self.r.below(top) {
            0 => ViewD::Text(self.word()),
            1 | 2 => ViewD::DynText(self.xexpr(lc)),
            3 => ViewD::Elem(*self.r.pick(TAGS), self.xattrs(lc), Box::new(self.xview(depth - 1, lc))),
            4 | 5 => ViewD::Seq(Box::new(self.xview(depth - 1, lc)), Box::new(self.xview(depth - 1, lc))),
            6 => ViewD::Either(self.xexpr(lc), Box::new(self.xregion(depth - 1, false)), Box::new(self.xregion(depth - 1, false))),
            7 | 8 => ViewD::Show(self.xexpr(lc), Box::new(self.xregion(depth - 1, false)), Box::new(self.xregion(depth - 1, false))),
            9 | 10 => self.xscope(depth - 1, lc),
            11 => ViewD::Elem("ul", vec![], Box::new(ViewD::For(self.xexpr(lc), self.xlists()))),
            _ => {
                let sel = self.xexpr(lc);
                let lists = self.xlists();
                if self.r.chance(1, 2) {
                    ViewD::Elem("ul", self.xattrs(lc), Box::new(ViewD::ForE(sel, lists, Box::new(self.xrow_enum(depth - 1)))))
                } else {
                    ViewD::Elem("ul", self.xattrs(lc), Box::new(ViewD::ForR(sel, lists, Box::new(self.xregion(depth - 1, true)))))
                }
            }
        }
    }

    /// a mounted view with component-local state: mostly a list with rows of their own
    fn xtop(&mut self, depth: usize) -> ViewD {
        match self.r.below(4) {
            0 => self.xregion_at(depth, false, true),
            _ => {
                let mut lc = Lc { root: true, ..Default::default() };
                let sel = self.dyn_expr();
                let lists = self.xlists();
                let list = if self.r.chance(1, 2) {
                    ViewD::Elem("ul", vec![], Box::new(ViewD::ForE(sel, lists, Box::new(self.xrow_enum(depth.saturating_sub(1))))))
                } else {
                    ViewD::Elem("ul", vec![], Box::new(ViewD::ForR(sel, lists, Box::new(self.xregion(depth.saturating_sub(1), true)))))
                };
                match self.r.below(3) {
                    0 => list,
                    1 => ViewD::Seq(Box::new(self.xview(depth.saturating_sub(1), &mut lc)), Box::new(list)),
                    _ => ViewD::Seq(Box::new(list), Box::new(self.xregion_at(depth.saturating_sub(1), false, true))),
                }
            }
        }
    }

    // ---------------------------------------------------------------- error boundaries
    //
    // `eb <view>` with `res <c> <x>` leaves (`Err` while `c != 0`) anywhere below it: directly, in branches of
    // `Either` / `Show` that a later re-run creates or drops, in rows that a later re-run adds or removes (also while
    // they are in error), several failing leaves per boundary, below a nested boundary; every polling order.
    // (Two defects found in this class are repaired in /repo: ffdfcd9 F-C04-3, 6685c08 F-C04-4; props/C04.known.)

    fn res_cond(&mut self, in_row: bool) -> Expr {
        let sigs = sig_ids(&self.defs);
        let rd = if in_row && self.r.chance(1, 2) { Expr::Key } else { Expr::Rd(*self.r.pick(&sigs)) };
        match self.r.below(5) {
            0 => rd,
            1 => Expr::Ite(Box::new(rd), Box::new(Expr::Lit(0)), Box::new(Expr::Lit(1))),
            2 | 3 => Expr::Add(Box::new(rd), Box::new(Expr::Lit(-(self.r.below(3) as i64)))),
            _ => {
                let other = if in_row { Expr::Key } else { self.leaf() };
                Expr::Ite(Box::new(rd), Box::new(other), Box::new(Expr::Lit(0)))
            }
        }
    }

    fn res_leaf(&mut self, in_row: bool) -> ViewD {
        let x = self.dyn_expr();
        let x = if in_row && self.r.chance(1, 2) { Expr::Add(Box::new(x), Box::new(Expr::Key)) } else { x };
        ViewD::Res(self.res_cond(in_row), x)
    }

    /// a row of a list below a boundary: it reads its key; no component-local state
    fn erow(&mut self, depth: usize, ev: &mut Ev) -> ViewD {
        let mut parts = vec![self.res_leaf(true)];
        if self.r.chance(1, 2) {
            let e = self.dyn_expr();
            parts.push(ViewD::DynText(Expr::Add(Box::new(e), Box::new(Expr::Key))));
        }
        if depth > 0 && self.r.chance(1, 3) {
            let c = Expr::Add(Box::new(self.dyn_expr()), Box::new(Expr::Key));
            parts.push(ViewD::Show(c, Box::new(self.eview(depth - 1, ev)), Box::new(self.eview(depth - 1, ev))));
        }
        if self.r.chance(1, 2) {
            parts.reverse();
        }
        let mut v = parts.pop().unwrap();
        while let Some(p) = parts.pop() {
            v = ViewD::Seq(Box::new(p), Box::new(v));
        }
        if self.r.chance(1, 3) { ViewD::Elem("b", self.attrs(), Box::new(v)) } else { v }
    }

    fn eview(&mut self, depth: usize, ev: &mut Ev) -> ViewD {
        let can_res = ev.budget > 0;
        if depth == 0 {
            return match self.r.below(5) {
                0 => ViewD::Text(self.word()),
                1 => ViewD::Unit,
                2 => ViewD::DynText(self.dyn_expr()),
                _ if can_res => {
                    ev.budget -= 1;
                    self.res_leaf(false)
                }
                _ => ViewD::DynText(self.dyn_expr()),
            };
        }
        match self.r.below(16) {
            0 => ViewD::Text(self.word()),
            1 => ViewD::DynText(self.dyn_expr()),
            2 | 3 if can_res => {
                ev.budget -= 1;
                self.res_leaf(false)
            }
            2 | 3 => ViewD::DynText(self.dyn_expr()),
            4 => ViewD::Elem(*self.r.pick(TAGS), self.attrs(), Box::new(self.eview(depth - 1, ev))),
            5 | 6 => ViewD::Seq(Box::new(self.eview(depth - 1, ev)), Box::new(self.eview(depth - 1, ev))),
            7 | 8 => ViewD::Either(self.cond_expr(), Box::new(self.eview(depth - 1, ev)), Box::new(self.eview(depth - 1, ev))),
            9 | 10 | 11 => ViewD::Show(self.cond_expr(), Box::new(self.eview(depth - 1, ev)), Box::new(self.eview(depth - 1, ev))),
            12 | 13 => {
                // a (nested) boundary
                let mut inner = Ev { budget: 6 };
                ViewD::Eb(Box::new(self.eview(depth - 1, &mut inner)))
            }
            14 => {
                let lists = self.xlists();
                let sel = self.dyn_expr();
                ViewD::Elem("ul", vec![], Box::new(ViewD::ForR(sel, lists, Box::new(self.erow(depth - 1, ev)))))
            }
            15 => {
                let lists = self.xlists();
                ViewD::Elem("ul", vec![], Box::new(ViewD::For(self.dyn_expr(), lists)))
            }
            _ => ViewD::Seq(Box::new(self.eview(depth - 1, ev)), Box::new(self.eview(depth - 1, ev))),
        }
    }

    /// a mounted view with an error boundary near its top
    fn etop(&mut self, depth: usize) -> ViewD {
        let mut inner = Ev { budget: 6 };
        let mut kid = self.eview(depth, &mut inner);
        if inner.budget == 6 {
            // no `Result` leaf yet: put one behind a condition, where a later re-run creates it
            let leaf = self.res_leaf(false);
            let other = if self.r.chance(1, 2) { ViewD::Text(self.word()) } else { ViewD::Unit };
            let guarded = if self.r.chance(2, 3) {
                ViewD::Show(self.cond_expr(), Box::new(leaf), Box::new(other))
            } else {
                ViewD::Either(self.cond_expr(), Box::new(other), Box::new(leaf))
            };
            kid = ViewD::Seq(Box::new(kid), Box::new(guarded));
        }
        let eb = ViewD::Eb(Box::new(kid));
        let mut outer = Ev { budget: 2 };
        match self.r.below(6) {
            0 | 1 => eb,
            2 => ViewD::Elem(*self.r.pick(TAGS), self.attrs(), Box::new(eb)),
            3 => ViewD::Seq(Box::new(self.eview(depth.saturating_sub(1), &mut outer)), Box::new(eb)),
            4 => ViewD::Show(self.cond_expr(), Box::new(eb), Box::new(self.eview(depth.saturating_sub(1), &mut outer))),
            _ => ViewD::Either(self.cond_expr(), Box::new(self.eview(depth.saturating_sub(1), &mut outer)), Box::new(eb)),
        }
    }

    // ---------------------------------------------------------------- suspense boundaries
    //
    // S views: `sus` / `tra` over `aw <rid>` leaves (resources = `ares` lines over signals, completed by `resolve`),
    // nested in each other, under Show / Either / rows and around them; observed at idle points (every op runs the
    // executor to idle).  A `<Transition>` sits at a fixed place (no branch or row above it) over fixed structure.
    // An `aw` leaf lives exactly as long as its boundary: no branch or row BETWEEN a boundary and its leaves (branches
    // and rows below a boundary start without a boundary of their own, so they get leaves only below a new one).  A leaf
    // that goes away while its boundary stays is F-C04-5 (props/C04.known): the resource keeps the boundary's
    // `SuspenseContext` registered for one more fetch.

    fn sleaf(&mut self, nres: usize, in_b: bool, in_row: bool, fixed: bool) -> ViewD {
        if in_b && self.r.chance(1, 2) {
            return ViewD::Aw(self.r.below(nres));
        }
        if fixed && self.r.chance(1, 3) {
            // a `Suspend` over a plain future picked by a signal — at a place no enclosing effect re-renders or
            // drops: a leaf nested in an inner effect of a region that is re-rendered stays alive until that inner
            // effect's task is polled (F-C04-2's mechanism); notified meanwhile, it re-runs and starts a load that
            // nobody aborts, and its boundary stays in the fallback until that load completes (F-C04-6, props/C04.known)
            let sigs = sig_ids(&self.defs);
            return ViewD::Lw(Expr::Rd(*self.r.pick(&sigs)));
        }
        match self.r.below(3) {
            0 => ViewD::Text(self.word()),
            _ => {
                let e = self.dyn_expr();
                ViewD::DynText(if in_row && self.r.chance(1, 2) { Expr::Add(Box::new(e), Box::new(Expr::Key)) } else { e })
            }
        }
    }

    /// `fixed`: no branch or row above (a `<Transition>` may sit here); `only_fixed`: below a `<Transition>`
    fn sview(&mut self, depth: usize, nres: usize, in_b: bool, fixed: bool, only_fixed: bool, in_row: bool) -> ViewD {
        if depth == 0 {
            return self.sleaf(nres, in_b, in_row, fixed);
        }
        match self.r.below(16) {
            0 | 1 => self.sleaf(nres, in_b, in_row, fixed),
            2 => ViewD::Elem(*self.r.pick(TAGS), self.attrs(), Box::new(self.sview(depth - 1, nres, in_b, fixed, only_fixed, in_row))),
            3 | 4 => ViewD::Seq(
                Box::new(self.sview(depth - 1, nres, in_b, fixed, only_fixed, in_row)),
                Box::new(self.sview(depth - 1, nres, in_b, fixed, only_fixed, in_row)),
            ),
            5 | 6 | 7 | 8 => ViewD::Sus(Box::new(self.sview(depth - 1, nres, true, fixed, only_fixed, in_row))),
            9 | 10 if fixed => ViewD::Tra(Box::new(self.sview(depth - 1, nres, true, true, true, false))),
            11 | 12 if !only_fixed => {
                let c = self.cond_expr();
                let c = if in_row && self.r.chance(1, 2) { Expr::Add(Box::new(c), Box::new(Expr::Key)) } else { c };
                let (a, b) = (self.sview(depth - 1, nres, false, false, false, false), self.sview(depth - 1, nres, false, false, false, false));
                if self.r.chance(1, 2) { ViewD::Show(c, Box::new(a), Box::new(b)) } else { ViewD::Either(c, Box::new(a), Box::new(b)) }
            }
            13 | 14 if !only_fixed && !in_row => {
                let lists = self.xlists();
                let sel = self.dyn_expr();
                let row = self.sview(depth - 1, nres, false, false, false, true);
                ViewD::Elem("ul", vec![], Box::new(ViewD::ForR(sel, lists, Box::new(row))))
            }
            _ => ViewD::Sus(Box::new(ViewD::Seq(
                Box::new(ViewD::Aw(self.r.below(nres))),
                Box::new(self.sview(depth - 1, nres, true, fixed, only_fixed, in_row)),
            ))),
        }
    }

    /// nested boundaries near the top: the inner one flips while the outer one shows its fallback
    fn stop(&mut self, depth: usize, nres: usize) -> ViewD {
        let outer_leaf = ViewD::Aw(self.r.below(nres));
        let inner = ViewD::Sus(Box::new(ViewD::Seq(
            Box::new(ViewD::Aw(self.r.below(nres))),
            Box::new(self.sview(depth.saturating_sub(1), nres, true, true, false, false)),
        )));
        let kids = if self.r.chance(1, 2) {
            ViewD::Seq(Box::new(ViewD::Elem("b", vec![], Box::new(outer_leaf))), Box::new(inner))
        } else {
            ViewD::Seq(Box::new(inner), Box::new(outer_leaf))
        };
        let top = if self.r.chance(2, 3) { ViewD::Sus(Box::new(kids)) } else { ViewD::Tra(Box::new(fix_only(kids))) };
        match self.r.below(4) {
            0 | 1 => top,
            2 => ViewD::Elem(*self.r.pick(TAGS), self.attrs(), Box::new(top)),
            _ => ViewD::Seq(Box::new(self.sview(depth.saturating_sub(1), nres, false, true, false, false)), Box::new(top)),
        }
    }

    fn view(&mut self, depth: usize) -> ViewD {
        if depth == 0 {
            return match self.r.below(4) {
                0 => ViewD::Text(self.word()),
                1 => ViewD::Unit,
                _ => ViewD::DynText(self.dyn_expr()),
            };
        }
        match self.r.below(12) {
            0 => ViewD::Text(self.word()),
            1 | 2 => ViewD::DynText(self.dyn_expr()),
            3 | 4 => ViewD::Elem(*self.r.pick(TAGS), self.attrs(), Box::new(self.view(depth - 1))),
            5 | 6 => ViewD::Seq(Box::new(self.view(depth - 1)), Box::new(self.view(depth - 1))),
            7 | 8 => ViewD::Either(self.cond_expr(), Box::new(self.view(depth - 1)), Box::new(self.view(depth - 1))),
            9 | 10 => ViewD::Show(self.cond_expr(), Box::new(self.view(depth - 1)), Box::new(self.view(depth - 1))),
            _ => {
                let n = self.r.range(2, 4);
                let sorted = self.r.chance(3, 4);
                let lists = (0..n).map(|_| self.keys(sorted)).collect();
                ViewD::Elem("ul", self.attrs(), Box::new(ViewD::For(self.dyn_expr(), lists)))
            }
        }
    }
}

fn has_susp(v: &ViewD) -> bool {
    match v {
        ViewD::Susp(..) | ViewD::Sus(..) | ViewD::Tra(..) => true,
        ViewD::Text(_) | ViewD::Unit | ViewD::DynText(_) | ViewD::For(..) | ViewD::Res(..) | ViewD::Aw(_) | ViewD::Lw(_) => false,
        ViewD::Elem(_, _, k) | ViewD::Errb(_, k) | ViewD::ForR(_, _, k) | ViewD::ForE(_, _, k) | ViewD::Scope(_, _, k) | ViewD::Eb(k) => has_susp(k),
        ViewD::Seq(a, b) | ViewD::Either(_, a, b) | ViewD::Show(_, a, b) => has_susp(a) || has_susp(b),
    }
}

/// a `<For>` sits in the region of the mounted view itself
fn root_has_for(v: &ViewD) -> bool {
    match v {
        ViewD::For(..) | ViewD::ForR(..) | ViewD::ForE(..) => true,
        ViewD::Elem(_, _, k) | ViewD::Scope(_, _, k) => root_has_for(k),
        ViewD::Seq(a, b) => root_has_for(a) || root_has_for(b),
        _ => false,
    }
}

/// what may sit below a `<Transition>`: branches and rows are replaced by their first alternative / dropped
fn fix_only(v: ViewD) -> ViewD {
    match v {
        ViewD::Either(_, a, _) | ViewD::Show(_, a, _) => fix_only(*a),
        ViewD::For(..) | ViewD::ForR(..) | ViewD::ForE(..) => ViewD::Unit,
        ViewD::Elem(t, a, k) => ViewD::Elem(t, a, Box::new(fix_only(*k))),
        ViewD::Seq(a, b) => ViewD::Seq(Box::new(fix_only(*a)), Box::new(fix_only(*b))),
        ViewD::Sus(k) => ViewD::Sus(Box::new(fix_only(*k))),
        ViewD::Tra(k) => ViewD::Tra(Box::new(fix_only(*k))),
        other => other,
    }
}

fn random_scase(g: &mut G, name: &str, out: &mut String) {
    g.defs.clear();
    let nsig = g.r.range(1, 3);
    for _ in 0..nsig {
        g.defs.push(Def::Sig(g.r.below(4) as i64 - 1));
    }
    // resources over the signals (before a memo is defined: they read signals only)
    let nres = g.r.range(1, 3);
    let bodies: Vec<Expr> = (0..nres).map(|_| g.sig_expr()).collect();
    if g.r.chance(1, 3) {
        let b = g.expr(2);
        let b = if reads_of(&g.defs, &b).is_empty() { Expr::Rd(0) } else { b };
        g.defs.push(Def::Memo(b));
    }
    let depth = g.r.range(1, 3);
    let view = if g.r.chance(2, 3) { g.stop(depth, nres) } else { g.sview(depth, nres, false, true, false, false) };
    // make sure there is a boundary with a leaf
    let view = if has_susp(&view) { view } else { ViewD::Seq(Box::new(view), Box::new(ViewD::Sus(Box::new(ViewD::Aw(0))))) };
    writeln!(out, "case {name}").unwrap();
    for d in &g.defs {
        match d {
            Def::Sig(v) => writeln!(out, "sig {v}").unwrap(),
            Def::Memo(b) => writeln!(out, "memo {}", show_expr(b)).unwrap(),
        }
    }
    for b in &bodies {
        writeln!(out, "ares {}", show_expr(b)).unwrap();
    }
    for rid in 0..nres {
        if g.r.chance(1, 3) {
            writeln!(out, "resolve {rid}").unwrap();
        }
    }
    writeln!(out, "mount {}", show_view(&view)).unwrap();
    let sigs = sig_ids(&g.defs);
    let n = g.r.range(4, 16);
    let dispose_at = if g.r.chance(1, 8) { Some(g.r.below(n)) } else { None };
    // poll-granular histories (not with a `<Transition>`: which pending episode its effect gets to see depends on
    // the polling order): writes / completions / gate openings without running the executor, single polls of the
    // view's ready tasks in any order, then `idle`
    let granular = !has_tra(&view) && g.r.chance(1, 2);
    let has_lw = show_view(&view).contains("lw ");
    for w in 0..n {
        if dispose_at == Some(w) {
            writeln!(out, "dispose").unwrap();
        }
        if granular && g.r.chance(2, 3) {
            // F-C04-7 (props/C04.known; repair proposed: hooks/fix-c04-7.patch): `Suspend::rebuild` hands the sources its
            // future has read over to the render effect only AFTER `Executor::tick().await`; a source that changes and
            // settles again within that tick is missed for good.  Until the repair is in /repo a burst therefore has no
            // write after a completion (`SUPERSEDE_COMPLETED` = false); with the repair this restriction can go
            const SUPERSEDE_COMPLETED: bool = true;
            let mut completed = false;
            for _ in 0..g.r.range(1, 5) {
                match g.r.below(if has_lw { 7 } else { 5 }) {
                    0 | 1 if SUPERSEDE_COMPLETED || !completed => {
                        writeln!(out, "pset {} {}", *g.r.pick(&sigs), g.r.below(5) as i64 - 1).unwrap()
                    }
                    2 => {
                        completed = true;
                        writeln!(out, "presolve {}", g.r.below(nres)).unwrap()
                    }
                    5 | 6 => {
                        completed = true;
                        writeln!(out, "popen {}", g.r.below(4)).unwrap()
                    }
                    _ => writeln!(out, "poll {}", g.r.below(6)).unwrap(),
                }
            }
            if completed || g.r.chance(1, 2) {
                writeln!(out, "idle").unwrap();
            }
            continue;
        }
        match g.r.below(if has_lw { 5 } else { 4 }) {
            0 | 1 => writeln!(out, "resolve {}", g.r.below(nres)).unwrap(),
            4 => writeln!(out, "open {}", g.r.below(4)).unwrap(),
            _ => writeln!(out, "set {} {}", *g.r.pick(&sigs), g.r.below(5) as i64 - 1).unwrap(),
        }
    }
    // let everything load
    if has_lw {
        for gid in 0..4 {
            writeln!(out, "open {gid}").unwrap();
        }
    }
    for _ in 0..2 {
        for rid in 0..nres {
            writeln!(out, "resolve {rid}").unwrap();
        }
    }
}

fn sig_ids(defs: &[Def]) -> Vec<usize> {
    (0..defs.len()).filter(|i| matches!(defs[*i], Def::Sig(_))).collect()
}

fn emit_prog(out: &mut String, name: &str, defs: &[Def], view: &ViewD) {
    writeln!(out, "case {name}").unwrap();
    for d in defs {
        match d {
            Def::Sig(v) => writeln!(out, "sig {v}").unwrap(),
            Def::Memo(b) => writeln!(out, "memo {}", show_expr(b)).unwrap(),
        }
    }
    writeln!(out, "mount {}", show_view(view)).unwrap();
}

fn random_case(g: &mut G, name: &str, out: &mut String) {
    g.defs.clear();
    let nsig = g.r.range(1, 4);
    for _ in 0..nsig {
        let v = g.r.below(4) as i64 - 1;
        g.defs.push(Def::Sig(v));
    }
    let nmemo = if g.r.chance(1, 2) { g.r.range(1, 2) } else { 0 };
    for _ in 0..nmemo {
        let mut b = g.expr(2);
        if reads_of(&g.defs, &b).is_empty() {
            b = Expr::Rd(g.r.below(g.defs.len()));
        }
        g.defs.push(Def::Memo(b));
    }
    let depth = g.r.range(1, 3);
    g.next_sid = 0;
    g.sig_sids.clear();
    let xcase = g.r.chance(1, 4);
    let ecase = !xcase && g.r.chance(1, 4);
    let view = if xcase {
        g.xtop(depth)
    } else if ecase {
        g.etop(depth)
    } else {
        g.top_view(depth)
    };
    emit_prog(out, name, &g.defs, &view);
    let sigs = sig_ids(&g.defs);
    let lsigs = g.sig_sids.clone();
    // Suspense: the executor always runs to idle between writes (partial progress of an async derived and
    // of the Suspend future that awaits it is C10's subject: F-C10-1; a disposal while a Suspend future is
    // pending panics in the leftover task, see props/C04.known)
    let only_idle = has_susp(&view);
    match g.r.below(3) {
        0 => writeln!(out, "idle").unwrap(),
        1 if !only_idle => writeln!(out, "poll {}", g.r.below(4)).unwrap(),
        1 => writeln!(out, "idle").unwrap(),
        _ => {}
    }
    let writes = g.r.range(3, 15);
    let dispose_at =
        if g.r.chance(1, 6) && !(xcase && root_has_for(&view)) { Some(g.r.below(writes)) } else { None };
    for w in 0..writes {
        if dispose_at == Some(w) {
            writeln!(out, "dispose").unwrap();
            if xcase {
                // component-local state created by an effect RUN (a body in a branch) lives under that effect's
                // owner, which the effect's task keeps until it ends; the model disposes it with the region: both
                // coincide once every task of the unmounted view has been polled
                writeln!(out, "idle").unwrap();
            }
        }
        if !lsigs.is_empty() && g.r.chance(1, 3) {
            // a write through a kept handle, between two runs of the executor to idle (see `lexpr`)
            writeln!(out, "idle").unwrap();
            writeln!(out, "setl {} {}", *g.r.pick(&lsigs), g.r.below(5) as i64 - 1).unwrap();
            writeln!(out, "idle").unwrap();
            continue;
        }
        let s = *g.r.pick(&sigs);
        writeln!(out, "set {s} {}", g.r.below(5) as i64 - 1).unwrap();
        if only_idle {
            writeln!(out, "idle").unwrap();
            continue;
        }
        match g.r.below(5) {
            0 => {}
            1 | 2 => {
                for _ in 0..g.r.range(1, 3) {
                    writeln!(out, "poll {}", g.r.below(5)).unwrap();
                }
            }
            _ => writeln!(out, "idle").unwrap(),
        }
    }
    writeln!(out, "idle").unwrap();
}

fn hexs(s: &str) -> String {
    hx_common::hex(s.as_bytes())
}

/// small programs whose schedules are enumerated exhaustively
fn small_programs() -> Vec<(Vec<Def>, String)> {
    let t = |s: &str| format!("t {}", hexs(s));
    vec![
        (vec![Def::Sig(0), Def::Sig(1)], "seq dt R0 dt add R0 R1".to_string()),
        (vec![Def::Sig(0), Def::Sig(1)], format!("el div 2 ad title R0 ac on R1 seq dt R1 {}", t("x"))),
        (vec![Def::Sig(1), Def::Sig(0)], format!("ei R0 seq dt R1 dt R0 {}", t("no"))),
        (vec![Def::Sig(1), Def::Sig(0)], format!("sh R0 seq dt R1 dt R0 {}", t("no"))),
        (vec![Def::Sig(1), Def::Sig(0)], "sh R0 ei R1 dt R0 dt R1 el p 1 ay width R1 dt R0".to_string()),
        (vec![Def::Sig(1), Def::Sig(0)], "ei R0 sh R1 dt R0 dt R1 el p 1 ac big R1 dt R0".to_string()),
        (vec![Def::Sig(0), Def::Sig(1)], "el ul 0 for R0 3 0,1,2 1,2,3 -".to_string()),
        (vec![Def::Sig(0), Def::Sig(1)], "seq el ul 1 ac on R1 for add R0 R1 3 0,1 0,1,2 2 dt R1".to_string()),
        (vec![Def::Sig(0), Def::Sig(1), Def::Memo(Expr::Mulc(0, Box::new(Expr::Rd(0))))], "seq dt add R2 R0 dt R1".to_string()),
        (vec![Def::Sig(0), Def::Sig(1), Def::Memo(Expr::Add(Box::new(Expr::Rd(0)), Box::new(Expr::Rd(1))))],
         "sh R2 dt R2 dt R0".to_string()),
        (vec![Def::Sig(1), Def::Sig(1)], format!("ei R0 ei R1 dt R0 {} dt R1", t("in"))),
        (vec![Def::Sig(1), Def::Sig(1)], "el div 3 ay width R0 ay height R1 ac hot R0 ei R1 el b 1 ad title R0 dt R0 u".to_string()),
        // component-local state: a row-local memo over an outer signal; a Show inside the row over it; bodies in branches
        (vec![Def::Sig(0), Def::Sig(1)], "el ul 0 forr R0 3 0,1,2 1,2,3 - sc 0 m add R1 K dt V0".to_string()),
        (vec![Def::Sig(0), Def::Sig(1)], format!("el ul 0 forr R0 3 0,1 0,1,2 2 sc 0 m add R1 K sh V0 sc 1 m mulc 2 R1 dt V0 {}", t("-"))),
        (vec![Def::Sig(1), Def::Sig(0)], format!("sh R0 sc 0 m add R0 R1 seq dt V0 {} {}", t("."), t("no"))),
        (vec![Def::Sig(1), Def::Sig(0)], format!("ei R0 sc 0 m R1 sh V0 {} {} {}", t("a"), t("b"), t("no"))),
        // <ForEnumerate>: rows that leave and return to their creation index
        (vec![Def::Sig(0), Def::Sig(1)], "el ul 0 fore add R0 R1 4 0,1,2 1,0,2 3,0,1,2 0,2 seq dt V0 sc 0 m add V0 R1 dt V0".to_string()),
    ]
}

/// error boundaries under every schedule (the schedules drop leaves that are in error)
fn eb_programs() -> Vec<(Vec<Def>, String)> {
    let t = |s: &str| format!("t {}", hexs(s));
    vec![
        // a leaf that exists from the start, a leaf a `Show` creates later, a second error
        (vec![Def::Sig(1), Def::Sig(0)], format!("el div 0 eb seq res add R1 L-1 R1 sh R0 res R1 R0 {}", t("closed"))),
        // rows that are added and removed while they are in error
        (vec![Def::Sig(0), Def::Sig(1)], "eb el ul 0 forr R0 3 0,1,2 1,2,3 - seq res add K L-1 add R1 K dt R1".to_string()),
        // a nested boundary; the outer one catches what is outside the inner one
        (vec![Def::Sig(1), Def::Sig(1)], format!("eb seq ei R0 eb res R1 R0 {} res add R0 R1 R1", t("-"))),
    ]
}

fn exhaustive_cases(out: &mut String) -> usize {
    let mut count = 0;
    let mut scheds: Vec<Vec<usize>> = vec![vec![]];
    let mut frontier: Vec<Vec<usize>> = vec![vec![]];
    for _ in 0..3 {
        let mut next = vec![];
        for s in &frontier {
            for i in 0..3 {
                let mut s2 = s.clone();
                s2.push(i);
                next.push(s2);
            }
        }
        scheds.extend(next.iter().cloned());
        frontier = next;
    }
    let mut progs = small_programs();
    progs.extend(eb_programs());
    for (pi, (defs, view)) in progs.iter().enumerate() {
        for (si, sched) in scheds.iter().enumerate() {
            writeln!(out, "case x{pi}-{si}").unwrap();
            for d in defs {
                match d {
                    Def::Sig(v) => writeln!(out, "sig {v}").unwrap(),
                    Def::Memo(b) => writeln!(out, "memo {}", show_expr(b)).unwrap(),
                }
            }
            writeln!(out, "mount {view}").unwrap();
            // two rounds of writes to both signals, each followed by the schedule prefix, then idle
            for (a, b) in [(0i64, 2i64), (1, 0), (3, 3)] {
                writeln!(out, "set 0 {a}").unwrap();
                writeln!(out, "set 1 {b}").unwrap();
                for i in sched {
                    writeln!(out, "poll {i}").unwrap();
                }
                writeln!(out, "set 0 {}", a + 1).unwrap();
                for i in sched.iter().rev() {
                    writeln!(out, "poll {i}").unwrap();
                }
                writeln!(out, "idle").unwrap();
            }
            count += 1;
        }
    }
    count
}

pub fn generate(seed: u64, n: usize, _tier: &str) -> String {
    let mut out = String::new();
    let nx = exhaustive_cases(&mut out);
    let mut g = G { r: Rng::new(seed), defs: vec![], next_sid: 0, sig_sids: vec![] };
    for i in 0..n.saturating_sub(nx).max(1) {
        if g.r.chance(1, 6) {
            random_scase(&mut g, &format!("g{i}"), &mut out);
        } else {
            random_case(&mut g, &format!("g{i}"), &mut out);
        }
    }
    out
}

// ------------------------------------------------------------------------------------ tags

fn expr_shadowed(defs: &[Def], e: &Expr) -> bool {
    // a read of memo m followed (in evaluation order) by a read of a transitive source of m
    fn reads_in_order(e: &Expr, out: &mut Vec<usize>) {
        match e {
            Expr::Lit(_) => {}
            Expr::Rd(i) => out.push(*i),
            Expr::Add(a, b) => {
                reads_in_order(a, out);
                reads_in_order(b, out)
            }
            Expr::Mulc(_, a) => reads_in_order(a, out),
            Expr::Ite(c, t, f) => {
                reads_in_order(c, out);
                reads_in_order(t, out);
                reads_in_order(f, out)
            }
            Expr::Key | Expr::Loc(_) => {}
        }
    }
    fn sources(defs: &[Def], i: usize, out: &mut BTreeSet<usize>) {
        if let Some(Def::Memo(b)) = defs.get(i) {
            let mut r = vec![];
            reads_in_order(b, &mut r);
            for x in r {
                if out.insert(x) {
                    sources(defs, x, out)
                }
            }
        }
    }
    let mut r = vec![];
    reads_in_order(e, &mut r);
    for (k, m) in r.iter().enumerate() {
        let mut s = BTreeSet::new();
        sources(defs, *m, &mut s);
        if r[k + 1..].iter().any(|x| s.contains(x)) {
            return true;
        }
    }
    false
}

fn view_tags(defs: &[Def], v: &ViewD, under_dyn: bool, tags: &mut BTreeSet<&'static str>) {
    let mut on_expr = |e: &Expr, tags: &mut BTreeSet<&'static str>| {
        if reads_memo(defs, e) {
            tags.insert("memo");
        }
        if expr_shadowed(defs, e) {
            tags.insert("shadowed");
        }
        if under_dyn {
            tags.insert("nested");
        }
    };
    match v {
        ViewD::Text(_) | ViewD::Unit => {}
        ViewD::Elem(_, attrs, kid) => {
            for a in attrs {
                match a {
                    AttrD::Stat(..) => {}
                    AttrD::Dyn(_, e) => {
                        tags.insert("dynattr");
                        on_expr(e, tags)
                    }
                    AttrD::Cls(_, e) => {
                        tags.insert("dynclass");
                        on_expr(e, tags)
                    }
                    AttrD::Sty(_, e) => {
                        tags.insert("dynstyle");
                        on_expr(e, tags)
                    }
                }
            }
            view_tags(defs, kid, under_dyn, tags)
        }
        ViewD::Seq(a, b) => {
            view_tags(defs, a, under_dyn, tags);
            view_tags(defs, b, under_dyn, tags)
        }
        ViewD::DynText(e) => {
            tags.insert("dyntext");
            on_expr(e, tags)
        }
        ViewD::Either(c, a, b) => {
            tags.insert("either");
            on_expr(c, tags);
            view_tags(defs, a, true, tags);
            view_tags(defs, b, true, tags)
        }
        ViewD::Show(c, a, b) => {
            tags.insert("show");
            on_expr(c, tags);
            view_tags(defs, a, true, tags);
            view_tags(defs, b, true, tags)
        }
        ViewD::For(sel, _) => {
            tags.insert("for");
            on_expr(sel, tags)
        }
        ViewD::ForE(sel, _, row) => {
            tags.insert("for");
            tags.insert("rows");
            tags.insert("enumerate");
            on_expr(sel, tags);
            view_tags(defs, row, true, tags)
        }
        ViewD::ForR(sel, _, row) => {
            tags.insert("for");
            tags.insert("rows");
            on_expr(sel, tags);
            view_tags(defs, row, true, tags)
        }
        ViewD::Scope(_, d, kid) => {
            tags.insert(if matches!(d, LDef::Memo(_)) { "local-memo" } else { "local-signal" });
            view_tags(defs, kid, under_dyn, tags)
        }
        ViewD::Eb(k) => {
            tags.insert("errorboundary");
            view_tags(defs, k, under_dyn, tags)
        }
        ViewD::Res(c, e) => {
            tags.insert("result");
            on_expr(c, tags);
            on_expr(e, tags)
        }
        ViewD::Sus(k) => {
            tags.insert("suspense");
            view_tags(defs, k, true, tags)
        }
        ViewD::Tra(k) => {
            tags.insert("transition");
            view_tags(defs, k, true, tags)
        }
        ViewD::Aw(_) => {
            tags.insert("await");
        }
        ViewD::Lw(e) => {
            tags.insert("await-plain");
            on_expr(e, tags)
        }
        ViewD::Susp(e, a) => {
            tags.insert("suspense");
            on_expr(e, tags);
            view_tags(defs, a, true, tags)
        }
        ViewD::Errb(e, a) => {
            tags.insert("errorboundary");
            on_expr(e, tags);
            view_tags(defs, a, true, tags)
        }
    }
}

/// tags of every case of an ops file, by case name
pub fn tags_of_file(text: &str) -> HashMap<String, String> {
    let mut out = HashMap::new();
    let mut name: Option<String> = None;
    let mut defs: Vec<Def> = vec![];
    let mut tags: BTreeSet<&'static str> = BTreeSet::new();
    let mut after_set = false;
    let flush = |name: &Option<String>, tags: &BTreeSet<&'static str>, out: &mut HashMap<String, String>| {
        if let Some(n) = name {
            let mut t: Vec<&str> = tags.iter().copied().collect();
            if !t.iter().any(|x| ["dyntext", "dynattr", "dynclass", "dynstyle", "either", "show", "for", "suspense", "transition", "errorboundary"].contains(x)) {
                t = vec!["plain"];
            }
            out.insert(n.clone(), t.join(","));
        }
    };
    for line in text.lines() {
        let line = line.trim();
        if let Some(n) = line.strip_prefix("case ") {
            flush(&name, &tags, &mut out);
            name = Some(n.trim().to_string());
            defs.clear();
            tags.clear();
            after_set = false;
            continue;
        }
        let mut t = Toks::new(line);
        match t.next() {
            Some("sig") => defs.push(Def::Sig(0)),
            Some("memo") => {
                if let Some(b) = parse_expr(&mut t) {
                    defs.push(Def::Memo(b))
                }
            }
            Some("mount") => {
                if let Some(v) = parse_view(&mut t) {
                    view_tags(&defs, &v, false, &mut tags)
                }
            }
            Some("set") => after_set = true,
            Some("poll") => {
                if after_set {
                    tags.insert("partial-poll");
                }
            }
            Some("idle") => after_set = false,
            Some("dispose") => {
                tags.insert("dispose");
            }
            _ => {}
        }
    }
    flush(&name, &tags, &mut out);
    out
}
